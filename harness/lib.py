"""Shared machinery of the /verif checks.

A check for property Cxx does, in this order (DESIGN.md §6, §17):

  1. regenerate lean/PgFdr/Generated/*.lean from the repository's current source
     (harness/tables.py), `lake build` the property's theorem file and the model driver,
     audit the axioms of every theorem in lean/PgFdr/Props/Cxx.lean;
  2. run the corpus and a seeded batch of generated cases through the real implementation
     (imported from the working tree of $VERIF_REPO, default /repo) and through the model
     driver, canonicalise and diff  -> correspondence;
  3. run the independent Python statement of the property (the oracle) on what the real
     code returned -> failing-input search;
  4. classify what was found against known_findings.json, write evidence/Cxx.json and
     replays, print KNOWN-FINDING / VIOLATION lines, exit 0 / 1 (2 = harness error).

A property module harness/props/Cxx.py defines a subclass of `Prop` named `P`.
"""
from __future__ import annotations

import contextlib
import fcntl
import hashlib
import importlib
import json
import os
import random
import re
import subprocess
import sys
import time
import traceback
from fractions import Fraction
from pathlib import Path

VERIF = Path(__file__).resolve().parent.parent
REPO = Path(os.environ.get("VERIF_REPO", "/repo")).resolve()
LEAN = VERIF / "lean"
STUBS = VERIF / "harness" / "stubs"
DRIVER = LEAN / ".lake" / "build" / "bin" / "pgfdr_model"
ALLOWED_AXIOMS = {"propext", "Classical.choice", "Quot.sound"}
PY = "/venv/bin/python"


# --------------------------------------------------------------------------------------
# importing the implementation from the working tree
# --------------------------------------------------------------------------------------
def setup_impl_path():
    """Put the repository's working tree first and the inert stubs last on sys.path."""
    os.environ.setdefault("PYTHONDONTWRITEBYTECODE", "1")
    sys.dont_write_bytecode = True
    r = str(REPO)
    if r in sys.path:
        sys.path.remove(r)
    sys.path.insert(0, r)
    s = str(STUBS)
    if s not in sys.path:
        sys.path.append(s)
    import logging

    logging.disable(logging.CRITICAL)


def impl_env(extra=None):
    """Environment for subprocesses that run the real CLI."""
    env = dict(os.environ)
    env["PYTHONDONTWRITEBYTECODE"] = "1"
    env["PYTHONPATH"] = f"{REPO}:{STUBS}"
    env["PICKED_GROUP_FDR_VERIF"] = "1"
    if extra:
        env.update(extra)
    return env


# --------------------------------------------------------------------------------------
# exact numbers
# --------------------------------------------------------------------------------------
def rat(x):
    """float / int / Fraction -> [num, den] decimal strings (exact)."""
    if isinstance(x, Fraction):
        f = x
    elif isinstance(x, int):
        f = Fraction(x)
    else:
        f = Fraction(*float(x).as_integer_ratio())
    return [str(f.numerator), str(f.denominator)]


def unrat(j):
    return Fraction(int(j[0]), int(j[1]))


def rat_to_float(j):
    """the correctly rounded double of an exact rational (one true division)"""
    f = unrat(j)
    return f.numerator / f.denominator


# --------------------------------------------------------------------------------------
# Lean: tables, build, audit
# --------------------------------------------------------------------------------------
@contextlib.contextmanager
def build_lock():
    LEAN.mkdir(exist_ok=True)
    with open(LEAN / ".build.lock", "w") as fh:
        fcntl.flock(fh, fcntl.LOCK_EX)
        try:
            yield
        finally:
            fcntl.flock(fh, fcntl.LOCK_UN)


def theorem_names(prop):
    """theorems stated in Props/Cxx.lean (namespace PgFdr.Cxx), in file order"""
    src = (LEAN / "PgFdr" / "Props" / f"{prop}.lean").read_text()
    src = re.sub(r"/-.*?-/", "", src, flags=re.S)  # drop block comments
    names = []
    for m in re.finditer(r"^\s*(?:@\[[^\]]*\]\s*)?theorem\s+([A-Za-z_][\w'.]*)", src, flags=re.M):
        names.append(f"PgFdr.{prop}.{m.group(1)}")
    return names


FORBIDDEN = re.compile(
    r"\b(sorry|admit|native_decide|bv_decide|implemented_by|unsafe|maxHeartbeats\s+0)\b|^\s*axiom\s", re.M
)


def strip_lean_comments(src):
    src = re.sub(r"/-.*?-/", "", src, flags=re.S)
    src = re.sub(r"--.*", "", src)
    return src


def grep_forbidden():
    hits = []
    for p in sorted((LEAN / "PgFdr").rglob("*.lean")):
        body = strip_lean_comments(p.read_text())
        body = re.sub(r'"(?:[^"\\]|\\.)*"', '""', body)  # string literals are not code
        for m in FORBIDDEN.finditer(body):
            hits.append(f"{p.relative_to(LEAN)}: {m.group(0).strip()}")
    return hits


def lean_build_and_audit(prop, log, tier="quick"):
    """Returns dict(ok, driver_ok, theorems, axioms{thm: [..]}, broken[list of str], log)."""
    res = {"ok": False, "driver_ok": False, "theorems": [], "axioms": {}, "broken": [], "build_s": 0.0}
    t0 = time.time()
    with build_lock():
        # 1. regenerate the tables from the current source
        try:
            from . import tables
        except ImportError:
            import tables  # type: ignore
        try:
            changed = tables.regenerate(REPO, LEAN / "PgFdr" / "Generated")
            res["tables_changed"] = changed
        except Exception as e:  # a table the translator cannot read any more
            res["broken"].append(f"table translator failed: {type(e).__name__}: {e}")
            res["tables_changed"] = []
        # 2. build
        p = subprocess.run(
            ["lake", "build", f"PgFdr.Props.{prop}"], cwd=LEAN, capture_output=True, text=True, timeout=3000
        )
        log.write(p.stdout[-6000:] + p.stderr[-3000:])
        props_ok = p.returncode == 0
        if not props_ok:
            errs = re.findall(r"^error: (.*)$", p.stdout + p.stderr, flags=re.M)
            res["broken"].append("lake build PgFdr.Props.%s failed: %s" % (prop, "; ".join(errs[:6])[:1500]))
        if os.environ.get("PGFDR_DRIVER_CMD"):  # development: private interpreted driver, native one not rebuilt
            p2 = subprocess.CompletedProcess([], 0, "", "")
            res["driver_ok"] = True
        else:
            p2 = subprocess.run(["lake", "build", "pgfdr_model"], cwd=LEAN, capture_output=True, text=True, timeout=3000)
            log.write(p2.stdout[-3000:] + p2.stderr[-3000:])
            res["driver_ok"] = p2.returncode == 0 and DRIVER.exists()
            if res["driver_ok"]:
                import shutil

                d = VERIF / "logs" / "driver"
                d.mkdir(parents=True, exist_ok=True)
                priv = d / f"pgfdr_model.{os.getpid()}"
                shutil.copy2(DRIVER, priv)
                os.environ["PGFDR_DRIVER_BIN"] = str(priv)
        if not res["driver_ok"]:
            errs = re.findall(r"^error: (.*)$", p2.stdout + p2.stderr, flags=re.M)
            res["broken"].append("lake build pgfdr_model failed: " + "; ".join(errs[:6])[:1500])
        # 3. audit
        if props_ok:
            names = theorem_names(prop)
            res["theorems"] = names
            if not names:
                res["broken"].append(f"Props/{prop}.lean states no theorem")
            aud = LEAN / ".audit"
            aud.mkdir(exist_ok=True)
            f = aud / f"{prop}.lean"
            f.write_text(f"import PgFdr.Props.{prop}\n" + "".join(f"#print axioms {n}\n" for n in names))
            pa = subprocess.run(["lake", "env", "lean", str(f)], cwd=LEAN, capture_output=True, text=True, timeout=1800)
            out = pa.stdout + pa.stderr
            log.write(out[-6000:])
            flat = re.sub(r"\s+", " ", out)
            for n in names:
                m = re.search(r"'%s' depends on axioms: \[([^\]]*)\]" % re.escape(n), flat)
                if m:
                    ax = [a.strip() for a in m.group(1).split(",") if a.strip()]
                elif re.search(r"'%s' does not depend on any axioms" % re.escape(n), flat):
                    ax = []
                else:
                    res["broken"].append(f"audit: no axiom report for {n}")
                    continue
                res["axioms"][n] = ax
                bad = [a for a in ax if a not in ALLOWED_AXIOMS]
                if bad:
                    res["broken"].append(f"audit: {n} depends on {bad}")
            if pa.returncode != 0:
                res["broken"].append("audit file failed to elaborate")
            hits = grep_forbidden()
            if hits:
                res["broken"].append("forbidden constructs: " + ", ".join(hits[:8]))
            if tier == "thorough" and pa.returncode == 0:
                # independent re-check of the compiled theorem module (and everything it imports from this library)
                pc = subprocess.run(["lake", "env", "leanchecker", f"PgFdr.Props.{prop}"], cwd=LEAN, capture_output=True, text=True, timeout=3000)
                log.write(pc.stdout[-2000:] + pc.stderr[-2000:])
                res["leanchecker"] = "ok" if pc.returncode == 0 else "failed"
                if pc.returncode != 0:
                    res["broken"].append("leanchecker rejected PgFdr.Props.%s: %s" % (prop, (pc.stdout + pc.stderr)[-300:]))
    res["build_s"] = round(time.time() - t0, 2)
    res["ok"] = not res["broken"]
    return res


# --------------------------------------------------------------------------------------
# the model driver
# --------------------------------------------------------------------------------------
class Model:
    """One driver subprocess; requests are sent in bulk and answered line by line."""

    def __init__(self):
        # PGFDR_DRIVER_CMD (development only): an alternative driver command run in lean/
        self.cmd = os.environ.get("PGFDR_DRIVER_CMD")
        # a check uses a private copy of the native driver (made under the build lock), so that a concurrent
        # relink by another check cannot pull the binary away while workers are running
        self.bin = os.environ.get("PGFDR_DRIVER_BIN") or str(DRIVER)
        self.ok = bool(self.cmd) or Path(self.bin).exists()

    def ask(self, reqs):
        if not reqs:
            return []
        if not self.ok:
            return [{"proto_err": "driver unavailable"} for _ in reqs]
        data = "".join(json.dumps(r, separators=(",", ":")) + "\n" for r in reqs)
        if self.cmd:
            p = subprocess.run(self.cmd, shell=True, cwd=LEAN, input=data, capture_output=True, text=True, timeout=3000)
        else:
            p = subprocess.run([self.bin], input=data, capture_output=True, text=True, timeout=3000)
        lines = p.stdout.split("\n")  # not splitlines(): U+0085 / U+2028 / U+2029 inside a JSON string are not line ends
        outs = []
        for i in range(len(reqs)):
            if i < len(lines):
                try:
                    outs.append(json.loads(lines[i]))
                except json.JSONDecodeError:
                    outs.append({"proto_err": "unparsable model output: " + lines[i][:200]})
            else:
                outs.append({"proto_err": "driver died: " + p.stderr[-300:]})
        return outs


# --------------------------------------------------------------------------------------
# property interface
# --------------------------------------------------------------------------------------
class Prop:
    """Base class of harness/props/Cxx.py:P.  Cases and outputs are JSON-able values."""

    id = "C00"
    level = "proof"
    quick_cases = 300
    thorough_cases = 20000
    chunk = 250  # cases per worker chunk
    trusted_extra: list = []
    assumptions: list = []

    # -- generation ---------------------------------------------------------------
    def gen_case(self, rng: random.Random, tier: str):
        raise NotImplementedError

    def exhaustive_cases(self, tier: str):
        """optional finite enumeration (thorough tier); yields cases"""
        return []

    # -- the implementation ---------------------------------------------------------
    def run_impl(self, case):
        """call the real code; return a canonical JSON-able output (errors -> {"err": enum}).
        May return extra recorded data (shuffles, cuts, ...) under the key "_rec"."""
        raise NotImplementedError

    # -- the model ---------------------------------------------------------------------
    def model_request(self, case, impl_out):
        """protocol line(s) for the driver: a dict, a list of dicts, or None (case not modelled)"""
        raise NotImplementedError

    def model_view(self, case, resp, impl_out):
        """canonical output computed from the driver's answer, comparable with compare_view(impl_out)"""
        return resp

    def impl_view(self, case, impl_out):
        if isinstance(impl_out, dict) and "_rec" in impl_out:
            return {k: v for k, v in impl_out.items() if k != "_rec"}
        return impl_out

    def equal(self, a, b):
        return a == b

    # -- the property, stated directly (used to FIND / CONFIRM failing inputs) --------
    def oracle(self, case, impl_out):
        """None if the property holds on what the real code returned, else a short reason"""
        return None

    # -- bookkeeping ------------------------------------------------------------------
    def nontrivial(self, case, impl_out):
        return True

    def features(self, case, impl_out):
        """labels counted into the evidence histogram"""
        return []

    def shrink(self, case):
        """yield smaller variants of a case"""
        return []

    def extra(self, ctx):
        """property-specific additional stage (subprocess runs, crash enumeration ...).
        Returns a dict {"evaluations": n, "failures": [{"case":…, "why":…, "kind":…}], "info": {...}}"""
        return None

    def key(self, case):
        return hashlib.sha1(json.dumps(case, sort_keys=True).encode()).hexdigest()


def _safe(fn, *a):
    try:
        return fn(*a)
    except KeyboardInterrupt:
        raise
    except BaseException as e:  # harness-visible internal error of the implementation (SystemExit from argparse included)
        tb = traceback.format_exc(limit=6)
        return {"exc": type(e).__name__, "msg": str(e)[:300], "tb": tb[-1200:]}


def evaluate_cases(P: Prop, cases, model: Model):
    """impl + model + oracle on a list of cases.  Returns (records, stats)."""
    recs = []
    impl_outs = [_safe(P.run_impl, c) for c in cases]
    reqs, slots = [], []
    for c, io in zip(cases, impl_outs):
        r = _safe(P.model_request, c, io)
        if r is None:
            slots.append((len(reqs), 0, False))
            continue
        if isinstance(r, dict) and "exc" in r and "op" not in r:
            slots.append((len(reqs), 0, False))
            continue
        many = isinstance(r, list)
        rl = r if many else [r]
        slots.append((len(reqs), len(rl), many))
        reqs.extend(rl)
    answers = model.ask(reqs)
    for c, io, (start, n, many) in zip(cases, impl_outs, slots):
        rec = {"case": c, "impl": io, "disagree": None, "oracle": None, "modelled": n > 0}
        if n > 0:
            resp = answers[start : start + n] if many else answers[start]
            flat = resp if isinstance(resp, list) else [resp]
            for a in flat:
                if isinstance(a, dict) and str(a.get("proto_err", "")).startswith(("driver died", "driver unavailable", "unparsable model output")):
                    rec["harness_error"] = "model driver failed: %s" % a["proto_err"][:200]
            mv = _safe(P.model_view, c, resp, io)
            iv = _safe(P.impl_view, c, io)
            rec["model"] = mv
            if not P.equal(iv, mv):
                rec["disagree"] = {"impl": iv, "model": mv}
        if isinstance(io, dict) and "exc" in io and "tb" in io:
            # run_impl itself raised: an UNEXPECTED exception of the implementation (a property module that expects
            # an exception maps it to an error enum inside run_impl).  Always reported; never left to the oracle.
            rec["oracle"] = "implementation raised %s: %s" % (io["exc"], io.get("msg", ""))
            if io["exc"] in ("OSError", "TimeoutExpired", "BrokenPipeError", "MemoryError"):
                rec["harness_error"] = rec["oracle"]  # infrastructure, not the code under test
        else:
            o = _safe(P.oracle, c, io)
            if isinstance(o, dict) and "exc" in o and "tb" in o:
                rec["harness_error"] = "oracle crashed: %s %s %s" % (o["exc"], o.get("msg"), o.get("tb", "")[-300:])
                o = None
            rec["oracle"] = o
        recs.append(rec)
    return recs


def _chunk_worker(args):
    prop, seed, n, tier, cases = args
    setup_impl_path()
    P = load_prop(prop)
    model = Model()
    if cases is None:
        rng = random.Random(seed)
        cases = [P.gen_case(rng, tier) for _ in range(n)]
    recs = evaluate_cases(P, cases, model)
    stats = {"n": len(recs), "keys": set(), "nontrivial_keys": set(), "features": {}, "modelled": 0}
    bad = []
    for r in recs:
        k = P.key(r["case"])
        stats["keys"].add(k)
        nt = False
        try:
            nt = bool(P.nontrivial(r["case"], r["impl"]))
            feats = list(P.features(r["case"], r["impl"]))
        except Exception:
            feats = ["features-crashed"]
        if nt:
            stats["nontrivial_keys"].add(k)
        for f in feats:
            stats["features"][f] = stats["features"].get(f, 0) + 1
        stats["modelled"] += 1 if r["modelled"] else 0
        if r.get("harness_error"):
            stats.setdefault("harness_errors", []).append(r["harness_error"])
            continue
        if r["disagree"] is not None or r["oracle"] is not None:
            bad.append(r)
    samples = [r["case"] for r in recs[:2]]
    return stats, bad[:400], samples


def load_prop(prop) -> Prop:
    sys.path.insert(0, str(VERIF / "harness")) if str(VERIF / "harness") not in sys.path else None
    mod = importlib.import_module(f"props.{prop}")
    return mod.P()


# --------------------------------------------------------------------------------------
# known findings
# --------------------------------------------------------------------------------------
def load_known():
    f = VERIF / "known_findings.json"
    if not f.exists():
        return []
    return json.loads(f.read_text()).get("findings", [])


def classify(P: Prop, prop, rec, known):
    """name of the known (status == 'known') finding that explains this failing record, or None"""
    for k in known:
        if k.get("property") != prop or k.get("status") != "known":
            continue
        pred = getattr(P, k["predicate"], None)
        if pred is None:
            continue
        try:
            if pred(rec["case"], rec.get("impl"), rec):
                return k["id"]
        except Exception:
            continue
    return None


# --------------------------------------------------------------------------------------
# shrinking
# --------------------------------------------------------------------------------------
def shrink_case(P: Prop, rec, model, kind, budget=150):
    """greedy delta debugging with P.shrink; keeps the same kind of failure"""
    best = rec
    steps = 0
    improved = True
    while improved and steps < budget:
        improved = False
        for cand in P.shrink(best["case"]):
            steps += 1
            if steps > budget:
                break
            r = evaluate_cases(P, [cand], model)[0]
            still = (r["oracle"] is not None) if kind == "oracle" else (r["disagree"] is not None)
            if still:
                best = r
                improved = True
                break
    return best


# --------------------------------------------------------------------------------------
# the check
# --------------------------------------------------------------------------------------
def write_replay(prop, obj):
    d = VERIF / "replays" / prop
    d.mkdir(parents=True, exist_ok=True)
    h = hashlib.sha1(json.dumps(obj, sort_keys=True, default=str).encode()).hexdigest()[:16]
    p = d / f"{h}.json"
    p.write_text(json.dumps(obj, indent=1, default=str))
    return p


def run_check(prop, tier="quick", seed=0, replay=None):
    t0 = time.time()
    setup_impl_path()
    (VERIF / "evidence").mkdir(exist_ok=True)
    logdir = VERIF / "logs"
    logdir.mkdir(exist_ok=True)
    log = open(logdir / f"{prop}.{tier}.log", "w")
    P = load_prop(prop)
    known = load_known()
    violations = []  # (replay_path, no_failing_input)
    known_lines = []

    # ---- 1. proof obligations ---------------------------------------------------------
    b = lean_build_and_audit(prop, log, tier)
    obligations = len(b["theorems"]) if b["theorems"] else 0
    discharged = sum(1 for n in b["theorems"] if n in b["axioms"] and set(b["axioms"][n]) <= ALLOWED_AXIOMS)
    if b["broken"]:
        discharged = min(discharged, obligations) if not any("lake build PgFdr.Props" in x for x in b["broken"]) else 0

    # ---- 2./3. correspondence + oracle ------------------------------------------------
    model = Model()
    if not b["driver_ok"] and not model.cmd:
        model.ok = False
    import multiprocessing as mp

    corpus_cases = []
    cdir = VERIF / "corpus" / prop
    if cdir.is_dir():
        for f in sorted(cdir.glob("*.json")):
            try:
                corpus_cases.append(json.loads(f.read_text())["case"])
            except Exception as e:  # a corpus file that cannot be read is a harness error, never skipped silently
                print(f"harness error: corpus file {f} unreadable: {type(e).__name__}: {e}", file=sys.stderr)
                log.close()
                return 2
    if replay:
        rp = json.loads(Path(replay).read_text())
        corpus_cases = [rp["case"]] if "case" in rp else []
    n_cases = P.quick_cases if tier == "quick" else P.thorough_cases
    if replay:
        n_cases = 0
    jobs = []
    if corpus_cases:
        jobs.append((prop, 0, 0, tier, corpus_cases))
    nchunks = (n_cases + P.chunk - 1) // P.chunk if n_cases else 0
    for i in range(nchunks):
        jobs.append((prop, seed * 1000003 + i, min(P.chunk, n_cases - i * P.chunk), tier, None))
    if tier == "thorough" and not replay:
        ex = list(P.exhaustive_cases(tier))
        for i in range(0, len(ex), P.chunk * 4):
            jobs.append((prop, 0, 0, tier, ex[i : i + P.chunk * 4]))
    else:
        ex = []
    total = {"n": 0, "keys": set(), "nontrivial_keys": set(), "features": {}, "modelled": 0}
    bad_all, samples, harness_errors = [], [], []
    if jobs:
        nproc = min(16, len(jobs)) if len(jobs) > 1 else 1
        if nproc > 1:
            ctx = mp.get_context("fork")
            with ctx.Pool(nproc) as pool:
                results = pool.map(_chunk_worker, jobs, chunksize=1)
        else:
            results = [_chunk_worker(j) for j in jobs]
        for stats, bad, smp in results:
            total["n"] += stats["n"]
            total["keys"] |= stats["keys"]
            total["nontrivial_keys"] |= stats["nontrivial_keys"]
            total["modelled"] += stats["modelled"]
            for k, v in stats["features"].items():
                total["features"][k] = total["features"].get(k, 0) + v
            bad_all.extend(bad)
            harness_errors.extend(stats.get("harness_errors", []))
            if len(samples) < 3:
                samples.extend(smp[:1])

    # ---- extra stage -------------------------------------------------------------------
    extra_info = None
    try:
        ctx = {"tier": tier, "seed": seed, "model": model, "build": b, "replay": replay}
        extra_info = P.extra(ctx)
    except Exception as e:
        log.write(traceback.format_exc())
        print(f"harness error in extra stage: {type(e).__name__}: {e}", file=sys.stderr)
        log.close()
        return 2
    extra_nontrivial = 0
    if extra_info:
        total["n"] += extra_info.get("evaluations", 0)
        extra_nontrivial = int(extra_info.get("distinct_nontrivial", 0))  # measured by the extra stage itself
        total["modelled"] += int(extra_info.get("modelled", 0))
        for f in extra_info.get("failures", []):
            bad_all.append(
                {"case": f["case"], "impl": f.get("impl"), "disagree": f.get("disagree"), "oracle": f.get("why"), "extra": True}
            )

    main_n = total["n"] - (extra_info.get("evaluations", 0) if extra_info else 0)
    main_modelled = total["modelled"] - (int(extra_info.get("modelled", 0)) if extra_info else 0)
    if harness_errors and not bad_all:
        # infrastructure trouble and nothing else to report: never a VIOLATION line.  (When failing cases were found
        # as well they are reported below — they stand on their own records — and the trouble is printed to stderr.)
        for h in harness_errors[:5]:
            print("harness error: " + h, file=sys.stderr)
        log.close()
        return 2
    for h in harness_errors[:3]:
        print("harness warning (records skipped): " + h[:300], file=sys.stderr)
    floor = getattr(P, "min_modelled_fraction", 0.5)
    if not replay and main_n >= 20 and b["driver_ok"] and main_modelled < floor * main_n:
        # the correspondence silently switched off (model_request returning None / raising for most cases)
        print(f"harness error: only {main_modelled} of {main_n} generated cases were compared with the model "
              f"(floor {floor:.0%}, P.min_modelled_fraction)", file=sys.stderr)
        log.close()
        return 2
    if total["features"].get("features-crashed", 0) > 0.05 * max(1, main_n):
        print("harness error: P.features / P.nontrivial raised on more than 5% of the cases", file=sys.stderr)
        log.close()
        return 2

    # ---- 4. classify -------------------------------------------------------------------
    seen_known = {}
    fresh_oracle, fresh_disagree = [], []
    for r in bad_all:
        kid = classify(P, prop, r, known)
        if kid is not None:
            seen_known.setdefault(kid, r)
            continue
        if r.get("oracle") is not None:
            fresh_oracle.append(r)
        elif r.get("disagree") is not None:
            fresh_disagree.append(r)
    for kid, r in seen_known.items():
        k = next(x for x in known if x["id"] == kid)
        known_lines.append(f"KNOWN-FINDING: property={prop} {kid}: {k.get('text', '')[:160]}")
    # listed known findings are replayed from their stored example as well
    for k in known:
        if k.get("property") == prop and k.get("status") == "known" and k["id"] not in seen_known and "example" in k:
            r = evaluate_cases(P, [k["example"]], model)[0]
            if r["oracle"] is not None or r["disagree"] is not None:
                if classify(P, prop, r, known) == k["id"]:
                    known_lines.append(f"KNOWN-FINDING: property={prop} {k['id']}: {k.get('text', '')[:160]}")
                elif r.get("oracle") is not None:  # the stored example now fails in ANOTHER way: a fresh violation
                    fresh_oracle.append(r)
                else:
                    fresh_disagree.append(r)

    def dedup(rs):
        seen, out = set(), []
        for r in rs:
            k = P.key(r["case"])
            if k not in seen:
                seen.add(k)
                out.append(r)
        return out

    fresh_oracle, fresh_disagree = dedup(fresh_oracle), dedup(fresh_disagree)
    reported = 0
    for r in fresh_oracle[:3]:
        if not r.get("extra"):
            r0 = r
            r = shrink_case(P, r, model, "oracle")
            if classify(P, prop, r, known) is not None:  # shrinking drifted into a listed finding: keep the original
                r = r0
        path = write_replay(
            prop,
            {
                "property": prop,
                "kind": "failing-input",
                "what": r["oracle"],
                "case": r["case"],
                "implementation": r.get("impl"),
                "model": r.get("model"),
                "disagreement": r.get("disagree"),
                "seed": seed,
                "tier": tier,
                "replay_cmd": f"./check {prop} --replay <this file>",
            },
        )
        violations.append((path, False))
        reported += 1
    if not fresh_oracle:
        # correspondence broken but the oracle sees no failing input
        for r in fresh_disagree[:2]:
            r0 = r
            r = shrink_case(P, r, model, "disagree")
            if classify(P, prop, r, known) is not None:
                r = r0
            if r.get("oracle") is not None:
                kind, nf = "failing-input", False
            else:
                kind, nf = "broken-correspondence", True
            path = write_replay(
                prop,
                {
                    "property": prop,
                    "kind": kind,
                    "what": r.get("oracle") or f"correspondence between harness/props/{prop}.py:run_impl and the Lean model no longer holds on this input",
                    "case": r["case"],
                    "implementation": r["disagree"]["impl"] if r.get("disagree") else r.get("impl"),
                    "model": r["disagree"]["model"] if r.get("disagree") else r.get("model"),
                    "seed": seed,
                    "tier": tier,
                    "replay_cmd": f"./check {prop} --replay <this file>",
                },
            )
            violations.append((path, nf))
        if b["broken"] and not fresh_disagree:
            path = write_replay(
                prop,
                {
                    "property": prop,
                    "kind": "broken-obligation",
                    "what": b["broken"],
                    "searched": {"cases": total["n"], "oracle_failures": 0, "disagreements": 0},
                    "seed": seed,
                    "tier": tier,
                },
            )
            violations.append((path, True))

    # ---- evidence -----------------------------------------------------------------------
    axioms_used = sorted({a for v in b["axioms"].values() for a in v})
    cov = {
        "obligations": obligations,
        "discharged": discharged,
        "checker_cmd": f"cd lean && lake build PgFdr.Props.{prop} pgfdr_model && lake env lean .audit/{prop}.lean   # #print axioms of every theorem",
        "trusted_base": [
            "Lean 4.33.0 kernel",
            "axioms reported by #print axioms on this build: " + (", ".join(axioms_used) or "none"),
            "harness/tables.py (source -> PgFdr/Generated translator)",
            f"harness/props/{prop}.py (generators, canonicalisation, diff; oracle used only to find/confirm failing inputs)",
            "harness/stubs (inert import stubs for job_pool, triqler, mokapot, joblib, matplotlib)",
        ]
        + list(P.trusted_extra),
        "theorems": b["theorems"],
        "axioms_per_theorem": b["axioms"],
        "broken_obligations": b["broken"],
        "tables_regenerated": b.get("tables_changed", []),
        "evaluations": total["n"],
        "distinct_cases": len(total["keys"]),
        "distinct_nontrivial": len(total["nontrivial_keys"]) + extra_nontrivial,
        "compared_with_model": total["modelled"],
        "disagreements": sum(1 for r in bad_all if r.get("disagree") is not None),
        "oracle_failures": sum(1 for r in bad_all if r.get("oracle") is not None),
        "known_findings_seen": sorted(seen_known),
        "rule": getattr(P, "rule", "seeded generator of harness/props/%s.py; a case is non-trivial by P.nontrivial; distinct by sha1 of the case" % prop),
        "samples": samples[:3] or [{"note": "no generated case in this run"}],
        "input_histogram": dict(sorted(total["features"].items())),
        "exhaustive": bool(ex) and tier == "thorough",
        "exhaustive_cases": len(ex),
        "build_s": b["build_s"],
        "leanchecker": b.get("leanchecker", "not run (quick tier)"),
    }
    if extra_info and extra_info.get("info"):
        cov["extra_stage"] = extra_info["info"]
    ev = {
        "property_id": prop,
        "tier": tier,
        "seed": int(seed),
        "level": P.level,
        "coverage": cov,
        "assumptions": list(P.assumptions),
        "wall_s": round(time.time() - t0, 2),
        "violations": len(violations),
    }
    if not replay:
        if str(REPO) == "/repo":
            (VERIF / "evidence" / f"{prop}.json").write_text(json.dumps(ev, indent=1, default=str))
        else:  # runs against a scratch copy (self-validation) never overwrite the evidence of /repo
            alt = VERIF / "logs" / "evidence_alt"
            alt.mkdir(parents=True, exist_ok=True)
            (alt / f"{prop}.json").write_text(json.dumps(ev, indent=1, default=str))
    log.close()
    priv = os.environ.get("PGFDR_DRIVER_BIN")
    if priv and priv.startswith(str(VERIF / "logs" / "driver")):
        with contextlib.suppress(OSError):
            os.unlink(priv)
    for l in known_lines:
        print(l)
    for path, nf in violations:
        rel = path.relative_to(VERIF)
        print(f"VIOLATION property={prop} replay={rel}" + (" no-failing-input-found" if nf else ""))
    if not violations:
        print(
            f"{prop} {tier}: ok  theorems={discharged}/{obligations} cases={total['n']} "
            f"nontrivial={len(total['nontrivial_keys']) + extra_nontrivial} modelled={total['modelled']} wall={ev['wall_s']}s"
        )
    return 1 if violations else 0
