"""C17, second part: WHICH list of PEPs the callers hand to fdr.calc_post_err_prob_cutoff (Lean: Model/C17Lists.lean).

Three case kinds, used by harness/props/C17.py:

  collect           ProteinScoringStrategy.collect_peptide_scores_per_protein called directly on a grouping and a peptide
                    list, for every shared-peptide setting: discard, razor, and score types containing "with_shared"
                    (strategy built by ProteinScoringStrategy(...) or from a custom method TOML through
                    methods.parse_method_toml).  Observed from outside: the list that reaches
                    fdr.calc_post_err_prob_cutoff (module attribute wrapped while the call runs), the stored
                    strategy.peptide_score_cutoff, the returned evidence.
  collect_pipeline  get_protein_group_results with a custom with_shared method TOML (real grouping, rescue step): every
                    call of collect_peptide_scores_per_protein is recorded (grouping at call time, suppress flag, list
                    handed on, stored cutoff, returned evidence) and compared call by call.
  quant             the multi-file quantification entry points, obtained as do_quantification obtains them
                    (score_type.get_quantification_parser()): quant.fragpipe.add_precursor_quants_multiple (>= 1 psm.tsv in
                    separate directories, optional combined_ion.tsv), quant.sage.add_precursor_quants_multiple (>= 1
                    results.sage.tsv, optional lfq.tsv), quant.maxquant.add_precursor_quants on several evidence.txt and on
                    several DIA-NN report.tsv files; then ProteinGroupsWriter.append_quant_columns with a spy column.
                    Observed: the PEPs in the returned post_err_probs, the list that reaches calc_post_err_prob_cutoff,
                    the cutoff handed to the precursor filter and the column - for the files in the given AND in the
                    reversed order.

Model side: driver ops c17_collect / c17_quant (PgFdr.C17.collectPeps, quantPeps, writerPeps, quantCutoff).
Oracles (independent of the model, Fractions):
  collect*: the stored cutoff is the property's cutoff of {one PEP per distinct peptide in the RETURNED evidence whose
            proteins are not all decoys and whose score is not NaN};
  quant:    the cutoff handed to the columns is the property's cutoff of {PEP of every row of EVERY file that is a
            target row and reaches a group (exactly one group when shared peptides are discarded)}, whatever the order
            of the files.
PEPs of the collect kinds are dyadic (exact float sums); the file formats' own transforms (FragPipe: 1 - p + 1e-16,
Sage: 10**x) are applied here with the same float operations and the near-tie rule of the writer cases is used.
"""
from __future__ import annotations

import hashlib
import math
import os
import shutil
import tempfile
from fractions import Fraction

import lib
from lib import rat, unrat

KINDS = ("collect", "collect_pipeline", "quant")


# ------------------------------------------------------------------------------------------------
# values
# ------------------------------------------------------------------------------------------------
def encf(x):
    x = float(x)
    if math.isnan(x):
        return "nan"
    if math.isinf(x):
        return "inf" if x > 0 else "-inf"
    return rat(x)


def decf(j):
    if j == "nan":
        return float("nan")
    if j == "inf":
        return float("inf")
    if j == "-inf":
        return float("-inf")
    f = unrat(j)
    return f.numerator / f.denominator


def canon_list(l):
    """the finite values of an encoded list as a sorted multiset: "non-finite entries and the order of the list have no
    influence" (PgFdr.C17.cutoff_ignores_nonfinite, cutoff_perm_invariant), so where a caller drops its NaN / inf entries
    and in which order it collects is not compared"""
    return [rat(v) for v in sorted(unrat(e) for e in l if not isinstance(e, str))]


def _dyadic(v):
    d = v.denominator
    return d & (d - 1) == 0 and d <= 2**20


def prop_cutoff(fin, level):
    """the property, on exact values: first PEP in ascending order whose running mean exceeds the level, else 1"""
    s = Fraction(0)
    for k, v in enumerate(sorted(fin)):
        s += v
        if s / (k + 1) > level:
            return v
    return Fraction(1)


def near_tie(fin, level):
    """the float scan of the implementation and the exact scan may cross at different elements"""
    fin = sorted(fin)
    exact_sums = all(_dyadic(v) for v in fin)
    s = Fraction(0)
    for k, v in enumerate(fin):
        s += v
        m = s / (k + 1)
        if m != level and (m.numerator / m.denominator) == float(level):
            return True
        if not exact_sums and k >= 1 and abs(m - level) <= Fraction(1, 2**40) * max(abs(level), abs(m)):
            return True
    return False


def _all_contain(g, m):
    return all(m in x for x in g)


def is_decoy(prots):
    return _all_contain(prots, "REV__") or _all_contain(prots, "rev_")


# ------------------------------------------------------------------------------------------------
# observation points (audit 3, X1/X2): the wrappers accept ANY calling convention (positional, keyword, mixed), read the
# values through inspect.signature(orig).bind and forward the call unchanged.  What cannot be read is recorded as None
# ("not observed") and ends up on the correspondence side (impl view vs model view) - never in an oracle, never as an
# exception out of run_impl.
# ------------------------------------------------------------------------------------------------
def bound_values(orig, a, k, n):
    """the first n parameters of `orig` as the call (*a, **k) binds them, or None if they cannot be told"""
    import inspect

    try:
        ba = inspect.signature(orig).bind(*a, **k)
        ba.apply_defaults()
        vals = list(ba.arguments.values())
    except (TypeError, ValueError):
        vals = list(a)
    return vals[:n] if len(vals) >= n else None


def cutoff_spy(orig, sink, with_level=False):
    """wrapper of fdr.calc_post_err_prob_cutoff: appends the encoded list handed over (with the level if asked for), or
    None where it could not be read, to `sink`; the call itself goes on unchanged"""

    def spy(*a, **k):
        rec = None
        try:
            vals = bound_values(orig, a, k, 2)
            if vals is not None and iter(vals[0]) is not vals[0]:  # a one-shot iterator is left to the callee
                rec = ([encf(p) for p in vals[0]], encf(vals[1]))
                if not with_level:
                    rec = rec[0]
        except Exception:  # noqa: BLE001 - an observation that fails is "not observed"
            rec = None
        sink.append(rec)
        return orig(*a, **k)

    return spy


def last_seen(sink):
    return next((r for r in reversed(sink) if r is not None), None)


def safe_flag(obj, name):
    v = getattr(obj, name, None)
    return None if v is None else bool(v)


def _levels_between(lists):
    """candidate levels: the running means of the given value lists, and the midpoints between neighbouring ones"""
    ms = set()
    for l in lists:
        s = Fraction(0)
        for k, v in enumerate(sorted(l)):
            s += v
            ms.add(s / (k + 1))
    ms = sorted(ms)
    out = list(ms)
    for a, b in zip(ms, ms[1:]):
        out.append((a + b) / 2)
    if ms:
        out.append(ms[0] / 2)
    return out


def pick_level(rng, true_list, rival_lists, p_sensitive=0.7):
    """a level at which the cutoff of `true_list` differs from the cutoff of one of the rival lists (what a caller would
    get from duplicated copies / from only some of the files), if there is one; otherwise around an attained mean"""
    cands = [Fraction(*float(c).as_integer_ratio()) for c in _levels_between([true_list] + list(rival_lists))]
    if cands and rng.random() < p_sensitive:
        sens = [c for c in cands if any(prop_cutoff(true_list, c) != prop_cutoff(r, c) for r in rival_lists)
                and not near_tie(true_list, c)]
        if sens:
            return float(rng.choice(sens))
    r = rng.random()
    if cands and r < 0.5:
        return float(rng.choice(cands)) + rng.choice([-1, 0, 1]) * 2.0**-12
    return rng.choice([0.0, 0.001, 0.01, 0.05, 0.1, 0.25, 0.5, 1.0])


# ------------------------------------------------------------------------------------------------
# kind "collect" / "collect_pipeline"
# ------------------------------------------------------------------------------------------------
COLLECT_MODES = [  # (scoreType, razor, weight)
    ("bestPEP with_shared", False, 30), ("multPEP with_shared", False, 14), ("Perc bestPEP with_shared", False, 5),
    ("FragPipe bestPEP with_shared", False, 3), ("bestPEP", False, 18), ("multPEP", False, 5),
    ("bestPEP", True, 12), ("bestPEP with_shared", True, 8), ("multPEP with_shared", True, 5),
]


def _weighted(rng, items):
    tot = sum(w for *_, w in items)
    x = rng.random() * tot
    for it in items:
        x -= it[-1]
        if x < 0:
            return it
    return items[-1]


def input_contributions(groups, pil, use_shared):
    """(PEP, number of groups) of the target, non-NaN peptides that reach a group, computed from the INPUTS (no razor).
    Only used by the generator to choose levels at which the multiplicity would matter."""
    gidx = {}
    for i, g in enumerate(groups):
        for p in g:
            gidx[p] = i
    out = []
    for _pep, s, prots in pil:
        idxs = {gidx.get(p, -1) for p in prots}
        if not idxs or idxs == {-1}:
            continue
        if not use_shared and len(idxs) > 1:
            continue
        if is_decoy(prots) or s in ("nan", "inf", "-inf"):
            continue
        out.append((unrat(s), len(idxs - {-1})))
    return out


def gen_collect_case(rng):
    k = rng.randint(3, 7)
    targets = ["P%d" % i for i in range(1, k + 1)]
    groups = []
    for p in targets:
        if groups and rng.random() < 0.25:
            groups[-1].append(p)
        else:
            groups.append([p])
    unknown = []
    if rng.random() < 0.3 and len(groups) > 2:
        unknown = groups.pop(rng.randrange(len(groups)))
    dp = rng.choice(["REV__", "REV__", "rev_"])
    decoys = [dp + p for p in rng.sample(targets, rng.randint(0, 2))]
    tgroups = [list(g) for g in groups]
    for d in decoys:
        groups.append([d])
    if rng.random() < 0.5:
        rng.shuffle(groups)
    desc, razor, _ = _weighted(rng, COLLECT_MODES)
    n = rng.randint(2, 9)
    grid = rng.choice([64, 256, 1024])
    shared_strong = rng.random() < 0.6
    strong = lambda: Fraction(rng.randint(0, max(1, grid // 32)), grid)  # noqa: E731
    weak = lambda: Fraction(rng.randint(grid // 32, grid // 4), grid)  # noqa: E731
    pil = []
    for j in range(n):
        r = rng.random()
        kind = "u"
        if r < 0.38:
            g = rng.choice(tgroups)
            prots = rng.sample(g, rng.randint(1, len(g)))
        elif r < 0.78 and len(tgroups) >= 2:
            kind = "s"
            m = min(len(tgroups), rng.choice([2, 2, 3, 3, 4]))
            prots = [rng.choice(g) for g in rng.sample(tgroups, m)]
            if rng.random() < 0.2:
                g = rng.choice(tgroups)
                prots += [p for p in g if p not in prots][:1]
        elif r < 0.87:
            prots = [rng.choice(decoys)] if decoys and rng.random() < 0.8 else [dp + "P9"]
        elif r < 0.94 and unknown:
            prots = [rng.choice(unknown)]
            if rng.random() < 0.6:
                prots += [rng.choice(rng.choice(tgroups))]
                rng.shuffle(prots)
        else:
            prots = [rng.choice(rng.choice(tgroups)), dp + rng.choice(targets)]
        x = rng.random()
        if not razor and x < 0.06:
            s = "nan"
        elif not razor and x < 0.08:
            s = "inf"
        else:
            s = rat(strong() if (kind == "s") == shared_strong else weak())
        pil.append(["PEP%dK" % j, s, prots])
    if rng.random() < 0.4:
        rng.shuffle(pil)
    use_shared = "with_shared" in desc
    contrib = input_contributions(groups, pil, True)
    true_list = [v for v, _ in (contrib if use_shared else input_contributions(groups, pil, False))]
    per_group = [v for v, c in contrib for _ in range(max(1, c))]
    once_all = [v for v, _ in contrib]
    level = pick_level(rng, true_list, [per_group, once_all])
    has_unknown_only = any(all(p not in {q for g in groups for q in g} for p in prots) for _, _, prots in pil)
    suppress = rng.random() < (0.85 if has_unknown_only else 0.4)
    return {"kind": "collect", "via": rng.choice(["direct", "toml"]), "desc": desc, "razor": razor, "groups": groups,
            "pil": pil, "suppress": suppress, "level": rat(level)}


PIPE_MODES = [  # (scoreType, sharedPeptides, groupings)
    ("bestPEP with_shared", "discard", ["subset", "rescued_subset", "no"]),
    ("Perc bestPEP with_shared", "discard", ["rescued_subset", "subset"]),
    ("multPEP with_shared", "discard", ["subset", "no"]),
    ("bestPEP with_shared", "razor", ["rescued_subset", "no"]),
]


def gen_collect_pipeline_case(rng, tier):
    import gen_pil

    desc, shared, groupings = rng.choice(PIPE_MODES)
    if rng.random() < 0.3:
        entries, thr = gen_pil.gen_rescue_pil(rng, tier)
    else:
        entries, thr = gen_pil.gen_pil(rng, tier, allow_dups=(shared != "razor")), rng.choice([0.0101, 0.2001, 0.25, 0.5])
    pil = [[p, rat(s), pr] for p, s, pr in entries]
    groups1 = [[p] for p in sorted({q for _, _, pr in pil for q in pr})]
    contrib = input_contributions(groups1, pil, True)
    level = pick_level(rng, [v for v, _ in contrib], [[v for v, c in contrib for _ in range(max(1, c))]], 0.6)
    return {"kind": "collect_pipeline", "desc": desc, "shared": shared, "grouping": rng.choice(groupings),
            "picked": rng.choice(["picked", "picked_group", "classic"]), "pil": pil, "thr": rat(thr), "level": rat(level),
            "keepAll": rng.random() < 0.3}


def _write_toml(tmp, desc, shared, grouping="no", picked="picked"):
    path = os.path.join(tmp, "custom_method.toml")
    with open(path, "w") as f:
        f.write('label = "custom with shared"\nscoreType = "%s"\ngrouping = "%s"\nsharedPeptides = "%s"\npickedStrategy = "%s"\n'
                % (desc, grouping, shared, picked))
    return path


def _canon_evidence(infos):
    return [[[encf(e[0]), e[1], list(e[2])] for e in ev] for ev in infos]


def run_collect(case):
    from picked_group_fdr import fdr as fdr_mod
    from picked_group_fdr import methods
    from picked_group_fdr.protein_groups import ProteinGroups
    from picked_group_fdr.scoring_strategy import ProteinScoringStrategy

    tmp = None
    try:
        if case["via"] == "toml":
            tmp = tempfile.mkdtemp(prefix="c17c_")
            cfg = methods.parse_method_toml(_write_toml(tmp, case["desc"], "razor" if case["razor"] else "discard"), False)
            st = cfg.score_type
        else:
            st = ProteinScoringStrategy(case["desc"] + (" razor" if case["razor"] else ""))
    finally:
        if tmp:
            shutil.rmtree(tmp, ignore_errors=True)
    pil = {p: (decf(s), list(pr)) for p, s, pr in case["pil"]}
    pg = ProteinGroups([list(g) for g in case["groups"]])
    pg.create_index()
    st.set_peptide_counts_per_protein(pil)
    handed = []
    orig = fdr_mod.calc_post_err_prob_cutoff
    fdr_mod.calc_post_err_prob_cutoff = cutoff_spy(orig, handed, with_level=True)
    try:
        # the stage on its own: what it raises is classified by exception TYPE at THIS call site, never by message text
        try:
            infos = st.collect_peptide_scores_per_protein(pg, pil, decf(case["level"]), suppress_missing_protein_warning=bool(case["suppress"]))
        except IndexError:
            if case["razor"]:
                return {"err": "razor_no_proteins"}
            raise
        except Exception as e:
            if type(e) is Exception:
                return {"err": "unknown_protein"}
            raise
    finally:
        fdr_mod.calc_post_err_prob_cutoff = orig
    seen = last_seen(handed)
    return {"handed": seen[0] if seen else None, "level_seen": seen[1] if seen else None, "ncalls": len(handed),
            "cutoff": encf(getattr(st, "peptide_score_cutoff", float("nan"))), "evidence": _canon_evidence(infos),
            "flags": [safe_flag(st, "use_shared_peptides"), safe_flag(st, "use_razor")]}


def run_collect_pipeline(case):
    import numpy as np
    from picked_group_fdr import fdr as fdr_mod
    from picked_group_fdr import methods
    from picked_group_fdr import picked_group_fdr as pgf
    from picked_group_fdr.scoring_strategy import ProteinScoringStrategy

    tmp = tempfile.mkdtemp(prefix="c17p_")
    try:
        cfg = methods.parse_method_toml(_write_toml(tmp, case["desc"], case["shared"], case["grouping"], case["picked"]), False)
    finally:
        shutil.rmtree(tmp, ignore_errors=True)
    pil = {p: (decf(s), list(pr)) for p, s, pr in case["pil"]}
    handed, calls, in_collect = [], [], []
    orig_cut = fdr_mod.calc_post_err_prob_cutoff
    orig_collect = ProteinScoringStrategy.collect_peptide_scores_per_protein

    def collect(self, *a, **k):
        vals = bound_values(orig_collect, (self,) + a, k, 5)
        n0 = len(handed)
        try:
            ret = orig_collect(self, *a, **k)
        except Exception as e:  # noqa: BLE001 - remembered (call site = this stage) and handed on
            in_collect.append(e)
            raise
        try:
            _self, protein_groups, peptide_info_list, peptide_qval_cutoff, suppress = vals
            rec = {"groups": [list(g) for g in protein_groups.protein_groups], "suppress": bool(suppress),
                   "level": encf(peptide_qval_cutoff),
                   "pil": [[p, encf(s), list(pr)] for p, (s, pr) in peptide_info_list.items()]}
        except Exception:  # noqa: BLE001 - the arguments could not be read: the call is "not observed"
            unseen.append(1)
            return ret
        seen = last_seen(handed[n0:])
        rec.update({"handed": seen, "ncalls": len(handed) - n0,
                    "cutoff": encf(getattr(self, "peptide_score_cutoff", float("nan"))), "evidence": _canon_evidence(ret)})
        calls.append(rec)
        return ret

    out = {}
    unseen = []
    st0 = np.random.get_state()
    np.random.seed(1)
    fdr_mod.calc_post_err_prob_cutoff = cutoff_spy(orig_cut, handed)
    ProteinScoringStrategy.collect_peptide_scores_per_protein = collect
    try:
        # expected refusals, by exception TYPE and by the STAGE they come out of (never by message text): out of a collect
        # call = a peptide without a known protein (Exception) / without any protein under razor (IndexError); out of the
        # rest of the run = nothing left to rank (ValueError / IndexError / Exception of the estimation stage)
        try:
            pgf.get_protein_group_results(pil, method_config=cfg, keep_all_proteins=bool(case["keepAll"]),
                                          protein_group_fdr_threshold=decf(case["thr"]), psm_fdr_cutoff=decf(case["level"]))
        except (ValueError, IndexError) as e:
            if any(e is x for x in in_collect):
                if not (isinstance(e, IndexError) and case["shared"] == "razor"):
                    raise
                out["err"] = "razor_no_proteins"
            else:
                out["err"] = "no_ranked_groups"
        except Exception as e:
            if type(e) is not Exception:
                raise
            out["err"] = "unknown_protein" if any(e is x for x in in_collect) else "no_ranked_groups"
    finally:
        fdr_mod.calc_post_err_prob_cutoff = orig_cut
        ProteinScoringStrategy.collect_peptide_scores_per_protein = orig_collect
        np.random.set_state(st0)
    out["calls"] = calls
    out["unseen_calls"] = len(unseen)
    out["flags"] = [safe_flag(cfg.score_type, "use_shared_peptides"), safe_flag(cfg.score_type, "use_razor")]
    return out


def _razor_keys(pil):
    prots = sorted({p for _, _, pr in pil for p in pr})
    return {"keys": [[p, hashlib.md5(p.encode("utf-8")).hexdigest()] for p in prots]}


def collect_request(groups, pil, razor, suppress, use_shared, level):
    return {"op": "c17_collect", "groups": groups, "pil": pil, "razor": _razor_keys(pil) if razor else None,
            "suppress": bool(suppress), "useShared": bool(use_shared), "level": level}


def evidence_peps(evidence):
    """one PEP per distinct peptide of the returned evidence that is a target and not a match-between-runs entry"""
    seen, fin, other = set(), [], []
    for ev in evidence:
        for s, peptide, prots in ev:
            if peptide in seen:
                continue
            seen.add(peptide)
            if is_decoy(prots) or s == "nan":
                continue
            (other if s in ("inf", "-inf") else fin).append(s)
    return [unrat(s) for s in fin], other


def _copies(groups, pil, evidence):
    """per peptide: the number of evidence entries it got; None where one of its proteins is in no group (the code
    addresses position -1 there, which is C05's subject, not C17's)"""
    known = {p for g in groups for p in g}
    cnt = {}
    for ev in evidence:
        for _s, peptide, _pr in ev:
            cnt[peptide] = cnt.get(peptide, 0) + 1
    return [cnt.get(p, 0) if all(q in known for q in pr) else None for p, _s, pr in pil]


def collect_views(groups, pil, call, resp, level):
    """(impl view, model view) of one collect call"""
    if "err" in call:
        iv = {"err": call["err"]}
    else:
        # `handed` / `calls`: what the wrapper of the module attribute fdr.calc_post_err_prob_cutoff saw while the call ran
        # (None / 0 = not observed, e.g. the caller imported the function by name).  The property text does not fix how
        # the callers reach the function or how often, so this is compared HERE, with what the model says (one call, this
        # list), and not in the oracle (audit 3, C17-1).
        iv = {"handed": None if call.get("handed") is None else canon_list(call["handed"]), "calls": call.get("ncalls"),
              "cutoff": call["cutoff"], "copies": _copies(groups, pil, call["evidence"])}
    if resp is None:
        return iv, iv
    if "err" in resp or "proto_err" in resp:
        return iv, resp
    fin = [unrat(e) for e in resp["peps"] if not isinstance(e, str)]
    if near_tie(fin, level):
        return iv, iv
    known = {p for g in groups for p in g}
    mv = {"handed": canon_list(resp["peps"]), "calls": 1, "cutoff": rat(unrat(resp["cutoff"])),
          "copies": [c if all(q in known for q in pr) else None for c, (_p, _s, pr) in zip(resp["copies"], pil)]}
    return iv, mv


def collect_oracle(call, level, where=""):
    """the property on what the caller makes observable: the stored strategy.peptide_score_cutoff against the property's
    cutoff of the returned evidence (the check's reading: one PEP per distinct target, non-NaN evidence peptide).  How the
    caller reaches fdr.calc_post_err_prob_cutoff, and how often, is NOT judged here (collect_views)."""
    if "err" in call:
        return None
    fin, _other = evidence_peps(call["evidence"])
    if near_tie(fin, level):
        return None
    want = prop_cutoff(fin, level)
    got = call["cutoff"]
    if isinstance(got, str) or unrat(got) != want:
        return ("%sthe stored peptide_score_cutoff is %s, but the first PEP (ascending) whose running mean exceeds %r over the %d "
                "target peptides that are evidence of a group (one PEP each: %s) is %r"
                % (where, got if isinstance(got, str) else float(unrat(got)), float(level), len(fin), [float(v) for v in sorted(fin)][:12], float(want)))
    below = [v for v in fin if v < want]
    if below and sum(below, Fraction(0)) / len(below) > level:
        return "%sthe PEPs strictly below the cutoff have a mean above the level" % where
    return None


# ------------------------------------------------------------------------------------------------
# kind "quant"
# ------------------------------------------------------------------------------------------------
FORMATS = ("fragpipe", "fragpipe", "sage", "maxquant", "diann")
FP_PROBS = ["0.9999", "0.9995", "0.9992", "0.999", "0.998", "0.995", "0.99", "0.98", "0.97", "0.95", "0.9", "0.8", "0.5", "1", "1.0000", "0.2"]
SAGE_LOGS = ["-4", "-3.5", "-3", "-2.5", "-2.3", "-2", "-1.7", "-1.5", "-1.3010299956639813", "-1", "-0.5", "-0.3", "0", "-2.0000"]
MQ_PEPS = ["0.0009765625", "0.001953125", "0.00390625", "0.0078125", "0.015625", "0.03125", "0.0625", "0.125", "0.25", "0.5", "1", "0",
           "0.01", "0.001", "1.2e-05", "0.05", "0.02", "0.003", "0.2"]
DIANN_PEPS = MQ_PEPS[:12]  # pandas parses these exactly


def row_pep(fmt, field):
    """the PEP of a row as the format defines it (same float operations as the parsers)"""
    if fmt == "fragpipe":
        return 1 - float(field) + 1e-16
    if fmt == "sage":
        import numpy as np

        return float(np.power(10, float(field)))
    if field == "":
        return float("nan")
    return float(field)


def parser_proteins(fmt, prots):
    """proteins as the row leaves the parser: MaxQuant / DIA-NN rows go through
    helpers.remove_decoy_proteins_from_target_peptides (a target row loses its decoy proteins)"""
    if fmt in ("maxquant", "diann") and not is_decoy(prots):
        return [p for p in prots if not (p.startswith("REV__") or p.startswith("rev_"))]
    return list(prots)


def gen_quant_case(rng):
    fmt = rng.choice(FORMATS)
    dp = "REV__" if fmt in ("maxquant", "diann") else "rev_"
    k = rng.randint(3, 6)
    targets = ["P%d" % i for i in range(1, k + 1)]
    groups = []
    for p in targets:
        if groups and rng.random() < 0.25:
            groups[-1].append(p)
        else:
            groups.append([p])
    tgroups = [list(g) for g in groups]
    decoys = [dp + p for p in rng.sample(targets, rng.randint(1, 2))]
    for d in decoys:
        groups.append([d])
    if rng.random() < 0.4:
        rng.shuffle(groups)
    fields = {"fragpipe": FP_PROBS, "sage": SAGE_LOGS, "maxquant": MQ_PEPS, "diann": DIANN_PEPS}[fmt]
    nfiles = rng.choice([1, 2, 2, 2, 3, 3, 4])
    # each file draws from its own part of the PEP range, so that a cutoff over some of the files differs
    files = []
    peptides = ["PEPTIDE%sK" % c for c in "ACDEFGHILMNQ"]
    for fi in range(nfiles):
        lo = rng.randint(0, len(fields) - 3)
        sub = fields[lo: lo + rng.randint(2, 6)] if rng.random() < 0.7 else fields
        rows = []
        for _ in range(rng.choice([0, 1, 2, 3, 3, 4, 5, 6])):
            r = rng.random()
            if r < 0.55:
                g = rng.choice(tgroups)
                prots = rng.sample(g, rng.randint(1, len(g)))
            elif r < 0.72 and len(tgroups) >= 2:
                prots = [rng.choice(g) for g in rng.sample(tgroups, min(len(tgroups), rng.choice([2, 2, 3])))]
            elif r < 0.84:
                prots = [rng.choice(decoys)]
            elif r < 0.92:
                prots = ["PZ%d" % rng.randint(1, 2)] + ([rng.choice(rng.choice(tgroups))] if rng.random() < 0.4 else [])
            else:
                prots = [rng.choice(rng.choice(tgroups)), rng.choice(decoys)]
            if fmt == "diann" and not (all(p.startswith(dp) for p in prots) or not any(p.startswith(dp) for p in prots)):
                prots = [p for p in prots if not p.startswith(dp)]  # a DIA-NN row is a target row or a decoy row
            field = rng.choice(sub)
            if fmt in ("maxquant", "diann") and rng.random() < 0.1:
                field = ""  # match-between-runs row
            rows.append([rng.choice(peptides), rng.choice([2, 2, 3]), field, prots, rng.choice(["r1", "r2"])])
        files.append({"name": "exp%s" % "ABCD"[fi], "rows": rows})
    discard = rng.random() < 0.75
    case = {"kind": "quant", "format": fmt, "groups": groups, "files": files, "discard": discard,
            "second": rng.random() < 0.5, "level": None}
    per_file = [quant_expected(case, [f]) for f in files]
    all_ = [v for l in per_file for v in l]
    rivals = [l for l in per_file] + [[v for l in per_file[:-1] for v in l], [v for l in per_file[1:] for v in l]]
    case["level"] = rat(pick_level(rng, all_, rivals if nfiles > 1 else [], 0.75))
    return case


def quant_rows(case, files=None):
    """per file: [peptide, encoded PEP, proteins as they leave the parser] - the model's input"""
    fmt = case["format"]
    return [[[r[0], encf(row_pep(fmt, r[2])), parser_proteins(fmt, r[3])] for r in f["rows"]] for f in (files if files is not None else case["files"])]


def quant_expected(case, files=None):
    """the finite PEPs the cutoff is defined over: every row of every file that is a target row and reaches a group
    (exactly one group when shared peptides are discarded)"""
    gidx = {}
    for i, g in enumerate(case["groups"]):
        for p in g:
            gidx[p] = i
    out = []
    for f in quant_rows(case, files):
        for _pep, s, prots in f:
            idxs = {gidx.get(p, -1) for p in prots}
            if not idxs or idxs == {-1}:
                continue
            if case["discard"] and len(idxs) > 1:
                continue
            if is_decoy(prots) or isinstance(s, str):
                continue
            out.append(unrat(s))
    return out


def _write_quant_files(case, tmp):
    """returns (evidence files, second-stage files or None/[])"""
    import csv

    fmt = case["format"]
    paths = []
    runs = []
    for f in case["files"]:
        d = os.path.join(tmp, f["name"])
        os.makedirs(d, exist_ok=True)
        if fmt == "fragpipe":
            path = os.path.join(d, "psm.tsv")
            header = ["Spectrum", "Peptide", "Modified Peptide", "Charge", "PeptideProphet Probability", "Protein", "Mapped Proteins",
                      "Assigned Modifications", "Observed Modifications"]
            rows = [["%s.%d" % (f["name"], i), pep, "", str(ch), fld, pr[0], ", ".join(pr[1:]), "", ""] for i, (pep, ch, fld, pr, _r) in enumerate(f["rows"])]
            runs.append(f["name"])
        elif fmt == "sage":
            path = os.path.join(d, "results.sage.tsv")
            header = ["peptide", "proteins", "filename", "charge", "sage_discriminant_score", "posterior_error"]
            rows = [[pep, ";".join(pr), "%s_%s.mzML" % (f["name"], r), str(ch), "1.5", fld] for pep, ch, fld, pr, r in f["rows"]]
            runs.extend("%s_%s" % (f["name"], r) for r in ("r1", "r2"))
        elif fmt == "maxquant":
            path = os.path.join(d, "evidence.txt")
            header = ["Modified sequence", "Leading proteins", "Leading razor protein", "PEP", "Experiment", "Charge", "Intensity", "Raw file", "id"]
            rows = [["_%s_" % pep, ";".join(pr), pr[0], fld, f["name"], str(ch), "1000000", "%s_%s" % (f["name"], r), str(i)]
                    for i, (pep, ch, fld, pr, r) in enumerate(f["rows"])]
        else:
            path = os.path.join(d, "report.tsv")
            header = ["Run", "Modified.Sequence", "Protein.Ids", "Decoy", "PEP", "Precursor.Charge", "Ms1.Normalised"]
            rows = []
            for pep, ch, fld, pr, r in f["rows"]:
                dec = 1 if all(p.startswith("REV__") for p in pr) else 0
                ids = [p[len("REV__"):] if dec else p for p in pr]
                rows.append(["%s_%s" % (f["name"], r), pep, ";".join(ids), str(dec), fld, str(ch), "1000000.0"])
        with open(path, "w", newline="") as fh:
            w = csv.writer(fh, delimiter="\t")
            w.writerow(header)
            w.writerows(rows)
        paths.append(path)
    second = None if fmt == "fragpipe" else []
    if case.get("second") and fmt in ("fragpipe", "sage"):
        # intensities for some precursors (adds match-between-runs records to the results, never a PEP)
        peps = sorted({(r[0], r[1], tuple(r[3])) for f in case["files"] for r in f["rows"]})[:4]
        if fmt == "fragpipe":
            path = os.path.join(tmp, "combined_ion.tsv")
            header = ["Peptide Sequence", "Modified Sequence", "Charge", "Protein", "Mapped Proteins", "Assigned Modifications"] + ["%s Intensity" % r for r in runs]
            rows = [[pep, "", str(ch), pr[0], ", ".join(pr[1:]), ""] + [str(1000.0 * (i + j + 1)) if (i + j) % 3 else "0.0" for j in range(len(runs))]
                    for i, (pep, ch, pr) in enumerate(peps)]
        else:
            path = os.path.join(tmp, "lfq.tsv")
            header = ["peptide", "charge", "proteins", "q_value", "score", "spectral_angle"] + ["%s.mzML" % r for r in runs]
            rows = [[pep, str(ch), ";".join(pr), "0.001", "1.0", "0.9"] + [str(1000.0 * (i + j + 1)) if (i + j) % 3 else "0.0" for j in range(len(runs))]
                    for i, (pep, ch, pr) in enumerate(peps)]
        with open(path, "w", newline="") as fh:
            w = csv.writer(fh, delimiter="\t")
            w.writerow(header)
            w.writerows(rows)
        second = [path]
    return paths, second


SCORE_TYPES = {"fragpipe": "FragPipe no_remap bestPEP", "sage": "Sage bestPEP", "maxquant": "no_remap bestPEP", "diann": "DIA-NN bestPEP"}


def _quant_once(case, paths, second, level):
    from picked_group_fdr import fdr as fdr_mod
    from picked_group_fdr import writers
    from picked_group_fdr.protein_groups import ProteinGroups
    from picked_group_fdr.results import ProteinGroupResult, ProteinGroupResults
    from picked_group_fdr.scoring_strategy import ProteinScoringStrategy
    from picked_group_fdr.writers import base as wbase

    results = ProteinGroupResults([ProteinGroupResult(proteinIds=";".join(g), majorityProteinIds=";".join(g), numberOfProteins=len(g))
                                   for g in case["groups"]])
    protein_groups = ProteinGroups.from_protein_group_results(results)
    score_type = ProteinScoringStrategy(SCORE_TYPES[case["format"]])
    entry = score_type.get_quantification_parser()
    # the call of quantification.do_quantification
    results, post_err_probs = entry(paths, second, protein_groups, results, [None], None, bool(case["discard"]),
                                    score_type=score_type, suppress_missing_peptide_warning=True)
    returned = [encf(x[0]) for x in post_err_probs]
    seen, handed = [], []

    class SpyColumn:
        def append(self, *a, **k):  # the columns' interface: append(protein_group_results, post_err_prob_cutoff)
            seen.append(k["post_err_prob_cutoff"] if "post_err_prob_cutoff" in k else a[-1])

    class SpyWriter(writers.ProteinGroupsWriter):
        def get_columns(self):
            return [SpyColumn()]

    orig_retain = getattr(wbase, "_retain_only_identified_precursors", None)  # private helper: observed if it exists
    orig_cut = fdr_mod.calc_post_err_prob_cutoff

    def spy_retain(*a, **k):
        vals = bound_values(orig_retain, a, k, 2)
        try:
            float(vals[1])
            seen.append(vals[1])
        except Exception:  # noqa: BLE001 - not a number / not readable: not observed here (the column still sees it)
            pass
        return orig_retain(*a, **k)

    if orig_retain is not None:
        wbase._retain_only_identified_precursors = spy_retain
    fdr_mod.calc_post_err_prob_cutoff = cutoff_spy(orig_cut, handed)
    try:
        SpyWriter().append_quant_columns(results, post_err_probs, level)
    finally:
        if orig_retain is not None:
            wbase._retain_only_identified_precursors = orig_retain
        fdr_mod.calc_post_err_prob_cutoff = orig_cut
    vals = []
    for v in seen:
        r = encf(float(v))
        if r not in vals:
            vals.append(r)
    return {"returned": returned, "handed": last_seen(handed), "ncalls": len(handed), "seen": vals,
            # a double, or an exact integer (pandas reads a DIA-NN PEP column holding only 0 / 1 as int64)
            "double": all(isinstance(v, (float, int)) or type(v).__name__.startswith("int") for v in seen)}


def run_quant(case):
    tmp = tempfile.mkdtemp(prefix="c17q_")
    try:
        paths, second = _write_quant_files(case, tmp)
        level = decf(case["level"])
        fwd = _quant_once(case, paths, second, level)
        out = dict(fwd)
        if len(paths) > 1:
            out["reversed"] = _quant_once(case, paths[::-1], second, level)
        return out
    finally:
        shutil.rmtree(tmp, ignore_errors=True)


def quant_request(case):
    return {"op": "c17_quant", "groups": case["groups"], "useShared": not case["discard"], "files": quant_rows(case), "level": case["level"]}


def quant_impl_view(case, impl_out):
    def v(o):
        return {"returned": canon_list(o["returned"]), "handed": None if o["handed"] is None else canon_list(o["handed"]),
                "seen": o["seen"], "double": o["double"]}

    out = v(impl_out)
    if "reversed" in impl_out:
        out["reversed"] = v(impl_out["reversed"])
    return out


def quant_model_view(case, resp, impl_out):
    if "proto_err" in resp or "err" in resp:
        return resp
    fin = [unrat(e) for e in resp["writer_peps"] if not isinstance(e, str)]
    if near_tie(fin, unrat(case["level"])):
        return quant_impl_view(case, impl_out)
    c = rat(unrat(resp["cutoff"]))
    one = {"returned": canon_list(resp["peps"]), "handed": canon_list(resp["writer_peps"]), "seen": [c], "double": True}
    out = dict(one)
    if len(case["files"]) > 1:
        out["reversed"] = dict(one)  # PgFdr.C17.quant_cutoff_file_order
    return out


def quant_oracle(case, impl_out):
    fin = quant_expected(case)
    level = unrat(case["level"])
    if near_tie(fin, level):
        return None
    want = prop_cutoff(fin, level)
    names = [f["name"] for f in case["files"]]
    for label, o in (("", impl_out), ("files in reversed order: ", impl_out.get("reversed"))):
        if o is None:
            continue
        if not o["seen"]:
            return "%s%s: the writer handed no cutoff to its columns" % (label, case["format"])
        for r in o["seen"]:
            got = None if isinstance(r, str) else unrat(r)
            if got != want:
                return ("%s%s input files %s: the writer used the PEP cutoff %s, but the first PEP (ascending) whose running mean exceeds %r "
                        "over the target PEPs of ALL files %s is %r"
                        % (label, case["format"], names, r if got is None else float(got), float(level), [float(x) for x in sorted(fin)][:14], float(want)))
            below = [x for x in fin if x < got]
            if below and sum(below, Fraction(0)) / len(below) > level:
                return "%sthe PEPs strictly below the cutoff %r have a mean above the level" % (label, float(got))
    return None
