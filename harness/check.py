"""Entry point: ./check Cxx [--tier quick|thorough] [--replay path]"""
import argparse
import os
import sys
from pathlib import Path

sys.path.insert(0, str(Path(__file__).resolve().parent))
import lib  # noqa: E402


def main():
    ap = argparse.ArgumentParser()
    ap.add_argument("prop")
    ap.add_argument("--tier", default=os.environ.get("VERIF_TIER", "quick"), choices=["quick", "thorough"])
    ap.add_argument("--replay", default=None)
    ap.add_argument("--seed", type=int, default=int(os.environ.get("VERIF_SEED", "0") or 0))
    a = ap.parse_args()
    try:
        rc = lib.run_check(a.prop, a.tier, a.seed, a.replay)
    except Exception as e:  # harness error: never a VIOLATION line
        import traceback

        traceback.print_exc()
        print(f"harness error: {type(e).__name__}: {e}", file=sys.stderr)
        rc = 2
    sys.exit(rc)


if __name__ == "__main__":
    main()
