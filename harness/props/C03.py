"""C03 — subset grouping partitions observed proteins into maximal peptide-set groups; pseudo-gene
grouping = connected components of the shares-a-peptide relation; no grouping = singletons.

Correspondence: `grouping.SubsetGrouping / NoGrouping / PseudoGeneGrouping().group_proteins(pil, None)`
and `ObservedPeptides.create(pil); generate_protein_groups()` (real code) vs
`PgFdr.C03.subsetGrouping / noGrouping / pseudoGeneGrouping` (lean/PgFdr/Model/C03.lean): the nested
lists `.protein_groups` are compared EXACTLY (group order and member order).  The validity flag and the
index of the returned object are checked against a recomputation, and the whole object returned by
`generate_protein_groups` (groups, flag, index) is compared with `subsetGroupingPG`, the same loop run
on the `ProteinGroups` state machine of Model/C20.lean (stale index, `merge_groups`, `remove_empty_groups`).

A case is a peptide list in dict order: `[[peptide, [num,den], [protein, …]], …]` (unique peptides; a
protein may be listed several times inside one list, as in gene-level mode).
"""
import itertools
import random
from fractions import Fraction

import lib
from lib import Prop, rat

BASES = list("ABCDEFGHIJKLMN")
PREFIXES = ["", "", "", "REV__", "rev_", "CON__", "OBSOLETE__", "OBSOLETE__REV__"]
PEP = rat(Fraction(1, 128))


def _pil_dict(case):
    return {e[0]: (lib.rat_to_float(e[1]), list(e[2])) for e in case["pil"]}


def _pepsets(case):
    ps = {}
    for e in case["pil"]:
        for p in e[2]:
            ps.setdefault(p, set()).add(e[0])
    return ps


def _mk_case(rows):
    return {"pil": [["PEP%d" % i, PEP, list(r)] for i, r in enumerate(rows)]}


def check_groups(case, mode, groups, what=None):
    """the C03 statement of one grouping mode ("subset" | "no" | "pseudo_gene") on the peptide list case["pil"], for the
    nested list `groups` some grouping call returned; None, or what is wrong.  Used by P.oracle on the direct calls and by
    harness/pipeline_oracles.py:oracle_c03 on the groups the whole inference function handed to its first competition."""
    ps = _pepsets(case)
    observed = set(ps)

    def partition(groups, what):
        flat = [p for g in groups for p in g]
        if any(len(g) == 0 for g in groups):
            return what + ": empty group"
        if len(flat) != len(set(flat)):
            return what + ": a protein occurs twice: %r" % (groups,)
        if set(flat) != observed:
            return what + ": groups cover %r, observed proteins are %r" % (sorted(flat), sorted(observed))
        return None

    if mode == "subset":
        key = what or "subset"
        r = partition(groups, key)
        if r:
            return r
        for g in groups:
            lead = g[0]
            for x in g:
                if not ps[x] <= ps[lead]:
                    return "%s: member %s has a peptide the leading protein %s lacks (group %r)" % (key, x, lead, g)
            for q in observed - set(g):
                if ps[lead] <= ps[q]:
                    return "%s: leading protein %s (group %r) has its peptide set contained in that of %s outside the group" % (key, lead, g, q)
        maximal = {frozenset(ps[p]) for p in observed if not any(ps[p] < ps[q] for q in observed)}
        if len(groups) != len(maximal):
            return "%s: %d groups but %d distinct inclusion-maximal peptide sets" % (key, len(groups), len(maximal))
        return None
    if mode == "no":
        r = partition(groups, "no grouping")
        if r:
            return r
        if any(len(g) != 1 for g in groups):
            return "no grouping: a group is not a singleton: %r" % (groups,)
        return None
    if mode != "pseudo_gene":
        raise ValueError("unknown grouping mode %r" % (mode,))
    r = partition(groups, "pseudo_gene")
    if r:
        return r
    parent = {p: p for p in observed}

    def find(a):
        while parent[a] != a:
            parent[a] = parent[parent[a]]
            a = parent[a]
        return a

    for e in case["pil"]:
        for p in e[2][1:]:
            parent[find(p)] = find(e[2][0])
    comps = {}
    for p in observed:
        comps.setdefault(find(p), set()).add(p)
    want = sorted(sorted(c) for c in comps.values())
    got = sorted(sorted(g) for g in groups)
    if want != got:
        return "pseudo_gene: groups %r are not the connected components %r of the shares-a-peptide relation" % (got, want)
    return None


class P(Prop):
    id = "C03"
    quick_cases = 600
    thorough_cases = 20000
    chunk = 200
    rule = (
        "peptide->proteins incidence structures built from templates (i.i.d. bits, nested chains, copies of a column = "
        "equal peptide sets, chains/cycles of pairwise shared peptides, unique peptides added), proteins listed in random "
        "order, a protein repeated inside a list with probability 0.15 per case, identifiers with the marker prefixes; "
        "quick <= 8 proteins x 10 peptides, thorough <= 14 x 20 plus every incidence matrix with <= 4 proteins x <= 4 "
        "peptides and every listing order for the small ones; non-trivial = at least one subset merge or one pseudo-gene "
        "merge happened; distinct by sha1 of the peptide list"
    )
    assumptions = [
        "protein identifiers contain no ';' and none starts with 'peptide:' (node names of graphs.PeptideProteinGraph)",
        "Python's sorted(..., reverse=True) is stable; str order is code-point order",
    ]

    # ---------------------------------------------------------------- generation
    def gen_case(self, rng, tier):
        big = tier == "thorough" and rng.random() < 0.5
        n = rng.randint(1, 14 if big else 8)
        m = rng.randint(1, 20 if big else 10)
        if rng.random() < 0.05:
            m = 0
        bases = rng.sample(BASES, n)
        style = rng.random()
        if style < 0.5:
            names = bases
        elif style < 0.8:
            names = [rng.choice(PREFIXES) + b for b in bases]
        else:  # target / decoy pairs
            names = []
            for b in bases:
                names.append(b if len(names) % 2 == 0 else "REV__" + names[-1])
        names = list(dict.fromkeys(names))
        n = len(names)
        template = rng.choice(["iid", "iid", "chain", "equal", "pairs", "mixed", "mixed"])
        cols = [set() for _ in range(n)]  # peptide indices per protein

        def add_iid(dens):
            for j in range(m):
                for i in range(n):
                    if rng.random() < dens:
                        cols[i].add(j)

        if template == "iid":
            add_iid(rng.choice([0.15, 0.3, 0.5, 0.8]))
        if template in ("chain", "mixed"):
            # nested chains: protein i gets the first k_i peptides of a random peptide order
            order = list(range(m))
            rng.shuffle(order)
            for i in range(n):
                if template == "chain" or rng.random() < 0.5:
                    k = rng.randint(0, m)
                    cols[i] |= set(order[:k])
        if template in ("pairs", "mixed"):
            # chain / cycle of pairwise shared peptides
            for j in range(m):
                if rng.random() < 0.7 and n >= 2:
                    i = rng.randrange(n)
                    cols[i].add(j)
                    cols[(i + 1) % n].add(j)
                elif n:
                    cols[rng.randrange(n)].add(j)
        if template == "mixed":
            add_iid(0.1)
        if template == "equal" or (template == "mixed" and rng.random() < 0.6):
            add_iid(0.3) if template == "equal" else None
            for _ in range(rng.randint(1, max(1, n // 2))):
                a, b = rng.randrange(n), rng.randrange(n)
                cols[a] = set(cols[b])
        dup = rng.random() < 0.15
        rows = []
        for j in range(m):
            r = [names[i] for i in range(n) if j in cols[i]]
            o = rng.random()
            if o < 0.6:
                rng.shuffle(r)
            elif o < 0.8:
                r.sort()
            if dup and r and rng.random() < 0.5:
                for _ in range(rng.randint(1, 2)):
                    r.insert(rng.randint(0, len(r)), rng.choice(r))
            if not r and rng.random() < 0.8:
                continue  # an entry with an empty protein list is rare but legal
            rows.append(r)
        rng.shuffle(rows)
        return _mk_case(rows)

    def exhaustive_cases(self, tier):
        out = []
        names = ["B", "A", "REV__A", "C"]  # dict order differs from sorted order
        # every incidence matrix with n <= 4 proteins and m <= 4 peptides, non-empty rows, sorted-by-column lists
        for n in range(1, 5):
            subsets = [[names[i] for i in range(n) if (mask >> i) & 1] for mask in range(1, 2**n)]
            for m in range(0, 5):
                for rows in itertools.product(subsets, repeat=m):
                    out.append(_mk_case(rows))
        # every listing order of every protein list, every order of the peptide list: n <= 4 proteins, m <= 3 peptides
        for n, mmax in ((2, 3), (3, 3), (4, 3)):
            ordered = []
            for mask in range(1, 2**n):
                sub = [names[i] for i in range(n) if (mask >> i) & 1]
                ordered.extend(list(p) for p in itertools.permutations(sub))
            for m in range(1, mmax + 1):
                for rows in itertools.product(ordered, repeat=m):
                    out.append(_mk_case(rows))
        # a protein listed twice (gene-level mode): n <= 2 proteins, lists of length <= 3 with repetition, m <= 3
        lists = [list(t) for k in (1, 2, 3) for t in itertools.product(names[:2], repeat=k)]
        for m in range(1, 4):
            for rows in itertools.product(lists, repeat=m):
                out.append(_mk_case(rows))
        return out

    # ---------------------------------------------------------------- implementation
    def run_impl(self, case):
        from picked_group_fdr import grouping
        from picked_group_fdr.observed_peptides import ObservedPeptides

        out, flags = {}, []
        for mode, cls in (("no", grouping.NoGrouping), ("subset", grouping.SubsetGrouping), ("pseudo_gene", grouping.PseudoGeneGrouping)):
            pg = cls().group_proteins(_pil_dict(case), None)
            out[mode] = [list(g) for g in pg.protein_groups]
            want = {p: i for i, g in enumerate(pg.protein_groups) for p in g}
            flags.append(bool(pg.valid_idx) and pg.protein_to_group_idx_map == want)
        op = ObservedPeptides()
        op.create(_pil_dict(case))
        pg = op.generate_protein_groups()
        out["generate"] = [list(g) for g in pg.protein_groups]
        want = {p: i for i, g in enumerate(pg.protein_groups) for p in g}
        flags.append(bool(pg.valid_idx) and pg.protein_to_group_idx_map == want)
        # the whole returned object, compared with the run of the loop on the C20 state machine
        out["generate_pg"] = {"groups": [list(g) for g in pg.protein_groups], "valid": bool(pg.valid_idx),
                              "index": sorted([k, v] for k, v in pg.protein_to_group_idx_map.items())}
        out["index_ok"] = all(flags)
        return out

    # ---------------------------------------------------------------- model
    def model_request(self, case, impl_out):
        return [{"op": "group", "mode": m, "pil": case["pil"]} for m in ("no", "subset", "pseudo_gene", "subset_pg")]

    def model_view(self, case, resp, impl_out):
        if not all(isinstance(r, dict) and "groups" in r for r in resp):
            return resp
        return {"no": resp[0]["groups"], "subset": resp[1]["groups"], "pseudo_gene": resp[2]["groups"],
                "generate": resp[1]["groups"], "index_ok": True,
                "generate_pg": {"groups": resp[3]["groups"], "valid": resp[3]["valid"], "index": sorted(resp[3]["index"])}}

    # ---------------------------------------------------------------- the property, with Python sets
    def oracle(self, case, impl_out):
        if not isinstance(impl_out, dict) or "subset" not in impl_out:
            return "no groups returned: %r" % (impl_out,)
        if not impl_out.get("index_ok"):
            return "a returned ProteinGroups object has an invalid or wrong index"
        for key, mode in (("subset", "subset"), ("generate", "subset"), ("no", "no"), ("pseudo_gene", "pseudo_gene")):
            r = check_groups(case, mode, impl_out[key], key if mode == "subset" else None)
            if r:
                return r
        return None

    # ---------------------------------------------------------------- bookkeeping
    def nontrivial(self, case, impl_out):
        if not isinstance(impl_out, dict) or "subset" not in impl_out:
            return False
        return len(impl_out["subset"]) < len(impl_out["no"]) or len(impl_out["pseudo_gene"]) < len(impl_out["subset"])

    def features(self, case, impl_out):
        ps = _pepsets(case)
        n, m = len(ps), len(case["pil"])
        f = ["proteins=%s" % (n if n < 5 else "5-8" if n <= 8 else "9+"), "peptides=%s" % (m if m < 5 else "5-10" if m <= 10 else "11+")]
        if any(len(e[2]) != len(set(e[2])) for e in case["pil"]):
            f.append("protein-listed-twice")
        sets = [frozenset(v) for v in ps.values()]
        if len(set(sets)) < len(sets):
            f.append("equal-peptide-sets")
        if any(a < b for a in sets for b in sets):
            f.append("strict-subset")
        if isinstance(impl_out, dict) and "subset" in impl_out:
            if len(impl_out["subset"]) < len(impl_out["no"]):
                f.append("subset-merge")
            if any(len(g) >= 3 for g in impl_out["subset"]):
                f.append("subset-group>=3")
            if len(impl_out["pseudo_gene"]) < len(impl_out["subset"]):
                f.append("pseudo-gene-merge")
            if len(impl_out["subset"]) > 1 and len(impl_out["pseudo_gene"]) > 1:
                f.append("several-components")
        return f

    def shrink(self, case):
        pil = case["pil"]
        for i in range(len(pil)):
            yield {"pil": pil[:i] + pil[i + 1 :]}
        prots = sorted({p for e in pil for p in e[2]})
        for p in prots:
            new = [[e[0], e[1], [q for q in e[2] if q != p]] for e in pil]
            yield {"pil": new}
        for i, e in enumerate(pil):
            for t in range(len(e[2])):
                yield {"pil": pil[:i] + [[e[0], e[1], e[2][:t] + e[2][t + 1 :]]] + pil[i + 1 :]}


# ---- the file argument: `group_proteins(peptide_info_list, mq_protein_groups_file)` for every class the factory builds ----
# A case with the key "mq" (None | "unreadable" | {"header", "rows"}; "mq_falsy": None | "" when None) additionally calls
#   ProteinGroupingStrategyFactory(name).group_proteins(pil, <file argument>)      for the six names, and
#   methods.parse_method_toml(case["method"], case["pseudo"]).grouping_strategy.group_proteins(pil, <file argument>)
# and compares the returned objects (groups, index, flag) with `PgFdr.C03.groupProteinsObj` (Model/C03Kinds.lean, driver op
# "group_kind").  Oracle: for `no` / `subset` / `rescued_subset` (first pass) / `pseudo_gene` — and for the method's declared
# grouping, `pseudo_gene` when pseudo-genes are requested — the C03 statement on the peptide list, whatever file was passed.
# The MaxQuant-native kinds are compared with the model only (the property states nothing about a grouping read from a file).
KINDS = ["no", "subset", "rescued_subset", "mq_native", "rescued_mq_native", "pseudo_gene"]
STATED = {"no": "no", "subset": "subset", "rescued_subset": "subset", "pseudo_gene": "pseudo_gene"}
BLANKS = [" ", " ", "  ", "\xa0", " "]
_FILE_MODES = ["valid_subset", "valid_subset", "singletons", "one_group", "partition", "partition", "partial", "foreign",
               "overlap", "empty"]


def own_subset_grouping(rows):
    """a grouping that satisfies the C03 subset statement, made with Python sets (not the code's algorithm): one leader
    per distinct inclusion-maximal peptide set, every other protein joins the first leader containing its set"""
    ps = _pepsets({"pil": [["PEP%d" % i, PEP, r] for i, r in enumerate(rows)]})
    prots = sorted(ps)
    leaders = []
    for p in prots:
        if not any(ps[p] < ps[q] for q in prots) and not any(ps[p] == ps[l] for l in leaders):
            leaders.append(p)
    groups = {l: [l] for l in leaders}
    for p in prots:
        if p not in groups:
            groups[next(l for l in leaders if ps[p] <= ps[l])].append(p)
    return [groups[l] for l in leaders]


def gen_mq_table(rng, rows):
    """a small proteinGroups.txt for the peptide list `rows` (lists of proteins): groups equal to a valid subset grouping, or
    different from it (singletons, everything merged, a random partition, proteins missing / unknown proteins added, a
    protein in two rows, no rows), sometimes with a missing column or a short row; returns (table | "unreadable", mode)"""
    if rng.random() < 0.06:
        return "unreadable", "unreadable"
    prots = sorted({p for r in rows for p in r}) or ["A"]
    mode = rng.choice(_FILE_MODES)
    if mode == "valid_subset":
        groups = own_subset_grouping(rows) or [[prots[0]]]
    elif mode == "singletons":
        groups = [[p] for p in prots]
    elif mode == "one_group":
        groups = [list(prots)]
    elif mode == "empty":
        groups = []
    else:
        sh = list(prots)
        rng.shuffle(sh)
        if mode == "partial" and len(sh) > 1:
            sh = sh[: rng.randint(1, len(sh) - 1)]
        if mode == "foreign":
            sh += ["Z%d" % i for i in range(rng.randint(1, 2))]
            rng.shuffle(sh)
        groups = []
        for p in sh:
            if groups and rng.random() < 0.5:
                rng.choice(groups).append(p)
            else:
                groups.append([p])
        if mode == "overlap" and groups:
            rng.choice(groups).append(rng.choice(prots))
    if groups and rng.random() < 0.3:
        rng.shuffle(groups)
    extra = rng.sample(["Majority protein IDs", "Peptide counts (all)", "protein ids", "Q-value"], rng.randint(0, 2))
    header = ["Protein IDs", "Score"] + extra
    rng.shuffle(header)
    err = rng.random()
    if err < 0.04:
        header = [h for h in header if h != "Score"] or ["x"]
        mode += "+no-score-column"
    elif err < 0.08:
        header = [h for h in header if h != "Protein IDs"] or ["x"]
        mode += "+no-protein-column"

    def cell(g):
        names = [(rng.choice(BLANKS) if rng.random() < 0.1 else "") + p + (rng.choice(BLANKS) if rng.random() < 0.1 else "") for p in g]
        return ";".join(names)

    table_rows = []
    for g in groups:
        r = []
        for h in header:
            if h in ("Protein IDs", "protein ids"):
                r.append(cell(g))
            elif h == "Majority protein IDs":
                r.append(g[0])
            elif h == "Score":
                r.append(rng.choice(["25.3", "11.25", "0", "-3", "", "323.31"]))
            else:
                r.append(rng.choice(["1", "0.01", "2;1"]))
        table_rows.append(r)
    if table_rows and 0.08 <= err < 0.11:
        k = rng.randrange(len(table_rows))
        table_rows[k] = table_rows[k][: rng.randint(1, len(header) - 1)] if len(header) > 1 else table_rows[k]
        mode += "+short-row"
    return {"header": header, "rows": table_rows}, mode


def _obj(pg):
    return {"groups": [list(g) for g in pg.protein_groups], "valid": bool(pg.valid_idx),
            "index": sorted([k, v] for k, v in pg.protein_to_group_idx_map.items())}


def _describe_file(case):
    mq = case.get("mq")
    if mq is None:
        return "no file (%r)" % (case.get("mq_falsy"),)
    if mq == "unreadable":
        return "a path at which there is no file"
    return "a proteinGroups.txt with columns %r and rows %r" % (mq["header"], mq["rows"])


_BaseP0 = P


class P(_BaseP0):
    file_share = 0.5
    rule = _BaseP0.rule + (
        "; half of the cases also carry the second argument of group_proteins — none (None / ''), a path without a file, or a "
        "generated proteinGroups.txt whose groups equal a valid subset grouping of the peptide list or differ from it "
        "(singletons, all merged, random partition, proteins missing, unknown proteins, a protein in two rows, no rows; 8 % "
        "without the Score / Protein IDs column, 3 % with a short row) — and call the six classes of the grouping factory and "
        "the grouping strategy of a shipped method file (30 % with pseudo-genes requested) with it"
    )
    assumptions = _BaseP0.assumptions + [
        "cells of the generated proteinGroups.txt contain no tab, quote or line break (the csv layer is trusted) and Score cells "
        "are decimal literals or empty (float() of the cell is not modelled)",
    ]

    def gen_case(self, rng, tier):
        case = super().gen_case(rng, tier)
        if rng.random() < self.file_share:
            self._add_file(rng, case)
        return case

    @staticmethod
    def _add_file(rng, case, p_none=0.2):
        import pipeline as pl

        if rng.random() < p_none:
            case["mq"], case["mq_falsy"], case["mq_mode"] = None, rng.choice([None, ""]), "none"
        else:
            case["mq"], case["mq_mode"] = gen_mq_table(rng, [e[2] for e in case["pil"]])
        if "method" not in case:
            case["method"] = rng.choice(pl.method_names())
            case["pseudo"] = rng.random() < 0.3
        return case

    def exhaustive_cases(self, tier):
        out = list(super().exhaustive_cases(tier))
        # every incidence matrix with <= 3 proteins x <= 3 peptides with: no file, the singletons, everything in one group,
        # a valid subset grouping, a path without a file
        names = ["B", "A", "C"]
        for n in range(1, 4):
            subsets = [[names[i] for i in range(n) if (mask >> i) & 1] for mask in range(1, 2**n)]
            for m in range(1, 4):
                for rows in itertools.product(subsets, repeat=m):
                    prots = sorted({p for r in rows for p in r})
                    variants = [None, "unreadable", [[p] for p in prots], [prots], own_subset_grouping(rows), [[p] for p in prots[:-1]]]
                    for k, v in enumerate(variants):
                        c = _mk_case(rows)
                        if isinstance(v, list):
                            c["mq"] = {"header": ["Protein IDs", "Score"], "rows": [[";".join(g), "1.5"] for g in v]}
                        else:
                            c["mq"] = v
                            if v is None:
                                c["mq_falsy"] = ""
                        c["mq_mode"] = "exhaustive"
                        c["method"] = ["classic_subset_grouping", "picked_protein_group", "savitski"][k % 3]
                        c["pseudo"] = k >= 3
                        out.append(c)
        return out

    # ---------------------------------------------------------------- implementation
    def run_impl(self, case):
        out = super().run_impl(case)
        if "mq" not in case:
            return out
        import shutil
        import tempfile

        import pipeline_oracles as po
        from picked_group_fdr import grouping, methods

        d = tempfile.mkdtemp(prefix="c03mq")
        try:
            arg = po.mq_file_argument(case, d)

            def call(strategy):
                """never raises: an exception is recorded as an error enum chosen by its TYPE and by the condition of
                the file argument it belongs to — never by the message text (audit-3 C03-6/X2).  For the four kinds
                C03 states, the oracle reports any such record as "returned no groups"; for the MaxQuant-native kinds
                (not in the property text) the record is only compared with the model."""
                try:
                    return _obj(strategy.group_proteins(_pil_dict(case), arg))
                except ValueError:
                    mq = case["mq"]
                    if mq is None:
                        return {"err": "missing_mq_protein_groups"}
                    if isinstance(mq, dict) and not {"Protein IDs", "Score"} <= set(mq.get("header", [])):
                        return {"err": "missing_column"}
                    return {"err": "value_error"}
                except FileNotFoundError:
                    return {"err": "file_not_found"}
                except IndexError:
                    return {"err": "short_row"}
                except Exception as e:
                    return {"err": "raised_" + type(e).__name__}

            out["kinds"] = {name: call(grouping.ProteinGroupingStrategyFactory(name)) for name in KINDS}
            out["method_leg"] = call(methods.parse_method_toml(case["method"], use_pseudo_genes=bool(case["pseudo"])).grouping_strategy)
        finally:
            shutil.rmtree(d, ignore_errors=True)
        return out

    # ---------------------------------------------------------------- model
    def model_request(self, case, impl_out):
        reqs = super().model_request(case, impl_out)
        if "mq" not in case:
            return reqs
        import pipeline as pl

        reqs = list(reqs)
        for name in KINDS:
            reqs.append({"op": "group_kind", "kind": name, "pil": case["pil"], "mq": case["mq"]})
        reqs.append({"op": "group_kind", "toml_grouping": pl.method_fields(case["method"])["grouping"], "pseudo": bool(case["pseudo"]),
                     "pil": case["pil"], "mq": case["mq"]})
        return reqs

    def model_view(self, case, resp, impl_out):
        if "mq" not in case:
            return super().model_view(case, resp, impl_out)
        base = super().model_view(case, resp[:4], impl_out)
        if not isinstance(base, dict) or "subset" not in base:
            return resp

        def view(r):
            if isinstance(r, dict) and "groups" in r:
                return {"groups": r["groups"], "valid": r["valid"], "index": sorted(r["index"])}
            return r

        base["kinds"] = {name: view(r) for name, r in zip(KINDS, resp[4:10])}
        base["method_leg"] = view(resp[10])
        return base

    # ---------------------------------------------------------------- the property, whatever file was passed
    def oracle(self, case, impl_out):
        r = super().oracle(case, impl_out)
        if r or "mq" not in case:
            return r
        import pipeline as pl

        def stated(res, mode, who):
            if "err" in res:
                return "%s, called with %s, returned no groups: %s" % (who, _describe_file(case), res["err"])
            want = {p: i for i, g in enumerate(res["groups"]) for p in g}
            if not res["valid"] or dict(map(tuple, res["index"])) != want:
                return "%s, called with %s, returned a ProteinGroups object with an invalid or wrong index" % (who, _describe_file(case))
            why = check_groups(case, mode, res["groups"])
            if why:
                return "%s, called with %s: %s (groups returned: %r)" % (who, _describe_file(case), why, res["groups"])
            return None

        for name, mode in STATED.items():
            why = stated(impl_out["kinds"][name], mode, "grouping %r (ProteinGroupingStrategyFactory)" % name)
            if why:
                return why
        declared = pl.method_fields(case["method"]).get("grouping")
        mode = "pseudo_gene" if case["pseudo"] else STATED.get(declared)
        if mode is not None:
            return stated(impl_out["method_leg"], mode, "the grouping strategy of method %s (grouping %r%s)" % (
                case["method"], declared, ", pseudo-genes requested" if case["pseudo"] else ""))
        return None

    # ---------------------------------------------------------------- bookkeeping
    def features(self, case, impl_out):
        f = super().features(case, impl_out)
        if "mq" in case:
            mq = case["mq"]
            f.append("file-argument=" + ("none:%r" % (case.get("mq_falsy"),) if mq is None else mq if mq == "unreadable" else "table"))
            f.append("file-groups=" + str(case.get("mq_mode")))
            if isinstance(impl_out, dict) and "kinds" in impl_out:
                k = impl_out["kinds"]
                f.append("file:mq_native=" + (k["mq_native"].get("err") or "groups"))
                if "groups" in k["mq_native"] and "groups" in k["subset"]:
                    same = sorted(map(sorted, k["mq_native"]["groups"])) == sorted(map(sorted, k["subset"]["groups"]))
                    f.append("file:groups-%s-the-subset-grouping" % ("equal" if same else "differ-from"))
                import pipeline as pl

                f.append("file:method-grouping=" + ("pseudo_gene(override of %s)" if case["pseudo"] else "%s") % pl.method_fields(case["method"]).get("grouping"))
        return f

    def shrink(self, case):
        if "mq" not in case:
            yield from super().shrink(case)
            return
        for s in super().shrink(case):
            yield dict(case, pil=s["pil"])
        mq = case["mq"]
        if isinstance(mq, dict):
            for i in range(len(mq["rows"])):
                yield dict(case, mq=dict(mq, rows=mq["rows"][:i] + mq["rows"][i + 1 :]))
            for i, r in enumerate(mq["rows"]):
                for j, c in enumerate(r):
                    parts = c.split(";")
                    if len(parts) > 1:
                        for t in range(len(parts)):
                            yield dict(case, mq=dict(mq, rows=mq["rows"][:i] + [r[:j] + [";".join(parts[:t] + parts[t + 1 :])] + r[j + 1 :]] + mq["rows"][i + 1 :]))


# ---- pipeline-level cases: the whole `get_protein_group_results` for every shipped method file against the composed Lean
# model PgFdr.Pipeline.run, with the C03 statement as the oracle: the groups handed to the FIRST competition must be the
# grouping the request asked for (the method file's; pseudo_gene when pseudo-genes are requested) of the case's peptide
# list (harness/pipeline_oracles.py:oracle_c03 -> check_groups).  Half of these cases are preceded, in the same process, by a
# request of the same method with the OTHER pseudo-gene switch (recorded in the case as "prior_request"): what one request
# returns must not depend on what was requested before
import pipeline_oracles as _po  # noqa: E402

_BaseP = P


class P(_po.PipelineMixin2, _BaseP):
    pipeline_share = 0.06      # ~36 of the 600 quick cases
    pipeline_prior_request_share = 0.5
    pipeline_pseudo_share = 0.3
    pipeline_file_share = 0.6  # share of the pipeline cases that pass a proteinGroups.txt as mq_protein_groups_file
    pipeline_oracles = ("c03",)

    def gen_case(self, rng, tier):
        case = super().gen_case(rng, tier)
        if isinstance(case, dict) and case.get("kind") == "pipeline" and rng.random() < self.pipeline_file_share:
            # groups that cover the observed proteins, so that the run reaches its competitions whatever grouping is used
            for _ in range(20):
                mq, mode = gen_mq_table(rng, [e[2] for e in case["pil"]])
                if mode in ("valid_subset", "singletons", "one_group", "partition", "overlap", "unreadable"):
                    break
            case["mq"], case["mq_mode"] = mq, mode
        return case

    def run_impl(self, case):
        if isinstance(case, dict) and case.get("kind") == "pipeline" and "mq" in case:
            return _po.run_impl_mq(case)
        return super().run_impl(case)

    def oracle(self, case, impl_out):
        o = super().oracle(case, impl_out)
        if o and isinstance(case, dict) and case.get("kind") == "pipeline" and "mq" in case:
            o += " [get_protein_group_results was called with mq_protein_groups_file = %s]" % _describe_file(case)
        return o

    def features(self, case, impl_out):
        f = super().features(case, impl_out)
        if isinstance(case, dict) and case.get("kind") == "pipeline":
            f.append("pipeline:file-argument=" + (str(case.get("mq_mode")) if "mq" in case else "not passed"))
        return f

    def shrink(self, case):
        yield from super().shrink(case)
        if isinstance(case, dict) and case.get("kind") == "pipeline" and isinstance(case.get("mq"), dict):
            mq = case["mq"]
            for i in range(len(mq["rows"])):
                yield dict(case, mq=dict(mq, rows=mq["rows"][:i] + mq["rows"][i + 1 :]))
    rule = _BaseP.rule + (
        "; 6 % of the cases run the whole inference function (harness/pipeline.py: a shipped method file through "
        "methods.parse_method_toml, 30 % with pseudo-genes requested, half of them preceded by a request of the same method "
        "with the other pseudo-gene switch; structured peptide lists of harness/gen_pil.py) and state C03 on the groups "
        "handed to the first competition; 60 % of them pass a generated proteinGroups.txt (or a path without a file) as "
        "mq_protein_groups_file — the statement is the same whatever file is passed"
    )
