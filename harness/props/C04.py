"""C04 — rescue regrouping keeps a partition and merges only along shared peptides.

Correspondence: the rescue stage of the real code vs `PgFdr.C04.rescueGroupsN` (Lean model, op "rescue").

Two ways of reaching the stage:
  * mode "pipeline": `picked_group_fdr.get_protein_group_results` is run end to end on a generated peptide
    list (methods with rescued subset grouping); `RescuedGrouping.merge_with_rescued_protein_groups` is wrapped
    (arguments / return), as are `do_competition` (groups of the second competition) and
    `rescue_protein_groups` (the results the cutoff is computed from);
  * mode "direct": `_filter_peptide_list_by_score_cutoff` + `merge_with_rescued_protein_groups` are called on
    generated first-pass groups (subset grouping, or an arbitrary partition as rescued_mq_native would pass)
    with a cutoff chosen from the PEP grid, so that PEPs *equal* to the cutoff are frequent.

Recorded from the run and handed to the model as parameters (DESIGN.md §4): the cutoff (a float, exact
rational), the subset grouping `N` of the filtered peptides (return value of
`ObservedPeptides.generate_protein_groups`, property C03), and the finite map
(sorted node list, s, t) -> cut of `graphs.minimum_st_node_cut`.

Compared exactly (nested lists incl. order): the filtered peptide list, the subset grouping N (recorded vs the
model of Model/C03.lean; `rescueGroups`, which computes N itself, must give the same result), the identified group positions
(sorted), the protein nodes and edges of the bipartite graph (sorted), the rescued groups, the merged
groups, the placeholders and their peptide infos, the groups passed to the second competition.

The oracle states the property directly on what the real code returned (probes c04.py / c04b.py).
"""
import itertools
import math
import random
from fractions import Fraction

import lib
from lib import Prop, rat, unrat

PEP_GRID = [1e-5, 1e-4, 1e-3, 1e-2, 0.05, 0.1, 0.3, 0.5]
BASES = ["A", "B", "C", "D", "E", "F", "G", "H", "I", "J", "K", "L"]
PIPE_METHODS = ["picked_protein_group", "classic_rescued_subset_grouping", "picked_protein_group_no_remap"]

_REC = {"on": None}
_INSTALLED = {"done": False}


def _install():
    """wrap the observation points once per process; the wrappers only record"""
    if _INSTALLED["done"]:
        return
    from picked_group_fdr import graphs, grouping
    from picked_group_fdr.observed_peptides import ObservedPeptides

    orig_cut = graphs.minimum_st_node_cut

    def cut_wrapper(G, s, t, **kw):
        c = orig_cut(G, s, t, **kw)
        r = _REC["on"]
        if r is not None:
            r["cuts"].append([sorted(G.nodes), s, t, sorted(c)])
        return c

    graphs.minimum_st_node_cut = cut_wrapper

    orig_gen = ObservedPeptides.generate_protein_groups

    def gen_wrapper(self):
        pg = orig_gen(self)
        r = _REC["on"]
        if r is not None:
            r["subset_calls"].append([list(g) for g in pg.protein_groups])
        return pg

    ObservedPeptides.generate_protein_groups = gen_wrapper

    orig_ident = ObservedPeptides._get_protein_group_idxs_with_unique_peptides

    def ident_wrapper(self, protein_groups):
        s = orig_ident(self, protein_groups)
        r = _REC["on"]
        if r is not None:
            r["identified"] = sorted(int(i) for i in s)
        return s

    ObservedPeptides._get_protein_group_idxs_with_unique_peptides = ident_wrapper

    orig_create = graphs.PeptideProteinGraph.create_graph

    def create_wrapper(self, protein_groups, identified, observed):
        out = orig_create(self, protein_groups, identified, observed)
        r = _REC["on"]
        if r is not None:
            r["prot_nodes"] = sorted(x for x, y in self.G.nodes(data=True) if y.get("node_type") == "protein")
            r["all_nodes"] = sorted(self.G.nodes)
            r["edges_raw"] = [[a, b] for a, b in self.G.edges]
        return out

    graphs.PeptideProteinGraph.create_graph = create_wrapper

    orig_resc = grouping.RescuedGrouping.get_rescued_protein_groups

    def resc_wrapper(self, pil):
        pg = orig_resc(self, pil)
        r = _REC["on"]
        if r is not None:
            r["rescued"] = [list(g) for g in pg.protein_groups]
        return pg

    grouping.RescuedGrouping.get_rescued_protein_groups = resc_wrapper

    orig_merge = grouping.RescuedGrouping.merge_with_rescued_protein_groups

    def merge_wrapper(self, pil_filtered, protein_groups, infos):
        r = _REC["on"]
        if r is not None:
            r["subset_calls"] = []
            r["filtered"] = [[k, rat(float(s)), list(ps)] for k, (s, ps) in pil_filtered.items()]
            r["old"] = [list(g) for g in protein_groups]
            r["infos"] = [[[rat(float(s)), pep, list(ps)] for (s, pep, ps) in info] for info in infos]
            r["cutoff"] = rat(float(self.score_cutoff))
        new = orig_merge(self, pil_filtered, protein_groups, infos)
        if r is not None:
            r["N"] = r["subset_calls"][-1] if r["subset_calls"] else None
            r["groups"] = [list(g) for g in new.protein_groups]
            r["obsolete"] = [list(g) for g in self.obsolete_protein_groups.protein_groups]
            r["obsolete_infos"] = [
                [[rat(float(s)), pep, list(ps)] for (s, pep, ps) in info] for info in self.obsolete_protein_group_peptide_infos
            ]
            r["merge_calls"] = r.get("merge_calls", 0) + 1
        return new

    grouping.RescuedGrouping.merge_with_rescued_protein_groups = merge_wrapper

    orig_rpg = grouping.RescuedGrouping.rescue_protein_groups

    def rpg_wrapper(self, pil, results, thr, old, old_infos):
        r = _REC["on"]
        if r is not None:
            r["first_results"] = [[pgr.proteinIds, float(pgr.score), float(pgr.qValue)] for pgr in results]
        return orig_rpg(self, pil, results, thr, old, old_infos)

    grouping.RescuedGrouping.rescue_protein_groups = rpg_wrapper
    _INSTALLED["done"] = True


def _pil_dict(case):
    return {k: (float(unrat(s)), list(ps)) for k, s, ps in case["pil"]}


def _flat(gs):
    return [p for g in gs for p in g]


# ------------------------------------------------------------------------------------------------
# graph helpers of the oracle (networkx-free)
# ------------------------------------------------------------------------------------------------
def _components(nodes, adj):
    seen, out = set(), []
    for s in nodes:
        if s in seen:
            continue
        comp, stack = set(), [s]
        while stack:
            a = stack.pop()
            if a in comp:
                continue
            comp.add(a)
            stack.extend(b for b in adj.get(a, ()) if b not in comp)
        seen |= comp
        out.append(comp)
    return out


def _oracle_graph(N, filt):
    """bipartite graph over the groups without a peptide of their own, built from the definition (group level:
    a peptide touches a group when ANY member is listed for it, so no member order is assumed): nodes
    ("prot", index in N) and ("pep", frozenset of the indices of the peptide's groups)"""
    home = {p: i for i, g in enumerate(N) for p in g}
    ident = set()
    for _, _, ps in filt:
        idxs = {home.get(p, -1) for p in ps}
        if len(idxs) == 1 and idxs != {-1}:
            ident.add(next(iter(idxs)))
    adj = {}
    nodes = []
    for i, g in enumerate(N):
        if i in ident:
            continue
        a = ("prot", i)
        if a not in adj:
            adj[a] = set()
            nodes.append(a)
        for _, _, ps in filt:
            if any(m in ps for m in g):
                b = ("pep", frozenset(home[p] for p in ps if p in home))
                if b not in adj:
                    adj[b] = set()
                    nodes.append(b)
                adj[a].add(b)
                adj[b].add(a)
    return ident, nodes, adj


class P(Prop):
    id = "C04"
    quick_cases = 1600
    thorough_cases = 60000
    chunk = 100
    rule = (
        "peptide lists over <= 8 (quick) / 12 (thorough) proteins built from chains, cycles, stars, triples of "
        "shared-only peptides plus weak unique peptides that the cutoff removes, strong unique peptides and i.i.d. "
        "noise; PEPs from an 8-point grid; mode direct (cutoff from the grid, first pass = subset grouping or an "
        "arbitrary partition) and mode pipeline (get_protein_group_results with 3 rescued-grouping methods, "
        "thresholds incl. ones no group reaches); non-trivial = at least one graph node (a group without a peptide "
        "of its own) or a non-empty remnant; distinct by sha1 of the case"
    )
    assumptions = [
        "the recorded minimum_st_node_cut results are a function of (node set, s, t) within one run (each sub-graph is split once, keys are unique)",
        "the theorems with a parameter N hold for every partition N; the recorded subset grouping of the filtered peptides is compared with the model of Model/C03.lean on every case, and rescue_partition_subset uses C03.subset_partition",
        "PEPs are finite doubles (no NaN match-between-runs entries in the generated peptide lists); the cutoff float 10^(-score) is read from the run and compared exactly, the score it is computed from is modelled (rescueScore)",
        "scores and q-values of the second competition are outside this model (properties C01, C02, C05)",
    ]
    trusted_extra = [
        "networkx minimum_st_node_cut enters the model as a recorded finite map (no theorem assumes anything about its values; an empty cut or a missing entry is a model error)",
        "PgFdr/Model/C03.lean subsetGroups (used by rescueGroups and rescue_partition_subset)",
    ]

    # ------------------------------------------------------------------ generation
    def _names(self, rng, n):
        base = BASES[:n]
        out = []
        for b in base:
            r = rng.random()
            if r < 0.1:
                out.append("CON__" + b)
            elif r < 0.15:
                out.append("rev_" + b)
            else:
                out.append(b)
        return out

    def gen_case(self, rng, tier):
        maxp = 8 if tier == "quick" else 12
        n = rng.randint(2, maxp)
        prots = self._names(rng, n)
        peps = []  # (proteins, pep)
        strong = lambda: rng.choice(PEP_GRID[:4])
        weak = lambda: rng.choice(PEP_GRID[4:])
        anyp = lambda: rng.choice(PEP_GRID)
        pool = prots[:]
        rng.shuffle(pool)
        anchors = []  # proteins that get a strong peptide of their own (identified groups)
        blocks = []
        nmotifs = rng.choice([1, 1, 2, 2, 3])
        for _ in range(nmotifs):
            if len(pool) < 2:
                break
            kind = rng.choice(["chain", "chain", "cycle", "cycle", "star", "triple", "clique", "ladder"])
            k = rng.randint(2, min(5, len(pool)))
            mem = [pool.pop() for _ in range(k)]
            blocks.append(mem)
            sp = strong if rng.random() < 0.85 else anyp
            # a link between two groups may ALSO be listed for a protein that keeps a peptide of its own (an identified
            # group): it still connects the groups without a peptide of their own and still counts as a shared peptide
            via_anchor = rng.random() < 0.3

            link_no = [0]

            def link(ps):
                # consecutive links go to DIFFERENT anchors (the same anchor on both links of a protein would make the
                # protein a subset of the anchor), every third link to none
                link_no[0] += 1
                if via_anchor and link_no[0] % 3 != 0:
                    while len(anchors) < 2 and pool:
                        anchors.append(pool.pop())
                    if anchors:
                        return list(ps) + [anchors[link_no[0] % len(anchors)]]
                return list(ps)

            if via_anchor and kind in ("chain", "cycle"):
                seq = zip(mem, mem[1:]) if kind == "chain" else zip(mem, mem[1:] + mem[:1])
                for a, b in seq:
                    peps.append((link([a, b]), sp()))
            elif kind == "chain":
                for a, b in zip(mem, mem[1:]):
                    peps.append(([a, b], sp()))
            elif kind == "cycle":
                for a, b in zip(mem, mem[1:] + mem[:1]):
                    peps.append(([a, b], sp()))
            elif kind == "star":
                for b in mem[1:]:
                    peps.append(([mem[0], b], sp()))
                if rng.random() < 0.6:
                    for b in mem[1:]:
                        for c in mem[1:]:
                            if b < c and rng.random() < 0.5:
                                peps.append(([b, c], sp()))
            elif kind == "triple":
                for i in range(len(mem) - 2):
                    peps.append((mem[i : i + 3], sp()))
                if len(mem) == 2:
                    peps.append((list(mem), sp()))
            elif kind == "clique":
                for a, b in itertools.combinations(mem, 2):
                    if rng.random() < 0.8:
                        peps.append(([a, b], sp()))
            else:  # ladder: two chains with rungs -> needs 2-node cuts
                h = len(mem) // 2
                u, v = mem[:h], mem[h:]
                for a, b in zip(u, u[1:]):
                    peps.append(([a, b], sp()))
                for a, b in zip(v, v[1:]):
                    peps.append(([a, b], sp()))
                for a, b in zip(u, v):
                    peps.append(([a, b], sp()))
            # members with a single peptide would be swallowed by the subset grouping: tie them to an
            # anchor (a protein that keeps a peptide of its own) through one more shared peptide
            if rng.random() < 0.75:
                for a in mem:
                    cnt = sum(1 for ps, _ in peps if a in ps)
                    if cnt < 2 or rng.random() < 0.15:
                        if pool and (not anchors or rng.random() < 0.5):
                            anchors.append(pool.pop())
                        if anchors:
                            peps.append(([a, rng.choice(anchors)], sp()))
        # bridges between blocks: a single shared peptide whose removal splits the component
        for b1, b2 in zip(blocks, blocks[1:]):
            if rng.random() < 0.5:
                peps.append(([rng.choice(b1), rng.choice(b2)], strong()))
        for a in anchors:
            peps.append(([a], strong()))
        # unique peptides: weak (removed by the cutoff) or strong (identified groups)
        pw = rng.choice([0.0, 0.3, 0.6, 0.9])
        ps_ = rng.choice([0.0, 0.1, 0.3])
        for p in prots:
            if rng.random() < pw:
                peps.append(([p], weak()))
            if rng.random() < ps_:
                peps.append(([p], strong()))
        for _ in range(rng.choice([0, 0, 1, 2, 3])):
            peps.append((rng.sample(prots, min(n, rng.choice([1, 2, 2, 3, 4]))), anyp()))
        if rng.random() < 0.1 and peps:  # a protein listed twice (gene level input)
            ps, s = rng.choice(peps)
            ps.append(ps[0])
        rng.shuffle(peps)
        mode = "pipeline" if rng.random() < 0.3 else "direct"
        if mode == "direct" and rng.random() < 0.15:
            # the rest of the identifier universe: decoys and identifiers that already carry the placeholder marker
            ren = {p: rng.choice(["REV__", "REV__", "OBSOLETE__", "OBSOLETE__REV__"]) + p for p in prots if rng.random() < 0.3}
            peps = [([ren.get(p, p) for p in ps], s) for ps, s in peps]
            prots = [ren.get(p, p) for p in prots]
        if mode == "pipeline":
            # decoys with peptides of their own, so that thresholds mean something
            for p in prots:
                if rng.random() < 0.35 and not p.startswith(("CON__", "rev_")):
                    peps.insert(rng.randint(0, len(peps)), (["REV__" + p], anyp()))
            if not any(len(ps) == 1 for ps, _ in peps):
                peps.append(([prots[0]], weak()))
        pil = [["PEP%d" % i, rat(s), list(ps)] for i, (ps, s) in enumerate(peps)]
        case = {"mode": mode, "pil": pil, "np_seed": rng.randint(0, 2**31 - 1)}
        if mode == "pipeline":
            case["method"] = rng.choice(PIPE_METHODS)
            case["threshold"] = rat(rng.choice([0.01, 0.05, 0.2, 0.34, 0.5, 0.51, 1.0, 1.01, 1e-9]))
            case["keep_all"] = rng.random() < 0.5
        else:
            case["cutoff"] = rat(rng.choice(PEP_GRID + [0.05] * 10 + [0.011, 0.011, 1.0, 2.0, 0.0]))
            if rng.random() < 0.03:  # a peptide without proteins (the first pass of the pipeline would reject it)
                case["pil"].insert(rng.randint(0, len(pil)), ["PEPX", rat(strong()), []])
            if rng.random() < 0.25:
                # arbitrary first-pass partition of a superset of the proteins
                allp = sorted({p for ps, _ in peps for p in ps}) + (["X1", "X2"] if rng.random() < 0.5 else [])
                rng.shuffle(allp)
                old = []
                while allp:
                    k = rng.choice([1, 1, 2, 3])
                    old.append(allp[:k])
                    allp = allp[k:]
                case["old"] = old
        return case

    def exhaustive_cases(self, tier):
        """all multisets of <= 4 peptides over 4 proteins, each peptide strong (kept) or weak (removed by the
        cutoff); first pass = subset grouping of all peptides; direct mode"""
        prots = ["A", "B", "C", "D"]
        subsets = [list(c) for r in range(1, 5) for c in itertools.combinations(prots, r)]
        kinds = [(s, lvl) for s in subsets for lvl in (1e-3, 0.1)]
        out = []
        for k in range(1, 5):
            for combo in itertools.combinations_with_replacement(range(len(kinds)), k):
                pil = [["PEP%d" % i, rat(kinds[j][1]), kinds[j][0]] for i, j in enumerate(combo)]
                out.append({"mode": "direct", "pil": pil, "cutoff": rat(0.05), "np_seed": 0})
        return out

    # ------------------------------------------------------------------ the implementation
    def run_impl(self, case):
        import numpy as np

        _install()
        from picked_group_fdr import grouping
        from picked_group_fdr.protein_groups import ProteinGroups
        from picked_group_fdr.scoring_strategy import ProteinScoringStrategy

        pil = _pil_dict(case)
        rec = {"cuts": [], "subset_calls": []}
        np.random.seed(case.get("np_seed", 0) % (2**32))
        out = {}
        if case["mode"] == "pipeline":
            from picked_group_fdr import methods
            from picked_group_fdr import picked_group_fdr as pgf

            mc = methods.parse_method_toml(method_name=case["method"], use_pseudo_genes=False)
            comp_calls = []
            surv_calls = []
            orig_comp = mc.picked_strategy.do_competition

            def comp_wrapper(protein_groups, infos, score_type):
                comp_calls.append([list(g) for g in protein_groups])
                ret = orig_comp(protein_groups, infos, score_type)
                try:
                    surv_calls.append([[list(g), float(x)] for g, x in zip(ret[0], ret[2])])
                except Exception:
                    surv_calls.append(None)
                return ret

            mc.picked_strategy.do_competition = comp_wrapper
            thr = float(unrat(case["threshold"]))
            _REC["on"] = rec
            try:
                res = pgf.get_protein_group_results(
                    pil, method_config=mc, protein_group_fdr_threshold=thr, keep_all_proteins=bool(case.get("keep_all"))
                )
            except ValueError as e:
                if "not enough values to unpack" in str(e):
                    return {"err": "no_ranked_groups", "stage": len(comp_calls)}
                raise
            finally:
                _REC["on"] = None
            out["second_pass"] = comp_calls[1] if len(comp_calls) > 1 else None
            out["final_ids"] = [r.proteinIds for r in res]
            out["pgT"] = mc.picked_strategy.short_description() == "pgT"
            rec["first_survivors"] = surv_calls[0] if surv_calls else None
        else:
            g = grouping.RescuedSubsetGrouping()
            if "old" in case:
                old = ProteinGroups.init_from_list([list(x) for x in case["old"]])
            else:
                old = g.group_proteins(pil, "")
            infos = ProteinScoringStrategy("bestPEP").collect_peptide_scores_per_protein(
                old, pil, 0.01, suppress_missing_protein_warning=True
            )
            g.score_cutoff = float(unrat(case["cutoff"]))
            _REC["on"] = rec
            try:
                filt = g._filter_peptide_list_by_score_cutoff(pil)
                g.merge_with_rescued_protein_groups(filt, old, infos)
            finally:
                _REC["on"] = None
        if rec.get("merge_calls", 0) != 1:
            return {"err": "rescue_stage_not_reached", "calls": rec.get("merge_calls", 0)}
        for k in ("filtered", "identified", "prot_nodes", "rescued", "groups", "obsolete", "obsolete_infos"):
            out[k] = rec.get(k)
        out["edges"] = sorted({(a, b) if a in rec["prot_nodes"] else (b, a) for a, b in rec.get("edges_raw", [])})
        out["edges"] = [list(e) for e in out["edges"]]
        out["_rec"] = {
            "cutoff": rec["cutoff"],
            "N": rec["N"],
            "old": rec["old"],
            "infos": rec["infos"],
            "cuts": rec["cuts"],
            "all_nodes": rec.get("all_nodes"),
            "first_results": rec.get("first_results"),
            "first_survivors": rec.get("first_survivors"),
        }
        return out

    # ------------------------------------------------------------------ the model
    def model_request(self, case, impl_out):
        if not isinstance(impl_out, dict) or "_rec" not in impl_out:
            return None
        r = impl_out["_rec"]
        req = {
            "op": "rescue",
            "pil": case["pil"],
            "cutoff": r["cutoff"],
            "N": r["N"],
            "old": r["old"],
            "infos": r["infos"],
            "cuts": r["cuts"],
        }
        if case["mode"] == "pipeline" and r.get("first_results") is not None:
            rows = [[rat(s), rat(q)] for _, s, q in r["first_results"]]
            return [req, {"op": "rescue_score", "rows": rows, "threshold": case["threshold"]}]
        return req

    def model_view(self, case, resp, impl_out):
        score = None
        if isinstance(resp, list):
            resp, score = resp[0], resp[1]
        if "rescued" not in resp:
            return resp
        v = {
            "filtered": resp["filtered"],
            "N": resp["N_model"],
            "rescueGroups_with_model_N_agrees": resp["same_with_model_N"],
            "identified": sorted(set(resp["identified"])),
            "prot_nodes": sorted(resp["prot_nodes"]),
            "edges": sorted({(a, b) for a, b in resp["edges"]}),
            "rescued": resp["rescued"],
            "groups": resp["groups"],
            "obsolete": resp["obsolete"],
            "obsolete_infos": resp["obsolete_infos"],
        }
        v["edges"] = [list(e) for e in v["edges"]]
        if case["mode"] == "pipeline":
            v["second_pass"] = resp["second_pass"] if impl_out.get("pgT") else resp["groups"]
            if score is not None:
                if "score" in score:
                    import numpy as np

                    f = unrat(score["score"])
                    v["cutoff"] = rat(float(np.power(10, (f.numerator / f.denominator) * -1)))
                else:
                    v["cutoff"] = score
        return v

    def impl_view(self, case, impl_out):
        if not isinstance(impl_out, dict) or "_rec" not in impl_out:
            return impl_out
        keys = ["filtered", "identified", "prot_nodes", "edges", "rescued", "groups", "obsolete", "obsolete_infos"]
        if case["mode"] == "pipeline":
            keys.append("second_pass")
        v = {k: impl_out[k] for k in keys}
        v["N"] = impl_out["_rec"]["N"]
        v["rescueGroups_with_model_N_agrees"] = True
        if case["mode"] == "pipeline" and impl_out["_rec"].get("first_results") is not None:
            v["cutoff"] = rat(unrat(impl_out["_rec"]["cutoff"]))
        v["filtered"] = [[k, rat(unrat(s)), ps] for k, s, ps in v["filtered"]]
        return v

    # ------------------------------------------------------------------ the property, stated directly
    def oracle(self, case, impl_out):
        if not isinstance(impl_out, dict):
            return "no output"
        if impl_out.get("err") == "no_ranked_groups":
            return None  # documented degenerate input (DESIGN.md §4), the run produces no table
        if "_rec" not in impl_out:
            return "rescue stage not reached: %r" % (impl_out,)
        r = impl_out["_rec"]
        cutoff = unrat(r["cutoff"])
        first, new, rescued, obs, N = r["old"], impl_out["groups"], impl_out["rescued"], impl_out["obsolete"], r["N"]
        # -- "only the peptides whose PEP is better than the PEP equivalent of the worst-scoring group accepted"
        filt = [[k, s, ps] for k, s, ps in case["pil"] if unrat(s) < cutoff]
        got = [[k, rat(unrat(s)), ps] for k, s, ps in impl_out["filtered"]]
        if got != [[k, rat(unrat(s)), ps] for k, s, ps in filt]:
            return "the rescue pass regrouped with peptides %r, but the peptides with PEP < %s are %r" % (
                [x[0] for x in got],
                float(cutoff),
                [x[0] for x in filt],
            )
        if case["mode"] == "pipeline" and r.get("first_results") is not None:
            import numpy as np

            thr = float(unrat(case["threshold"]))
            rows = r["first_results"]
            # "the PEP equivalent of the worst-scoring group": the score of a first-pass row is the score its group
            # left the first competition with (not a rounded or otherwise re-derived value)
            surv = r.get("first_survivors")
            if surv:
                for ids, s, _ in rows:
                    ms = [x for g, x in surv if all(p in g for p in ids.split(";"))]
                    if ms and s not in ms:
                        return "first-pass row %r carries score %r but its group left the competition with score %r: the rescue cutoff 10^-score is not its PEP equivalent" % (ids, s, ms[0])
            acc = [s for _, s, q in rows if q < thr] or [s for _, s, q in rows]
            want = float(np.power(10, -min(acc)))
            if want != float(cutoff):
                return "cutoff %r is not the PEP equivalent %r of the worst-scoring group accepted at threshold %r" % (
                    float(cutoff),
                    want,
                    thr,
                )
        kept = {p for _, _, ps in filt for p in ps}
        # -- N is a grouping of exactly the proteins that kept a peptide (input condition of the model)
        if sorted(_flat(N)) != sorted(kept) or any(len(g) == 0 for g in N):
            return "subset grouping of the filtered peptides %r is not a partition of the proteins that kept a peptide %r" % (N, sorted(kept))
        # -- "The result is again a partition of exactly the first-pass proteins"
        covers = kept <= set(_flat(first))
        nodup_first = len(set(_flat(first))) == len(_flat(first))
        if covers and nodup_first:
            if sorted(_flat(new)) != sorted(_flat(first)):
                return "rescued groups %r are not a partition of the first-pass proteins %r" % (new, first)
        if any(len(g) == 0 for g in new):
            return "empty group after the rescue: %r" % (new,)
        # -- "proteins keeping such a peptide form a valid subset grouping ... additionally merged" (refinement)
        for sg in N:
            homes = {i for i, g in enumerate(new) if set(sg) & set(g)}
            if len(homes) != 1:
                return "subset group %r of the filtered peptides is spread over %d rescued groups %r" % (sg, len(homes), new)
        for g in new:
            if len({p in kept for p in g}) != 1:
                return "group %r mixes proteins that kept a peptide with proteins that kept none" % (g,)
        # -- "all other proteins stay together with exactly those former group-mates that also kept no such peptide"
        if nodup_first:
            rem = [[p for p in f if p not in kept] for f in first]
            rem = [x for x in rem if x]
            got_rem = [g for g in new if g[0] not in kept]
            if got_rem != rem:
                return "remnant groups %r, expected the first-pass groups without the proteins that kept a peptide: %r" % (got_rem, rem)
        # -- merges: never an identified group, never across unconnected groups
        ident, nodes, adj = _oracle_graph(N, filt)
        comp_of = {}
        comps = _components(nodes, adj)
        for ci, c in enumerate(comps):
            for x in c:
                comp_of[x] = ci
        home = {p: i for i, g in enumerate(new) for p in g}
        for g in new:
            parts = [i for i, sg in enumerate(N) if set(sg) & set(g)]
            if len(parts) >= 2:
                for i in parts:
                    if i in ident:
                        return "group %r with a peptide of its own was merged into %r" % (N[i], g)
                cs = {comp_of.get(("prot", i)) for i in parts}
                if len(cs) != 1 or None in cs:
                    return "groups %r were merged into %r but are not connected through shared peptides of groups without a peptide of their own" % (
                        [N[i] for i in parts],
                        g,
                    )
        # -- "always when the connected set cannot be separated ..." (brute force over peptide-node subsets)
        for c in comps:
            Pn = [x for x in c if x[0] == "prot"]
            B = [x for x in c if x[0] == "pep"]
            if len(Pn) < 2 or len(B) > 8:
                continue
            separable = False
            for k in range(1, len(B) + 1):
                for C in itertools.combinations(B, k):
                    rest = [x for x in c if x not in C]
                    sub = {a: {b for b in adj[a] if b not in C} for a in rest}
                    cs = _components(rest, sub)
                    if len(cs) >= 2 and all(len(x) >= 2 for x in cs):
                        separable = True
                        break
                if separable:
                    break
            if not separable:
                homes = {home.get(N[p[1]][0]) for p in Pn}
                if len(homes) != 1:
                    return "inseparable connected set of groups led by %r was not merged into one group: %r" % (
                        sorted(N[p[1]] for p in Pn),
                        new,
                    )
        # -- "completely absorbed first-pass groups remain in the ranking only as placeholders and are never reported"
        newflat = set(_flat(rescued))
        want_obs = [["OBSOLETE__" + x for x in f] for f in first if all(x in newflat for x in f)]
        if obs != want_obs:
            return "placeholders %r, expected %r" % (obs, want_obs)
        want_infos = [i for f, i in zip(first, r["infos"]) if all(x in newflat for x in f)]
        if impl_out["obsolete_infos"] != want_infos:
            return "placeholder peptide infos differ from those of the absorbed first-pass groups"
        if case["mode"] == "pipeline":
            ids = impl_out.get("final_ids") or []
            flat = [p for i in ids for p in i.split(";")]
            if any("OBSOLETE__" in p for p in flat):
                return "a placeholder group is reported: %r" % (ids,)
            if len(set(flat)) != len(flat):
                return "a protein is reported in two groups: %r" % (ids,)
            sp = impl_out.get("second_pass")
            if sp is not None and nodup_first:
                fl = [p for g in sp for p in g if not p.startswith("OBSOLETE__")]
                if len(set(fl)) != len(fl):
                    return "a protein enters the second competition in two groups: %r" % (sp,)
        # -- recorded cuts: an empty cut would make the code re-queue the same graph forever (the model rejects it)
        for nodes_, s, t, cut in r["cuts"]:
            if not cut:
                return "networkx returned an empty cut for (%r, %r)" % (s, t)
        return None

    # ------------------------------------------------------------------ bookkeeping
    def nontrivial(self, case, impl_out):
        if not isinstance(impl_out, dict) or "_rec" not in impl_out:
            return False
        return bool(impl_out["prot_nodes"]) or len(impl_out["groups"]) != len(impl_out["rescued"])

    def features(self, case, impl_out):
        f = ["mode=" + case["mode"]]
        if not isinstance(impl_out, dict) or "_rec" not in impl_out:
            f.append("err=%s" % (impl_out.get("err") if isinstance(impl_out, dict) else "?"))
            return f
        r = impl_out["_rec"]
        N = r["N"]
        merged = sum(1 for g in impl_out["rescued"] if sum(1 for sg in N if set(sg) & set(g)) >= 2)
        f.append("merged_groups=%s" % (merged if merged < 3 else "3+"))
        nc = len(r["cuts"])
        f.append("cut_calls=%s" % ("0" if nc == 0 else "1-3" if nc <= 3 else "4-10" if nc <= 10 else "11+"))
        if any(len(c[3]) >= 2 for c in r["cuts"]):
            f.append("cut_of_2+_nodes")
        if any(not self._separates(impl_out["edges"], c) for c in r["cuts"]):
            f.append("recorded_cut_does_not_separate")  # never seen; no theorem depends on it
        f.append("prot_nodes=%s" % (len(impl_out["prot_nodes"]) if len(impl_out["prot_nodes"]) < 6 else "6+"))
        if len(impl_out["groups"]) != len(impl_out["rescued"]):
            f.append("has_remnant")
        if impl_out["obsolete"]:
            f.append("has_placeholder")
        if not impl_out["filtered"]:
            f.append("nothing_below_cutoff")
        cutoff = unrat(r["cutoff"])
        if any(unrat(s) == cutoff for _, s, _ in case["pil"]):
            f.append("pep_equal_to_cutoff")
        if "old" in case:
            f.append("arbitrary_first_pass")
        if impl_out["identified"]:
            f.append("has_identified_group")
        # a split happened: more leaves than components with >= 2 proteins merged
        if nc and merged >= 2:
            f.append("component_split_into_2+_merged_groups")
        return f

    @staticmethod
    def _separates(edges, rec):
        nodes_, s, t, cut = rec
        ns = set(nodes_) - set(cut)
        ad = {x: set() for x in ns}
        for a, b in edges:
            if a in ns and b in ns:
                ad[a].add(b)
                ad[b].add(a)
        for c in _components(sorted(ns), ad):
            if s in c and t in c:
                return False
        return True

    def shrink(self, case):
        pil = case["pil"]
        for i in range(len(pil)):
            c = dict(case)
            c["pil"] = pil[:i] + pil[i + 1 :]
            if c["pil"]:
                yield c
        for i, (k, s, ps) in enumerate(pil):
            if len(ps) > 1:
                for j in range(len(ps)):
                    c = dict(case)
                    c["pil"] = pil[:i] + [[k, s, ps[:j] + ps[j + 1 :]]] + pil[i + 1 :]
                    yield c
        if "old" in case:
            c = dict(case)
            del c["old"]
            yield c
        if case["mode"] == "pipeline":
            # the same peptide list through the direct entry
            c = {"mode": "direct", "pil": pil, "cutoff": rat(0.05), "np_seed": 0}
            yield c

    # ------------------------------------------------------------------ extra stage: hash-seed independence
    def extra(self, ctx):
        """The rescue result is a function of the peptide list: the same cases are run in fresh interpreters
        with different PYTHONHASHSEEDs (the graph code iterates over sets of node names) and must agree."""
        import json
        import os
        import subprocess
        import tempfile

        lib.setup_impl_path()
        if ctx.get("replay"):
            rp = json.loads(open(ctx["replay"]).read())
            cases = [rp["case"]] if "case" in rp else []
        else:
            rng = random.Random(ctx["seed"] * 7919 + 17)
            cases, tries = [], 0
            want = 40 if ctx["tier"] == "quick" else 300
            while len(cases) < want and tries < want * 40:
                tries += 1
                c = self.gen_case(rng, "thorough")
                if c["mode"] != "direct":
                    continue
                out = self.run_impl(c)
                if not (isinstance(out, dict) and "_rec" in out and out["_rec"]["cuts"]):
                    continue
                # networkx iterates a sub-graph view in set (hash) order when it is less than half of the
                # graph: prefer such components
                small = any(2 * len(k[0]) < len(out["_rec"]["all_nodes"]) for k in out["_rec"]["cuts"])
                if small or tries % 5 == 0:
                    cases.append(c)
        if not cases:
            return {"evaluations": 0, "failures": [], "info": {"hashseed_cases": 0}}
        seeds = ["1", "2", "3"] if ctx["tier"] == "quick" else ["1", "2", "3", "4", "5", "6"]
        code = (
            "import sys, json\n"
            "sys.path.insert(0, %r)\n"
            "import lib\n"
            "lib.setup_impl_path()\n"
            "P = lib.load_prop('C04')\n"
            "cases = json.load(open(sys.argv[1]))\n"
            "outs = []\n"
            "for c in cases:\n"
            "    try:\n"
            "        o = P.run_impl(c)\n"
            "        outs.append({k: o.get(k) for k in ('rescued', 'groups', 'obsolete')})\n"
            "    except Exception as e:\n"
            "        outs.append({'exc': type(e).__name__ + ': ' + str(e)[:200]})\n"
            "json.dump(outs, open(sys.argv[2], 'w'))\n"
        ) % str(lib.VERIF / "harness")
        results = {}
        with tempfile.TemporaryDirectory() as td:
            cf = os.path.join(td, "cases.json")
            with open(cf, "w") as fh:
                json.dump(cases, fh)
            procs = []
            for hs in seeds:
                of = os.path.join(td, "out%s.json" % hs)
                env = lib.impl_env({"PYTHONHASHSEED": hs})
                procs.append((hs, of, subprocess.Popen([lib.PY, "-c", code, cf, of], env=env, stderr=subprocess.PIPE, text=True)))
            for hs, of, pr in procs:
                _, err = pr.communicate(timeout=1800)
                if pr.returncode != 0:
                    raise RuntimeError("hash-seed run failed: " + err[-400:])
                results[hs] = json.load(open(of))
        failures = []
        for i, c in enumerate(cases):
            views = {hs: results[hs][i] for hs in seeds}
            first = views[seeds[0]]
            for hs in seeds[1:]:
                if views[hs] != first:
                    failures.append(
                        {
                            "case": c,
                            "why": "the rescue result depends on the interpreter's hash seed: PYTHONHASHSEED=%s gives %r, PYTHONHASHSEED=%s gives %r"
                            % (seeds[0], first.get("rescued", first), hs, views[hs].get("rescued", views[hs])),
                            "impl": {"by_hashseed": views},
                        }
                    )
                    break
        return {
            "evaluations": len(cases) * len(seeds),
            "failures": failures[:5],
            "info": {"hashseed_cases": len(cases), "hashseeds": seeds, "hashseed_differences": len(failures)},
        }
