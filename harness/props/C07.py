"""C07 — results are reproducible across processes, hash seeds and repeated calls.

Three observations of the real code:
  (a) in-process call sequences: one MethodConfig object reused for 2–5 calls on same / different inputs
      (numpy re-seeded with 1 before each call, as the CLI does once per process); every call must equal the
      call on a FRESH configuration object, and (extra stage) the result of a FRESH PROCESS;
  (b) subprocesses: the CLI on generated input files under several PYTHONHASHSEED values must write
      byte-identical tables.
The Lean side (Props/C07.lean) proves history independence for the state machine of the strategy objects;
the pipeline model that instantiates its stages is compared with (a) when it is available.
"""
import json
import os
import random
import subprocess
import sys
import tempfile
from concurrent.futures import ThreadPoolExecutor
from pathlib import Path

import lib
from lib import Prop, rat
import gen_pil
import gen_cli
import pipeline

VERIF = lib.VERIF


def method_names():
    return sorted(p.stem for p in (lib.REPO / "picked_group_fdr" / "methods").glob("*.toml"))


def canon_rows(res):
    rows = []
    for r in res:
        rows.append(
            [r.proteinIds, r.majorityProteinIds, r.peptideCountsUnique, r.bestPeptide, int(r.numberOfProteins),
             rat(float(r.qValue)), rat(float(r.score)), r.reverse, r.potentialContaminant]
        )
    return rows  # same field order as pipeline.ROW_FIELDS


def call_once(method, cfg, pil, case):
    """one call of get_protein_group_results with numpy seeded like the CLI; errors -> enum"""
    import numpy as np
    from picked_group_fdr import methods
    from picked_group_fdr import picked_group_fdr as pgf

    if cfg is None:
        cfg = methods.parse_method_toml(method, use_pseudo_genes=False)
    np.random.seed(1)
    try:
        res = pgf.get_protein_group_results(
            gen_pil.pil_to_dict(pil), method_config=cfg, keep_all_proteins=case.get("keep", False),
            protein_group_fdr_threshold=case.get("thr", 0.01), psm_fdr_cutoff=case.get("psm", 0.01),
        )
    except ValueError as e:
        if "not enough values to unpack" in str(e):
            return {"err": "no_ranked_groups"}
        raise
    except IndexError as e:
        # multPEP: optimize_hyperparameters indexes an empty score table when no group has evidence
        if "too many indices for array" in str(e):
            return {"err": "no_ranked_groups"}
        raise
    except Exception as e:
        if "No proteins with scores found" in str(e):
            return {"err": "no_ranked_groups"}
        raise
    return {"rows": canon_rows(res)}


class P(Prop):
    id = "C07"
    quick_cases = 100
    thorough_cases = 1500
    chunk = 10
    rule = (
        "call sequences of 2-5 inputs (structured peptide lists of harness/gen_pil.py, repeated inputs included) on one "
        "reused MethodConfig for a randomly chosen shipped method; non-trivial = at least two calls returned rows and the "
        "inputs differ or a rescue method is used; distinct by sha1 of the case"
    )
    assumptions = [
        "hash-seed independence is decided by running the real CLI under several PYTHONHASHSEED values (exploration), not by a theorem: CPython's set order and networkx internals are exercised, not modelled",
    ]
    trusted_extra = ["fresh-process reference harness/c07_fresh.py"]

    def gen_case(self, rng, tier):
        ms = method_names()
        # methods whose strategy objects carry per-run state get most of the weight: multPEP (optimised divisor),
        # razor (peptide counts, best scores), rescued grouping (score cutoff, placeholder groups), picked (seen-set)
        fields = {m: pipeline.method_fields(m) for m in ms}
        stateful = [m for m in ms if "multPEP" in fields[m]["scoreType"] or fields[m].get("sharedPeptides") == "razor"
                    or fields[m]["grouping"].startswith("rescued")]
        m = rng.choice(stateful) if (stateful and rng.random() < 0.7) else rng.choice(ms)
        n = rng.randint(2, 5)
        base = [gen_pil.gen_pil(rng, tier) if rng.random() < 0.7 else gen_pil.gen_rescue_pil(rng, tier)[0] for _ in range(rng.randint(1, n))]
        # variants that differ in kind from their source: targets only, decoys only, a single peptide, the strongest half
        for b in list(base):
            r = rng.random()
            if r < 0.35:
                v = [e for e in b if not any(q.startswith(("REV__", "rev_")) for q in e[2])]
            elif r < 0.45:
                v = [e for e in b if any(q.startswith(("REV__", "rev_")) for q in e[2])]
            elif r < 0.55:
                v = b[:1]
            elif r < 0.65:
                v = sorted(b, key=lambda e: e[1])[: max(1, len(b) // 2)]
            else:
                continue
            if v:
                base.append(v)
        inputs = [rng.choice(base) for _ in range(n)]
        return {"method": m, "inputs": inputs, "thr": rng.choice(pipeline.THRESHOLDS), "psm": 0.01,
                "keep": rng.random() < 0.3}

    def _sub(self, case, pil):
        return {"kind": "pipeline", "method": case["method"], "pseudo": False, "pil": [[p, rat(x), pr] for p, x, pr in pil],
                "thr": rat(case["thr"]), "psm": rat(case["psm"]), "keepAll": bool(case["keep"])}

    def run_impl(self, case):
        """the call sequence on ONE reused MethodConfig (every call observed with the pipeline recorders, so that
        each can be compared with the Lean model of a call on a fresh object), then every call on a fresh object"""
        from picked_group_fdr import methods

        cfg = methods.parse_method_toml(case["method"], use_pseudo_genes=False)
        seq_full = [pipeline.run_impl(self._sub(case, pil), cfg=cfg) for pil in case["inputs"]]
        fresh_full = [pipeline.run_impl(self._sub(case, pil)) for pil in case["inputs"]]

        def brief(o):
            return {"err": o["err"]} if "err" in o else {"rows": [[r[f] for f in pipeline.ROW_FIELDS] for r in o["rows"]]}

        return {"seq": [brief(o) for o in seq_full], "fresh": [brief(o) for o in fresh_full], "_rec": {"seq_full": seq_full}}

    def model_request(self, case, impl_out):
        # one model call per real call: the model is a call on a FRESH configuration (PgFdr.Pipeline.run)
        return [pipeline.model_request(self._sub(case, pil), o) for pil, o in zip(case["inputs"], impl_out["_rec"]["seq_full"])]

    def model_view(self, case, resps, impl_out):
        out = []
        for pil, resp, o in zip(case["inputs"], resps, impl_out["_rec"]["seq_full"]):
            sub = self._sub(case, pil)
            if "proto_err" in resp:
                out.append(resp)
            elif pipeline.near_tie(resp, sub):
                out.append(pipeline.impl_view(sub, o))
            else:
                fi = pipeline.float_identities(sub, resp, o)
                out.append({"float_identity_broken": fi} if fi else pipeline.model_view(sub, resp, o))
        return out

    def impl_view(self, case, impl_out):
        return [pipeline.impl_view(self._sub(case, pil), o) for pil, o in zip(case["inputs"], impl_out["_rec"]["seq_full"])]

    def oracle(self, case, impl_out):
        for i, (a, b) in enumerate(zip(impl_out["seq"], impl_out["fresh"])):
            if a != b:
                return f"call {i} on a reused configuration object differs from the same call on a fresh one (method {case['method']})"
        # same input twice in the sequence must give the same output
        seen = {}
        for i, pil in enumerate(case["inputs"]):
            k = json.dumps(pil)
            if k in seen and impl_out["seq"][seen[k]] != impl_out["seq"][i]:
                return f"calls {seen[k]} and {i} on the same input differ (method {case['method']})"
            seen.setdefault(k, i)
        return None

    def nontrivial(self, case, impl_out):
        return sum(1 for r in impl_out.get("seq", []) if "rows" in r and r["rows"]) >= 2

    def features(self, case, impl_out):
        f = ["method=" + case["method"], "calls=%d" % len(case["inputs"])]
        for r in impl_out.get("seq", []):
            f.append("call:" + ("rows" if "rows" in r else r.get("err", "?")))
        return f

    def shrink(self, case):
        ins = case["inputs"]
        for i in range(len(ins)):
            if len(ins) > 1:
                yield dict(case, inputs=ins[:i] + ins[i + 1:])
        for i, pil in enumerate(ins):
            for j in range(len(pil)):
                yield dict(case, inputs=ins[:i] + [pil[:j] + pil[j + 1:]] + ins[i + 1:])

    # ------------------------------------------------------------------------------
    def extra(self, ctx):
        tier, seed = ctx["tier"], ctx["seed"]
        if ctx.get("replay"):
            return None
        rng = random.Random(seed * 7919 + 17)
        failures = []
        n_fresh = 10 if tier == "quick" else 120
        n_cli = 8 if tier == "quick" else 60
        hashseeds = ["0", "1", "2", "3", str(rng.randint(4, 4000000))] + (["7", "11", "123", "999"] if tier == "thorough" else [])
        # (1) fresh-process reference
        lib.setup_impl_path()
        jobs = []
        for _ in range(n_fresh):
            c = self.gen_case(rng, tier)
            jobs.append(c)

        def fresh_proc(args):
            case, pil, hs = args
            inp = json.dumps({"method": case["method"], "pil": pil, "thr": case["thr"], "psm": case["psm"], "keep": case["keep"]})
            p = subprocess.run([lib.PY, str(VERIF / "harness" / "c07_fresh.py")], input=inp, capture_output=True, text=True,
                               env=lib.impl_env({"PYTHONHASHSEED": hs}), timeout=600)
            if p.returncode != 0:
                return {"exc": p.stderr[-400:]}
            return json.loads(p.stdout.strip().splitlines()[-1])

        evals = 0
        with ThreadPoolExecutor(16) as ex:
            for case in jobs:
                out = self.run_impl(case)
                hs = rng.choice(hashseeds)
                refs = list(ex.map(fresh_proc, [(case, pil, hs) for pil in case["inputs"]]))
                evals += len(refs)
                for i, (a, b) in enumerate(zip(out["seq"], refs)):
                    if a != b:
                        failures.append({"case": case, "why": f"call {i} in a call sequence differs from a fresh process (PYTHONHASHSEED={hs}) for method {case['method']}",
                                         "impl": {"in_sequence": a, "fresh_process": b}})
                        break
        # (2) CLI under several hash seeds: byte-identical output
        cli_runs = 0
        tmp = Path(tempfile.mkdtemp(prefix="c07_"))
        try:
            cases = []
            for k in range(n_cli):
                db = gen_cli.gen_database(rng)
                psms = gen_cli.gen_psms(rng, db, n_exp=rng.randint(1, 3))
                m = rng.choice([x for x in method_names() if self._mq_method(x)])
                d = tmp / f"in{k}"
                d.mkdir()
                gen_cli.write_fasta(d / "db.fasta", db, rng)
                gen_cli.write_evidence(d / "evidence.txt", psms)
                if rng.random() < 0.5:
                    (d / "quant").write_text("1")
                cases.append((k, m, d, {"db": db, "psms": psms}))

            def run_cli(args):
                k, m, d, hs = args
                out = d / f"pg_{hs}.txt"
                cmd = [lib.PY, "-m", "picked_group_fdr", "--mq_evidence", str(d / "evidence.txt"), "--fasta", str(d / "db.fasta"),
                       "--methods", m, "--protein_groups_out", str(out), "--min-length", "5", "--cleavages", "0"]
                if (d / "quant").exists():
                    cmd.append("--do_quant")
                p = subprocess.run(cmd, capture_output=True, text=True, env=lib.impl_env({"PYTHONHASHSEED": hs}), timeout=900, cwd=str(d))
                return (p.returncode, out.read_bytes() if out.exists() else None, p.stderr[-300:])

            with ThreadPoolExecutor(16) as ex:
                allargs = [(k, m, d, hs) for (k, m, d, pil) in cases for hs in hashseeds]
                results = list(ex.map(run_cli, allargs))
            cli_runs = len(results)
            it = iter(results)
            for (k, m, d, pil) in cases:
                rs = [next(it) for _ in hashseeds]
                ref = rs[0]
                for hs, r in zip(hashseeds, rs):
                    if (r[0], r[1]) != (ref[0], ref[1]):
                        failures.append({"case": {"method": m, "inputs": pil, "hashseeds": [hashseeds[0], hs], "kind": "cli-hashseed"},
                                         "why": f"CLI output for method {m} differs between PYTHONHASHSEED={hashseeds[0]} and {hs}",
                                         "impl": {"rc": [ref[0], r[0]], "stderr": r[2]}})
                        break
        finally:
            import shutil

            shutil.rmtree(tmp, ignore_errors=True)
        n_tables = sum(1 for r in results if r[0] == 0 and r[1] and r[1].count(b"\n") >= 2)
        return {"evaluations": evals + cli_runs, "failures": failures,
                "info": {"fresh_process_calls": evals, "cli_runs": cli_runs, "cli_runs_with_a_table": n_tables, "hashseeds": hashseeds}}

    # --- helpers for CLI inputs ---------------------------------------------------------
    def _mq_method(self, name):
        import tomllib

        d = tomllib.loads((lib.REPO / "picked_group_fdr" / "methods" / f"{name}.toml").read_text())
        st = d.get("scoreType", "")
        return not any(x in st for x in ("Perc", "FragPipe", "Sage", "DIA-NN")) and d.get("sharedPeptides") != "razor"
