"""C07 — results are reproducible across processes, hash seeds and repeated calls.

Three observations of the real code:
  (a) in-process call sequences: one MethodConfig object reused for 2–5 calls on same / different inputs
      (numpy re-seeded with 1 before each call, as the CLI does once per process); every call must equal the
      call on a FRESH configuration object, and (extra stage) the result of a FRESH PROCESS;
  (b) subprocesses: the CLI on generated input files under several PYTHONHASHSEED values must write
      byte-identical tables.
The Lean side (Props/C07.lean) proves history independence for the state machine of the strategy objects;
the pipeline model that instantiates its stages is compared with (a) when it is available.

Round 5 (one random stream per command-line run): the command line seeds numpy ONCE and all methods of --methods draw
from that generator, so the position of a method in the stream - hence the order in which the methods are processed -
decides its tie-breaking.  Added:
  (c) command-line cases RICH IN TIES (gen_cli.gen_tied_*: many protein groups with exactly the same best PEP, targets
      and decoys interleaved) with 2-4 methods per run, a method named twice, names with surrounding spaces when the
      tool's parser accepts them, in the hash-seed stage; tie-rich peptide lists in the call-sequence / fresh-process
      stages;
  (d) an independent oracle on every command-line case: the files a process writes equal the recomputation IN THIS
      PROCESS with the tool's own functions, the methods taken from --methods in the order given (one run per mention)
      on one generator seeded with 1 (`run_in_command_line_order`);
  (e) cases of kind "cli_stream": the real main(argv) in-process (harness/cli_model.py) with the permutations of
      np.random.shuffle recorded at PROCESS level, against the stream form of the glue model (Model/C07Stream.lean,
      driver op "cli_stream": every method's permutations are cut out of the process's stream in command-line order).
"""
import json
import os
import random
import re
import subprocess
import sys
import tempfile
from concurrent.futures import ThreadPoolExecutor
from pathlib import Path

import lib
from lib import Prop, rat
import gen_pil
import gen_cli
import pipeline
import cli_model

VERIF = lib.VERIF


def method_names():
    return sorted(p.stem for p in (lib.REPO / "picked_group_fdr" / "methods").glob("*.toml"))


def canon_rows(res):
    rows = []
    for r in res:
        rows.append(
            [r.proteinIds, r.majorityProteinIds, r.peptideCountsUnique, r.bestPeptide, int(r.numberOfProteins),
             rat(float(r.qValue)), rat(float(r.score)), r.reverse, r.potentialContaminant]
        )
    return rows  # same field order as pipeline.ROW_FIELDS


def call_once(method, cfg, pil, case):
    """one call of get_protein_group_results with numpy seeded like the CLI; errors -> enum"""
    import numpy as np
    from picked_group_fdr import methods
    from picked_group_fdr import picked_group_fdr as pgf

    if cfg is None:
        cfg = methods.parse_method_toml(method, use_pseudo_genes=False)
    np.random.seed(1)
    try:
        res = pgf.get_protein_group_results(
            gen_pil.pil_to_dict(pil), method_config=cfg, keep_all_proteins=case.get("keep", False),
            protein_group_fdr_threshold=case.get("thr", 0.01), psm_fdr_cutoff=case.get("psm", 0.01),
        )
    except ValueError as e:
        if "not enough values to unpack" in str(e):
            return {"err": "no_ranked_groups"}
        raise
    except IndexError as e:
        # multPEP: optimize_hyperparameters indexes an empty score table when no group has evidence
        if "too many indices for array" in str(e):
            return {"err": "no_ranked_groups"}
        raise
    except Exception as e:
        if "No proteins with scores found" in str(e):
            return {"err": "no_ranked_groups"}
        raise
    return {"rows": canon_rows(res)}


# --------------------------------------------------------------------------------------------------
# command-line runs under several hash seeds
# --------------------------------------------------------------------------------------------------
# list-valued options that belong to other input formats than the default (Percolator / MaxQuant) path
OTHER_INPUT_OPTIONS = {"--fragpipe_psm", "--combined_ion", "--sage_results", "--sage_lfq_tsv", "--diann_reports"}
DIG_OPTIONS = ["--enzyme", "--digestion", "--min-length", "--max-length", "--cleavages", "--special-aas"]

# fixed profiles of the first command-line cases of every run (the rest is random): together they give every
# list-valued option of the default path several values in every run
CLI_PROFILES = [
    {"n_fasta": 2, "inputs": ["perc"], "n_ev": 1, "remap": True, "default_method": True, "dups": True},
    {"n_fasta": 3, "inputs": ["mq"], "n_ev": 2, "remap": True, "dups": True},
    {"n_fasta": 2, "inputs": ["mq"], "n_ev": 1, "remap": "both"},
    {"n_fasta": 1, "inputs": ["mq"], "n_ev": 2, "n_sets": 2, "remap": True, "several": ["--enzyme", "--cleavages", "--min-length"]},
    {"n_fasta": 2, "inputs": ["mq", "perc"], "n_ev": 2, "n_sets": 2, "remap": True, "several": ["--digestion", "--max-length", "--special-aas"]},
    {"map": True, "n_map": 2, "inputs": ["perc"], "n_ev": 2, "remap": True},
    {"n_fasta": 3, "inputs": ["perc"], "n_ev": 3, "remap": "both", "dups": True},
    {"n_fasta": 2, "inputs": ["mq"], "n_ev": 3, "n_sets": 3, "remap": True, "quant": True, "several": DIG_OPTIONS},
]

# command lines RICH IN TIES (gen_cli.gen_tied_*), 2-4 methods per run on ONE random stream: a method named twice, names
# with surrounding spaces (only where the tool's own parser accepts them)
CLI_TIE_PROFILES = [
    {"ties": True, "n_fasta": 1, "inputs": ["perc"], "n_ev": 1, "n_methods": 2},
    {"ties": True, "n_fasta": 2, "inputs": ["mq"], "n_ev": 1, "n_methods": 3, "twice": True},
    {"ties": True, "n_fasta": 1, "inputs": ["perc"], "n_ev": 2, "n_methods": 4},
    {"ties": True, "n_fasta": 1, "inputs": ["mq", "perc"], "n_ev": 1, "n_methods": 3},
    {"ties": True, "n_fasta": 1, "inputs": ["mq"], "n_ev": 1, "n_methods": 2, "spaces": True},
    {"ties": True, "n_fasta": 2, "inputs": ["perc"], "n_ev": 1, "n_methods": 3, "twice": True, "spaces": True},
    # several connected components of groups WITHOUT a peptide of their own whose members are tied (triangles): the
    # graph code of the rescue step decides the member order / leading protein of the merged groups
    {"triangles": True, "n_fasta": 1, "inputs": ["perc"], "n_ev": 1, "remap": True, "default_method": True},
    {"triangles": True, "n_fasta": 2, "inputs": ["mq"], "n_ev": 1, "remap": True},
]


def accepts_spaces():
    """does the tool's own --methods parser accept a name with surrounding spaces?  (asked of the tree under test)"""
    lib.setup_impl_path()
    try:
        from picked_group_fdr import methods as M

        return len(M.get_methods(" picked_protein_group ,picked_protein_group", False)) >= 1
    except BaseException:
        return False


def list_valued_options():
    """options the tool's parser declares with nargs='+' (read from the source of the tree under test)"""
    found = []
    for rel in ("picked_group_fdr.py", "digestion_params.py"):
        try:
            src = (lib.REPO / "picked_group_fdr" / rel).read_text()
        except OSError:
            continue
        for call in src.split("add_argument(")[1:]:
            call = call.split("add_argument(")[0]
            if 'nargs="+"' in call.replace(" ", "") or "nargs='+'" in call.replace(" ", ""):
                names = [x for x in re.findall(r"[\"'](--[A-Za-z_\-]+)[\"']", call.split("help=")[0])]
                if names:
                    found.append(names[-1])
    return sorted(set(found))


def multi_valued(argv):
    """options of an argv that are followed by more than one value ('--methods a,b' counts as two)"""
    out, cur, n = [], None, 0
    for a in list(argv) + ["--end"]:
        if a.startswith("--"):
            if cur and n > 1:
                out.append(cur)
            cur, n = a, 0
        else:
            n += len(a.split(",")) if cur == "--methods" else 1
    return out


def run_cli_once(case, hs):
    """one process of the real command-line tool with PYTHONHASHSEED=hs on the files of `case`; every file it writes
    into its (fresh) working directory is reported"""
    d = Path(tempfile.mkdtemp(prefix="c07_"))
    try:
        for name, text in case["files"].items():
            (d / name).write_text(text)
        wd = d / "run"
        wd.mkdir()
        cmd = [lib.PY, "-m", "picked_group_fdr"] + list(case["argv"])
        p = subprocess.run(cmd, capture_output=True, text=True, env=lib.impl_env({"PYTHONHASHSEED": hs}), timeout=900, cwd=str(wd))
        files, lines = {}, {}
        for f in sorted(wd.rglob("*")):
            if f.is_file():
                b = f.read_bytes()
                files[str(f.relative_to(wd))] = b.decode("utf-8", "replace")
                lines[str(f.relative_to(wd))] = b.count(b"\n") - 1
        return {"hs": hs, "rc": p.returncode, "files": files, "lines": lines, "stderr": p.stderr[-600:]}
    finally:
        import shutil

        shutil.rmtree(d, ignore_errors=True)


def cli_runs_differ(case, rs):
    """None when all processes returned the same code and wrote the same bytes, else a description"""
    ref = rs[0]
    for r in rs[1:]:
        if (r["rc"], r["files"]) == (ref["rc"], ref["files"]):
            continue
        what = "exit codes %s / %s" % (ref["rc"], r["rc"])
        for name in sorted(set(ref["files"]) | set(r["files"])):
            a, b = ref["files"].get(name), r["files"].get(name)
            if a is None or b is None:
                what = "file %s is written by one process only" % name
                break
            if a != b:
                la, lb = a.splitlines(), b.splitlines()
                k = next((i for i, (x, y) in enumerate(zip(la, lb)) if x != y), min(len(la), len(lb)))
                fa = la[k].split("\t")[:2] if k < len(la) else None
                fb = lb[k].split("\t")[:2] if k < len(lb) else None
                what = "%s differs from line %d on: %s / %s" % (name, k + 1, fa, fb)
                break
        return "command-line output differs between PYTHONHASHSEED=%s and %s (%s): %s" % (ref["hs"], r["hs"], describe_cli(case), what)
    return None


def describe_cli(case):
    m = case.get("meta", {})
    return "methods %s, %d fasta file(s), %s" % (m.get("methods"), m.get("n_fasta", 0), " ".join(multi_valued(case["argv"])) or "no multi-valued option")


# --------------------------------------------------------------------------------------------------
# the command line recomputed with the methods in the order given
# --------------------------------------------------------------------------------------------------
def run_in_command_line_order(argv):
    """what `run_picked_group_fdr` does, with the tool's own functions, but with the list of methods taken from
    --methods IN THE ORDER GIVEN, one run per mention (every entry is handed to the tool's `get_methods` on its own, so
    how a single name is spelled / parsed is the tool's business): numpy seeded once with 1, annotations, methods,
    peptide->protein maps if a method needs them, `run_method` per method.  Paths of argv are resolved against the
    current directory, as in the tool."""
    import numpy as np
    from picked_group_fdr import methods as M
    from picked_group_fdr import peptide_protein_map, protein_annotation
    from picked_group_fdr import picked_group_fdr as pgf

    args = pgf.parse_args(list(argv))
    np.random.seed(1)
    ann, use_pseudo = protein_annotation.get_protein_annotations(args.fasta, args.fasta_contains_decoys, args.gene_level, args.fasta_use_uniprot_id)
    cfgs = []
    for name in (args.methods.split(",") if args.methods else [args.methods]):
        cfgs.extend(M.get_methods(name, use_pseudo))
    maps = [None]
    if M.requires_peptide_to_protein_map(cfgs):
        maps = peptide_protein_map.get_peptide_to_protein_maps_from_args(args, use_pseudo)
    plotter = pgf.PlotterFactory.get_plotter(args.figure_base_fn, args.plot_figures)
    for cfg in cfgs:
        pgf.run_method(args, cfg, maps, ann, plotter, use_pseudo, apply_filename_suffix=len(cfgs) > 1)
    return len(cfgs)


def _tree(root):
    out = {}
    for f in sorted(Path(root).rglob("*")):
        if f.is_file():
            out[str(f.relative_to(root))] = f.read_bytes().decode("utf-8", "replace")
    return out


def _in_dir(wd, fn):
    import logging

    cwd = os.getcwd()
    prev = logging.root.manager.disable
    logging.disable(logging.CRITICAL)
    os.chdir(wd)
    try:
        return {"ok": True, "n": fn()}
    except BaseException as e:  # SystemExit of argparse included: the tool refuses the command line
        if isinstance(e, KeyboardInterrupt):
            raise
        return {"ok": False, "exc": "%s: %s" % (type(e).__name__, str(e)[:200])}
    finally:
        os.chdir(cwd)
        logging.disable(prev)


def recompute_in_order(case):
    """the files of a "cli-hashseed" case recomputed in this process in command-line order"""
    lib.setup_impl_path()
    d = Path(tempfile.mkdtemp(prefix="c07o_"))
    try:
        for name, text in case["files"].items():
            (d / name).write_text(text)
        wd = d / "run"
        wd.mkdir()
        r = _in_dir(str(wd), lambda: run_in_command_line_order(case["argv"]))
        r["files"] = _tree(wd)
        return r
    finally:
        import shutil

        shutil.rmtree(d, ignore_errors=True)


def differs_from_command_line_order(case, runs, inorder):
    """None, or how the files a process wrote differ from the recomputation in command-line order (judged when both
    completed: whether a command line is accepted at all is not this property's business)"""
    if not inorder or not inorder.get("ok"):
        return None
    for r in runs:
        if r["rc"] != 0 or r["files"] == inorder["files"]:
            continue
        what = "the sets of files differ: %s / %s" % (sorted(r["files"]), sorted(inorder["files"]))
        for name in sorted(set(r["files"]) & set(inorder["files"])):
            a, b = r["files"][name], inorder["files"][name]
            if a != b:
                la, lb = a.splitlines(), b.splitlines()
                k = next((i for i, (x, y) in enumerate(zip(la, lb)) if x != y), min(len(la), len(lb)))
                what = "%s differs from line %d on: %s / %s" % (name, k + 1, la[k].split("\t")[:2] if k < len(la) else None,
                                                               lb[k].split("\t")[:2] if k < len(lb) else None)
                break
        return ("the process with PYTHONHASHSEED=%s did not write what the methods of --methods give when run in the order given "
                "on one generator seeded with 1 (%s): %s" % (r["hs"], describe_cli(case), what))
    return None


def tie_stats(files):
    """(rows, rows that share their score with another row, tie blocks holding a target and a decoy) over the tables"""
    rows = tied = mixed = 0
    for text in files.values():
        ls = [ln.split("\t") for ln in text.splitlines()]
        if not ls or "Score" not in ls[0] or "Protein IDs" not in ls[0]:
            continue
        si, pi = ls[0].index("Score"), ls[0].index("Protein IDs")
        blocks = {}
        for r in ls[1:]:
            if len(r) > max(si, pi):
                blocks.setdefault(r[si], []).append(r[pi].startswith(("REV__", "rev_")))
        rows += len(ls) - 1
        tied += sum(len(b) for b in blocks.values() if len(b) > 1)
        mixed += sum(1 for b in blocks.values() if len(set(b)) > 1)
    return rows, tied, mixed


# --------------------------------------------------------------------------------------------------
# the real main(argv) in-process with the permutations recorded at process level ("cli_stream")
# --------------------------------------------------------------------------------------------------
STREAM_SHARE = 0.12


def coarsen(case, levels):
    """PEPs of a cli_model case mapped onto a grid of one to three values (a function of the old value, so that a file
    mentioned twice keeps equal rows): many groups then share exactly the same best PEP"""
    grid = sorted(gen_pil.PEP_GRID)
    for files in case["evidence"].values():
        for rows in files:
            for r in rows:
                if r["score"] != "nan":
                    x = pipeline.fl(r["score"])
                    k = min(range(len(grid)), key=lambda i: abs(grid[i] - x))
                    r["score"] = rat(float(levels[k % len(levels)]))
    return case


def gen_stream_case(rng, tier):
    """a cli_model command line (MaxQuant / Percolator methods) with at least two methods and tie-rich evidence"""
    c = None
    for _ in range(30):
        c = cli_model.gen_case(rng, tier, only_inputs=("mq", "perc"))
        if len(c["methods"]) >= 2:
            break
    c = coarsen(c, rng.choice(gen_cli.TIE_LEVELS))
    c["kind"] = "cli_stream"
    c["hashseed"] = rng.choice(["0", "1", "2", "3", "4", "5", "6", "7", str(rng.randint(8, 4000000))])
    return c


def run_stream(case):
    """the recorded in-process run of main(argv), made in a FRESH process under the case's PYTHONHASHSEED (so that what a
    case shows does not depend on the hash seed the harness happens to run under, and a replay sees the same process)"""
    p = subprocess.run([lib.PY, str(VERIF / "harness" / "c07_fresh.py"), "stream"], input=json.dumps(case), capture_output=True, text=True,
                       env=lib.impl_env({"PYTHONHASHSEED": str(case.get("hashseed", "0"))}), timeout=900)
    if p.returncode != 0:
        raise OSError("recorded command-line run failed to start or crashed: " + p.stderr[-600:])
    return json.loads(p.stdout.strip().splitlines()[-1])


def run_stream_here(case):
    import numpy as np

    stream = []
    orig = np.random.shuffle

    def shuffle(x):  # every permutation the PROCESS draws, in the order drawn (cli_model's own recorder calls this one)
        idx = list(range(len(x)))
        orig(idx)
        before = list(x)
        x[:] = [before[i] for i in idx]
        stream.append(idx)

    np.random.shuffle = shuffle
    try:
        out = cli_model.run_impl(case)
    finally:
        np.random.shuffle = orig
    out["_rec"]["stream"] = stream
    # the same command line recomputed in command-line order (own rendering of the files)
    d = tempfile.mkdtemp(prefix="c07s_")
    try:
        work, outdir = os.path.join(d, "work"), os.path.join(d, "out")
        os.makedirs(work)
        os.makedirs(outdir)
        argv = cli_model.render(case, d) + ["--protein_groups_out", os.path.join(outdir, "out.txt")]
        r = _in_dir(work, lambda: run_in_command_line_order(argv))
        files = {}
        for where, dd in (("given", outdir), ("cwd", work)):
            for fn in sorted(os.listdir(dd)):
                if os.path.isfile(os.path.join(dd, fn)):
                    with open(os.path.join(dd, fn), newline="", encoding="utf-8") as fh:
                        files[where + "/" + fn] = fh.read()
        r["files"] = files
        out["_rec"]["inorder"] = r
    finally:
        import shutil

        shutil.rmtree(d, ignore_errors=True)
    return out


def shrink_stream(case):
    ms = case["methods"]
    if len(ms) > 2:
        for i in range(len(ms)):
            yield dict(case, methods=ms[:i] + ms[i + 1:])
    sm = cli_model.shipped()
    read = {cli_model.input_of(sm[n]) for n in ms if n in sm}
    if any(k not in read for k in case["evidence"]):
        yield dict(case, evidence={k: v for k, v in case["evidence"].items() if k in read})
    names = case.get("names") or {}
    for inp, files in case["evidence"].items():
        nm = names.get(inp)
        if len(files) > 1 and len(case["psets"]) == 1:
            for i in range(len(files)):
                c = dict(case, evidence=dict(case["evidence"], **{inp: files[:i] + files[i + 1:]}))
                if nm:
                    c["names"] = dict(names, **{inp: nm[:i] + nm[i + 1:]})
                yield c
        for i, rows in enumerate(files):
            if nm and nm[i] in nm[:i]:
                continue
            n = len(rows)
            for size in sorted({n // 2, n // 4} - {0}, reverse=True):
                for a in range(0, n, size):
                    yield dict(case, evidence=dict(case["evidence"], **{inp: files[:i] + [rows[:a] + rows[a + size:]] + files[i + 1:]}))
    if case["keepAll"]:
        yield dict(case, keepAll=False)


def stream_written(impl_out):
    """the files the real run left behind: per file the last table a method wrote there"""
    last = {}
    for c in impl_out["_rec"]["calls"]:
        if c["written"]:
            last[c["written"]["where"] + "/" + c["written"]["file"]] = c["written"]["text"]
    return last


def tied_pil(rng):
    """a peptide list rich in ties: 4-9 proteins and decoys, one or two peptides each, PEPs from a grid of one to three
    values, targets and decoys interleaved"""
    n = rng.randint(4, 9)
    levels = rng.choice(gen_cli.TIE_LEVELS)
    used, entries = set(), []
    for i in range(1, n + 1):
        for pre in ("", rng.choice(["REV__", "REV__", "rev_"])):
            if rng.random() < 0.85:
                for _ in range(rng.choice([1, 1, 2])):
                    entries.append([gen_pil._pep_name(rng, used), rng.choice(levels), [pre + "P%d" % i]])
    if n >= 2 and rng.random() < 0.4:
        a, b = rng.sample(range(1, n + 1), 2)
        entries.append([gen_pil._pep_name(rng, used), rng.choice(levels), ["P%d" % a, "P%d" % b]])
    rng.shuffle(entries)
    return entries or [[gen_pil._pep_name(rng, used), levels[0], ["P1"]]]



class P(Prop):
    id = "C07"
    quick_cases = 100
    thorough_cases = 1500
    chunk = 10
    rule = (
        "call sequences of 2-5 inputs (structured peptide lists of harness/gen_pil.py, repeated inputs included) on one "
        "reused MethodConfig for a randomly chosen shipped method; non-trivial = at least two calls returned rows and the "
        "inputs differ or a rescue method is used; 35 % of the sequences draw tie-rich lists (tied_pil); 12 % of the cases are whole "
        "command lines with two or more methods and tie-rich evidence run by the real main(argv) in a fresh process under a drawn "
        "PYTHONHASHSEED with the permutations recorded at process level (kind cli_stream, model op cli_stream); distinct by sha1 of the case"
    )
    assumptions = [
        "hash-seed independence is decided by running the real CLI under several PYTHONHASHSEED values (exploration), not by a theorem: CPython's set order and networkx internals are exercised, not modelled",
    ]
    trusted_extra = ["fresh-process reference harness/c07_fresh.py (single call; recorded main(argv) run of the cli_stream cases)",
                     "process-level recorder of numpy.random.shuffle (index list shuffled by the real generator, then applied)",
                     "harness/cli_model.py (generator, recorders, rendering and views of whole command lines)"]
    _stream_shrinks = 0

    def gen_case(self, rng, tier):
        if rng.random() < STREAM_SHARE:
            return gen_stream_case(rng, tier)
        return self.gen_seq_case(rng, tier)

    def gen_seq_case(self, rng, tier):
        ms = method_names()
        # methods whose strategy objects carry per-run state get most of the weight: multPEP (optimised divisor),
        # razor (peptide counts, best scores), rescued grouping (score cutoff, placeholder groups), picked (seen-set)
        fields = {m: pipeline.method_fields(m) for m in ms}
        stateful = [m for m in ms if "multPEP" in fields[m]["scoreType"] or fields[m].get("sharedPeptides") == "razor"
                    or fields[m]["grouping"].startswith("rescued")]
        m = rng.choice(stateful) if (stateful and rng.random() < 0.7) else rng.choice(ms)
        n = rng.randint(2, 5)
        ties = rng.random() < 0.35  # inputs rich in ties: the order inside a tie block shows every dependence on set order
        base = [tied_pil(rng) if (ties and rng.random() < 0.8) else
                gen_pil.gen_pil(rng, tier) if rng.random() < 0.7 else gen_pil.gen_rescue_pil(rng, tier)[0] for _ in range(rng.randint(1, n))]
        # variants that differ in kind from their source: targets only, decoys only, a single peptide, the strongest half
        for b in list(base):
            r = rng.random()
            if r < 0.35:
                v = [e for e in b if not any(q.startswith(("REV__", "rev_")) for q in e[2])]
            elif r < 0.45:
                v = [e for e in b if any(q.startswith(("REV__", "rev_")) for q in e[2])]
            elif r < 0.55:
                v = b[:1]
            elif r < 0.65:
                v = sorted(b, key=lambda e: e[1])[: max(1, len(b) // 2)]
            else:
                continue
            if v:
                base.append(v)
        inputs = [rng.choice(base) for _ in range(n)]
        return {"method": m, "inputs": inputs, "thr": rng.choice(pipeline.THRESHOLDS), "psm": 0.01,
                "keep": rng.random() < 0.3}

    def _sub(self, case, pil):
        return {"kind": "pipeline", "method": case["method"], "pseudo": False, "pil": [[p, rat(x), pr] for p, x, pr in pil],
                "thr": rat(case["thr"]), "psm": rat(case["psm"]), "keepAll": bool(case["keep"])}

    def run_impl(self, case):
        """the call sequence on ONE reused MethodConfig (every call observed with the pipeline recorders, so that
        each can be compared with the Lean model of a call on a fresh object), then every call on a fresh object"""
        if case.get("kind") == "cli_stream":
            return run_stream(case)
        if case.get("kind") == "cli-hashseed":  # a replayed command-line case of the extra stage
            inorder = recompute_in_order(case)
            with ThreadPoolExecutor(8) as ex:
                return {"cli_runs": list(ex.map(lambda hs: run_cli_once(case, hs), case["hashseeds"])), "inorder": inorder}
        from picked_group_fdr import methods

        cfg = methods.parse_method_toml(case["method"], use_pseudo_genes=False)
        seq_full = [pipeline.run_impl(self._sub(case, pil), cfg=cfg) for pil in case["inputs"]]
        fresh_full = [pipeline.run_impl(self._sub(case, pil)) for pil in case["inputs"]]

        def brief(o):
            return {"err": o["err"]} if "err" in o else {"rows": [[r[f] for f in pipeline.ROW_FIELDS] for r in o["rows"]]}

        return {"seq": [brief(o) for o in seq_full], "fresh": [brief(o) for o in fresh_full], "_rec": {"seq_full": seq_full}}

    def model_request(self, case, impl_out):
        if case.get("kind") == "cli_stream":
            if not isinstance(impl_out, dict) or "_rec" not in impl_out:
                return None
            req = cli_model.model_request(case, impl_out)
            req["op"] = "cli_stream"
            for r in req["recs"]:
                r.pop("shuffles", None)  # the model cuts every method's permutations out of the process's stream
            req["stream"] = impl_out["_rec"]["stream"]
            return req
        if case.get("kind") == "cli-hashseed":
            return None  # set order of CPython is exercised, not modelled
        # one model call per real call: the model is a call on a FRESH configuration (PgFdr.Pipeline.run)
        return [pipeline.model_request(self._sub(case, pil), o) for pil, o in zip(case["inputs"], impl_out["_rec"]["seq_full"])]

    def model_view(self, case, resps, impl_out):
        if case.get("kind") == "cli_stream":
            if "proto_err" in resps:
                return resps
            v = {"cli": cli_model.model_view(case, resps, impl_out)}
            if resps.get("err") is None:  # a run that completed draws exactly the permutations the model says
                v["permutations_drawn"] = resps["used"]
                v["order"] = None  # what the MODEL says (methods in command-line order on one stream); see stream_order
            return v
        out = []
        for pil, resp, o in zip(case["inputs"], resps, impl_out["_rec"]["seq_full"]):
            sub = self._sub(case, pil)
            if "proto_err" in resp:
                out.append(resp)
            elif pipeline.near_tie(resp, sub):
                out.append(pipeline.impl_view(sub, o))
            else:
                fi = pipeline.float_identities(sub, resp, o)
                out.append({"float_identity_broken": fi} if fi else pipeline.model_view(sub, resp, o))
        return out

    def impl_view(self, case, impl_out):
        if case.get("kind") == "cli_stream":
            v = {"cli": cli_model.impl_view(case, impl_out)}
            if impl_out.get("err") is None:
                v["permutations_drawn"] = len(impl_out["_rec"]["stream"])
                v["order"] = self.stream_order(case, impl_out)
            return v
        if case.get("kind") == "cli-hashseed":
            return None
        return [pipeline.impl_view(self._sub(case, pil), o) for pil, o in zip(case["inputs"], impl_out["_rec"]["seq_full"])]

    def oracle(self, case, impl_out):
        if case.get("kind") == "cli_stream":
            return self.stream_oracle(case, impl_out)
        if case.get("kind") == "cli-hashseed":
            return cli_runs_differ(case, impl_out["cli_runs"])  # the order recomputation is compared in the extra stage as a disagreement
        for i, (a, b) in enumerate(zip(impl_out["seq"], impl_out["fresh"])):
            if a != b:
                return f"call {i} on a reused configuration object differs from the same call on a fresh one (method {case['method']})"
        # same input twice in the sequence must give the same output
        seen = {}
        for i, pil in enumerate(case["inputs"]):
            k = json.dumps(pil)
            if k in seen and impl_out["seq"][seen[k]] != impl_out["seq"][i]:
                return f"calls {seen[k]} and {i} on the same input differ (method {case['method']})"
            seen.setdefault(k, i)
        return None

    def stream_oracle(self, case, impl_out):
        """The property text (reproducible across processes, hash seeds and repeated calls) does not fix the ORDER in
        which a run processes its methods; that the order is the command line's is what the MODEL says
        (Model/C07Stream.lean).  It is therefore compared as part of the correspondence (`stream_order` in impl_view,
        None in model_view): a tool processing its methods in another deterministic order breaks the correspondence
        (VIOLATION … no-failing-input-found) but is not given a "failing input"; a hash-seed dependent order is a
        failing input of the hash-seed stage (`cli_runs_differ`)."""
        if not isinstance(impl_out, dict) or "_rec" not in impl_out:
            return "no result: %r" % (impl_out,)
        return None

    def stream_order(self, case, impl_out):
        """None, or how the real in-process run departs from "methods in command-line order on one stream": the
        permutations the methods recorded are the process's stream cut in the order of --methods, and the files left
        behind are the ones of the recomputation in command-line order"""
        rec = impl_out["_rec"]
        if impl_out.get("err") is not None:
            return None  # refused / degenerate input: nothing written that could depend on the order
        calls = rec["calls"]
        per_method = [sh for c in calls if c.get("gpr") for sh in c["gpr"]["shuffles"]]
        if per_method != rec["stream"]:
            return ("command line %s: the permutations drawn inside the methods' inference calls (%d) are not the process's random "
                    "stream (%d permutations) in order" % (cli_model.describe(case), len(per_method), len(rec["stream"])))
        ino = rec.get("inorder")
        if ino and ino.get("ok"):
            got = stream_written(impl_out)
            if got != ino["files"]:
                name = next((k for k in sorted(set(got) | set(ino["files"])) if got.get(k) != ino["files"].get(k)), None)
                return ("command line %s (--methods %s): the run did not write what the methods give when run in the order given on one "
                        "generator seeded with 1: %s differs (files %s / %s)" % (cli_model.describe(case), ",".join(case["methods"]), name,
                                                                                 sorted(got), sorted(ino["files"])))
        return None

    def nontrivial(self, case, impl_out):
        if case.get("kind") == "cli_stream":
            return cli_model.nontrivial(case, cli_model.impl_view(case, impl_out)) if isinstance(impl_out, dict) and "methods" in impl_out else False
        if case.get("kind") == "cli-hashseed":
            return any(n >= 2 for r in impl_out.get("cli_runs", []) for n in r["lines"].values())
        return sum(1 for r in impl_out.get("seq", []) if "rows" in r and r["rows"]) >= 2

    def features(self, case, impl_out):
        if case.get("kind") == "cli_stream":
            f = ["kind=cli_stream", "cli_stream:methods=%d" % len(case["methods"])]
            if len(set(case["methods"])) < len(case["methods"]):
                f.append("cli_stream:method_named_twice")
            if isinstance(impl_out, dict) and "_rec" in impl_out:
                f.append("cli_stream:permutations=%d" % len(impl_out["_rec"].get("stream", [])))
                rows, tied, mixed = tie_stats(stream_written(impl_out))
                if tied >= 3:
                    f.append("cli_stream:tie_block")
                if mixed:
                    f.append("cli_stream:target_decoy_tie")
                f.append("cli_stream:err=%s" % impl_out.get("err"))
            return f
        if case.get("kind") == "cli-hashseed":
            f = ["cli-hashseed"] + ["cli-several:" + o for o in multi_valued(case["argv"])]
            if case.get("meta", {}).get("ties"):
                f.append("cli-hashseed:ties")
            return f
        f = ["method=" + case["method"], "calls=%d" % len(case["inputs"])]
        for r in impl_out.get("seq", []):
            f.append("call:" + ("rows" if "rows" in r else r.get("err", "?")))
        return f

    def shrink(self, case):
        if case.get("kind") == "cli_stream":
            # coarse and bounded (every candidate costs a whole command-line run, a recomputation and a model run):
            # fewer methods (never fewer than two: one method has no position in the stream to lose), unread inputs,
            # whole files, then halves / quarters of a file's rows; at most 40 candidates per process
            for c in shrink_stream(case):
                if P._stream_shrinks >= 40:
                    return
                P._stream_shrinks += 1
                yield cli_model.sync_mentions(c)
            return
        if case.get("kind") == "cli-hashseed":
            return
        ins = case["inputs"]
        for i in range(len(ins)):
            if len(ins) > 1:
                yield dict(case, inputs=ins[:i] + ins[i + 1:])
        for i, pil in enumerate(ins):
            for j in range(len(pil)):
                yield dict(case, inputs=ins[:i] + [pil[:j] + pil[j + 1:]] + ins[i + 1:])

    # ------------------------------------------------------------------------------
    def extra(self, ctx):
        tier, seed = ctx["tier"], ctx["seed"]
        if ctx.get("replay"):
            return None
        rng = random.Random(seed * 7919 + 17)
        failures = []
        n_fresh = 10 if tier == "quick" else 120
        n_cli = 16 if tier == "quick" else 96
        hashseeds = ["0", "1", "2", "3", str(rng.randint(4, 4000000))] + (["7", "11", "123", "999"] if tier == "thorough" else [])
        # (1) fresh-process reference
        lib.setup_impl_path()
        jobs = []
        for _ in range(n_fresh):
            c = self.gen_seq_case(rng, tier)
            jobs.append(c)

        def fresh_proc(args):
            case, pil, hs = args
            inp = json.dumps({"method": case["method"], "pil": pil, "thr": case["thr"], "psm": case["psm"], "keep": case["keep"]})
            p = subprocess.run([lib.PY, str(VERIF / "harness" / "c07_fresh.py")], input=inp, capture_output=True, text=True,
                               env=lib.impl_env({"PYTHONHASHSEED": hs}), timeout=600)
            if p.returncode != 0:
                return {"exc": p.stderr[-400:]}
            return json.loads(p.stdout.strip().splitlines()[-1])

        evals = 0
        with ThreadPoolExecutor(16) as ex:
            for case in jobs:
                out = self.run_impl(case)
                hs = rng.choice(hashseeds)
                refs = list(ex.map(fresh_proc, [(case, pil, hs) for pil in case["inputs"]]))
                evals += len(refs)
                for i, (a, b) in enumerate(zip(out["seq"], refs)):
                    if a != b:
                        failures.append({"case": case, "why": f"call {i} in a call sequence differs from a fresh process (PYTHONHASHSEED={hs}) for method {case['method']}",
                                         "impl": {"in_sequence": a, "fresh_process": b}})
                        break
        # (2) CLI under several hash seeds: byte-identical output.  Every case is a self-contained, replayable
        # description (file texts + argv); the first cases follow fixed profiles so that every run covers several FASTA
        # files / evidence files / digestion parameter sets / methods / map files, the rest is drawn at random.
        cli_cases = []
        profiles = CLI_PROFILES + CLI_TIE_PROFILES
        for k in range(n_cli):
            prof = profiles[k] if k < len(profiles) else ({"ties": True} if rng.random() < 0.5 else None)
            c = self.gen_cli_case(rng, prof)
            c["hashseeds"] = list(hashseeds)
            cli_cases.append(c)
        # the recomputation in command-line order (in this process, before the subprocesses are started: it changes
        # the working directory and uses numpy's global generator)
        inorders = [recompute_in_order(c) for c in cli_cases]
        with ThreadPoolExecutor(16) as ex:
            allargs = [(c, hs) for c in cli_cases for hs in hashseeds]
            results = list(ex.map(lambda a: run_cli_once(*a), allargs))
        cli_runs = len(results)
        it = iter(results)
        n_tables = 0
        multi = {}
        ties = {"cases_generated_rich_in_ties": 0, "cases_with_a_tie_block_of_3_or_more_rows": 0, "cases_with_a_target_decoy_tie": 0,
                "cases_with_ties_and_several_methods": 0, "cases_naming_a_method_twice": 0, "cases_with_spaces_around_a_method_name": 0,
                "cases_compared_with_command_line_order": 0, "tool_accepts_spaces_around_method_names": accepts_spaces()}
        for c, ino in zip(cli_cases, inorders):
            rs = [next(it) for _ in hashseeds]
            n_tables += sum(1 for r in rs if r["rc"] == 0 and any(n >= 2 for n in r["lines"].values()))
            for o in multi_valued(c["argv"]):
                multi[o] = multi.get(o, 0) + 1
            rows, tied, mixed = tie_stats(rs[0]["files"])
            names = c["meta"]["methods"]
            ties["cases_generated_rich_in_ties"] += 1 if c["meta"].get("ties") else 0
            ties["cases_with_a_tie_block_of_3_or_more_rows"] += 1 if tied >= 3 else 0
            ties["cases_with_a_target_decoy_tie"] += 1 if mixed else 0
            ties["cases_with_ties_and_several_methods"] += 1 if (tied >= 3 and len(names) > 1) else 0
            ties["cases_naming_a_method_twice"] += 1 if len({n.strip() for n in names}) < len(names) else 0
            ties["cases_with_spaces_around_a_method_name"] += 1 if any(n != n.strip() for n in names) else 0
            ties["cases_compared_with_command_line_order"] += 1 if (ino.get("ok") and any(r["rc"] == 0 for r in rs)) else 0
            why = cli_runs_differ(c, rs)
            order = None if why else differs_from_command_line_order(c, rs, ino)
            if why:
                failures.append({"case": c, "why": why, "impl": {"runs": [dict(r, stderr=r["stderr"][-300:]) for r in rs],
                                                                 "command_line_order": ino}})
            elif order:
                # not demanded by the property text (any deterministic order is reproducible): a departure from what the
                # model says, reported as a broken correspondence
                failures.append({"case": c, "why": None, "impl": {"runs": [dict(r, stderr=r["stderr"][-300:]) for r in rs]},
                                 "disagree": {"impl": order, "model": "methods run in command-line order on one generator seeded with 1 (Model/C07Stream.lean)"}})
        declared = list_valued_options()
        info = {"fresh_process_calls": evals, "cli_runs": cli_runs, "cli_runs_with_a_table": n_tables, "hashseeds": hashseeds,
                "cli_cases": len(cli_cases), "cli_ties": ties,
                "cli_cases_with_several_values_of": dict(sorted(multi.items())),
                "list_valued_options_declared_by_the_tool": declared,
                "list_valued_options_of_other_input_formats_not_exercised": sorted(set(declared) & OTHER_INPUT_OPTIONS),
                "list_valued_options_never_given_several_values": sorted(set(declared) - OTHER_INPUT_OPTIONS - set(multi))}
        return {"evaluations": evals + cli_runs, "failures": failures, "info": info}

    # --- helpers for CLI inputs ---------------------------------------------------------
    def _method_table(self):
        """shipped methods of the default path: name -> (input kind 'mq' | 'perc', remaps, label)"""
        import tomllib

        out = {}
        for name in method_names():
            d = tomllib.loads((lib.REPO / "picked_group_fdr" / "methods" / f"{name}.toml").read_text())
            st = d.get("scoreType", "")
            if any(x in st for x in ("FragPipe", "Sage", "DIA-NN")):
                continue
            if "Perc" in st:
                out[name] = ("perc", "remap" in st, d.get("label"))
            else:
                out[name] = ("mq", "no_remap" not in st, d.get("label"))
        return out

    def _mq_method(self, name):
        t = self._method_table().get(name)
        return bool(t) and t[0] == "mq"

    def gen_cli_case(self, rng, profile=None):
        """a self-contained command-line case: {"kind": "cli-hashseed", "files": {name: text}, "argv": [...], "meta": {...}}.
        One to three FASTA files (the database is split so that proteins sharing peptides - and copies of a protein under
        another identifier - sit in different files) or one/several peptide-protein map files, one to three evidence files
        per input kind, one or several digestion parameter sets, one to three methods (remapping and not)."""
        pf = dict(profile or {})
        table = self._method_table()
        use_map = pf.get("map", profile is None and rng.random() < 0.12)
        n_fasta = pf.get("n_fasta", rng.choice([1, 2, 2, 3]))
        kinds = pf.get("inputs") or rng.choice([["mq"], ["mq"], ["perc"], ["perc"], ["mq", "perc"]])
        n_ev = pf.get("n_ev", rng.choice([1, 1, 2, 3]))
        n_sets = pf.get("n_sets", n_ev if (n_ev > 1 and not use_map and rng.random() < 0.35) else 1)
        remap = pf.get("remap", rng.choice([True, True, False, "both"]))
        ties = bool(pf.get("ties"))
        if ties:
            n_sets, use_map = 1, False
        # --- methods
        chosen = []
        for kind in kinds:
            def pick(want):
                c = [m for m, t in table.items() if t[0] == kind and t[1] == want and t[2] not in {table[x][2] for x in chosen}]
                c = c or [m for m, t in table.items() if t[0] == kind and t[1] == want]
                return rng.choice(sorted(c)) if c else None
            wants = [True, False] if remap == "both" else [bool(remap)]
            for w in wants:
                m = "picked_protein_group" if (pf.get("default_method") and kind == "perc" and w and "picked_protein_group" in table) else pick(w)
                if m and m not in chosen:
                    chosen.append(m)
        if not chosen:
            chosen = [rng.choice(sorted(table))]
        if remap == "both" and rng.random() < 0.5:
            chosen.reverse()
        if ties:
            # 2-4 methods of the given input kinds on one random stream, in an order that is seldom alphabetical; a
            # method may be named twice (it is then run twice and its file written twice)
            k = pf.get("n_methods", rng.choice([2, 2, 3, 4]))
            pool = sorted(m for m, t in table.items() if t[0] in kinds)
            chosen = [rng.choice(pool) for _ in range(k)]
            if len(set(chosen)) < 2 and len(pool) > 1:
                chosen[1] = rng.choice([m for m in pool if m != chosen[0]])
            if k >= 3 and pf.get("twice", rng.random() < 0.3):
                chosen[-1] = chosen[0]
                if len(set(chosen)) < 2 and len(pool) > 1:
                    chosen[1] = rng.choice([m for m in pool if m != chosen[0]])
            if chosen == sorted(chosen) and rng.random() < 0.7:
                chosen.reverse()
            if pf.get("spaces", rng.random() < 0.3) and accepts_spaces():
                chosen = [rng.choice([" %s", "%s ", " %s ", "%s"]) % m for m in chosen]
        # --- database
        tri = bool(pf.get("triangles"))
        db = (gen_cli.gen_triangle_database(rng) if tri else gen_cli.gen_tied_database(rng) if ties
              else gen_cli.gen_database(rng, n_prot=rng.choice([None, None, 6, 8])))
        if pf.get("dups", rng.random() < (0.2 if ties else 0.5)):
            db = gen_cli.add_duplicates(rng, db)
        files, argv = {}, []
        if use_map:
            n_map = pf.get("n_map", rng.choice([1, n_ev]))
            names = []
            for i in range(n_map):
                files["map%d.tsv" % i] = gen_cli.peptide_protein_map_text(db, min_len=rng.choice([5, 6]), mc=rng.choice([0, 0, 1]))
                names.append("../map%d.tsv" % i)
            argv += ["--peptide_protein_map"] + names
            parts = []
        else:
            parts = gen_cli.split_database(rng, db, n_fasta)
            if rng.random() < 0.3:
                rng.shuffle(parts)
            names = []
            for i, part in enumerate(parts):
                files["db%d.fasta" % i] = "".join(gen_cli.fasta_text(part, rng))
                names.append("../db%d.fasta" % i)
            argv += ["--fasta"] + names
        # --- evidence
        psms = gen_cli.gen_tied_psms(rng, db, n_exp=rng.randint(1, 2)) if (ties or tri) else gen_cli.gen_psms(rng, db, n_exp=rng.randint(1, 3))
        for kind in kinds:
            names = []
            for i, rows in enumerate(gen_cli.split_psms(rng, psms, n_ev)):
                name = ("evidence%d.txt" if kind == "mq" else "pout%d.txt") % i
                files[name] = gen_cli.evidence_text(rows) if kind == "mq" else gen_cli.percolator_text(rows)
                names.append("../" + name)
            argv += ["--mq_evidence" if kind == "mq" else "--perc_evidence"] + names
        argv += ["--methods", ",".join(chosen), "--protein_groups_out", "pg.txt"]
        # --- digestion parameters: every flag is omitted, given once, or given once per parameter set
        if not use_map:
            vals = {"--enzyme": ["trypsin", "trypsin", "trypsinp", "lys-c", "arg-c"], "--digestion": ["full", "full", "full", "semi"],
                    "--min-length": [5, 5, 6, 7], "--max-length": [30, 60, 60], "--cleavages": [0, 0, 1, 2], "--special-aas": ["KR", "KR", "K", "none", "R"]}
            several = set()
            if n_sets > 1 and pf.get("several"):
                several = set(pf["several"])
            elif n_sets > 1:
                several = {o for o in DIG_OPTIONS if rng.random() < 0.4} or {rng.choice(["--min-length", "--cleavages", "--enzyme"])}
            if ties:  # the evidence was drawn from the fully tryptic digest: only flags that keep those peptides
                argv += ["--min-length", str(rng.choice([5, 6])), "--cleavages", str(rng.choice([0, 1, 2]))]
            elif n_sets == 1 and rng.random() < 0.08:
                argv += ["--enzyme", "no_enzyme"] if rng.random() < 0.5 else ["--digestion", "none"]
                argv += ["--min-length", "5", "--max-length", "14"]
            else:
                for o in DIG_OPTIONS:
                    if o in several:
                        argv += [o] + [str(rng.choice(vals[o])) for _ in range(n_sets)]
                    elif o in ("--min-length", "--cleavages") or rng.random() < 0.3:
                        argv += [o, str(rng.choice(vals[o]))]
        if pf.get("quant", kinds == ["mq"] and not ties and rng.random() < 0.5):
            argv.append("--do_quant")
            if rng.random() < 0.5:
                argv += ["--lfq_min_peptide_ratios", "1"]
        if rng.random() < 0.3:
            argv.append("--keep_all_proteins")
        if rng.random() < 0.3:
            argv += ["--protein_group_fdr_threshold", repr(rng.choice(pipeline.THRESHOLDS))]
        argv.append("--suppress_missing_peptide_warning")
        meta = {"methods": chosen, "ties": ties, "n_fasta": len(parts), "n_evidence": n_ev, "n_param_sets": n_sets, "inputs": kinds,
                "peptides_shared_across_fasta_files": len(gen_cli.shared_across_files(parts)) if parts else 0,
                "proteins": len(db)}
        return {"kind": "cli-hashseed", "files": files, "argv": argv, "meta": meta}
