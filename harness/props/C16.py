"""C16 — skip-if-present pipeline outputs are published atomically.

What is tied to what:

* The Lean machine `PgFdr.C16.runJob` (driver op "fsrun") is compared with the REAL steps
  (`update_evidence_from_pout.main`, `andromeda2pin.main`, and the loops `pipeline.run_update_evidence` /
  `pipeline.run_andromeda_to_pin`) run in a SUBPROCESS under `harness/crash_runner.py`, which wraps
  builtins.open, os.rename/replace/remove from outside, logs every operation below the output directory
  and kills the process (os._exit) at a chosen operation / byte.  For every invocation of a history the
  logged operation sequence must equal the model's operation sequence (trace conformance) and the bytes
  of every file in the output directory afterwards must equal the model's file system.
* The oracle states the property directly on the directory: after every invocation each final path is
  absent or holds the bytes of an uninterrupted run; a complete invocation leaves every final complete;
  files that existed before keep bytes, inode and mtime; no operation but `rename(tmp, final)` names a
  final path.
* `extra`: FAULT ENUMERATION — every kill point (after each operation: open, each row, close, rename; and
  inside rows at byte offsets; with and without flushing CPython's buffer) followed by re-runs.  Thorough
  tier: the syscalls of an uninterrupted run are read with strace and must have the model's shape too.

A case = {"step", "input", "pre": {relpath: text}, "history": [null | {"ops": n, "bytes": k, "flush": bool}]}.
"""
import atexit
import csv
import hashlib
import json
import os
import random
import re
import shutil
import subprocess
import sys
import tempfile

import lib
from lib import Prop

RUNNER = str(lib.VERIF / "harness" / "crash_runner.py")

FASTA = """>sp|P1|P1_HUMAN one
MAAAAAAKCCCCCCCKDDDDDDDRGGGGGGGK
>sp|P2|P2_HUMAN two
MEEEEEEEKFFFFFFFRAAAAAAK
>REV__sp|P1|P1_HUMAN one
MKGGGGGGGRDDDDDDDKCCCCCCCKAAAAAA
"""
PEPTIDES = ["AAAAAAK", "CCCCCCCK", "DDDDDDDR", "GGGGGGGK", "EEEEEEEK", "FFFFFFFR", "XXXXXXXK", "AAK"]
EV_HDR = [
    "Sequence",
    "Modified sequence",
    "Raw file",
    "MS/MS scan number",
    "Charge",
    "Mass",
    "Proteins",
    "Score",
    "Delta score",
    "PEP",
    "Type",
    "Reverse",
    "Potential contaminant",
    "Experiment",
]

# ------------------------------------------------------------------------------------------
# the zygote launcher (one per worker process)
# ------------------------------------------------------------------------------------------
_server = {"pid": None, "proc": None}


def _get_server():
    if _server["pid"] != os.getpid() or _server["proc"] is None or _server["proc"].poll() is not None:
        p = subprocess.Popen(
            [lib.PY, RUNNER, "--serve"],
            stdin=subprocess.PIPE,
            stdout=subprocess.PIPE,
            stderr=subprocess.DEVNULL,
            text=True,
            env=lib.impl_env(),
        )
        line = p.stdout.readline()
        if line.strip() != "ready":
            raise RuntimeError("crash_runner --serve did not start: %r" % line)
        _server["pid"], _server["proc"] = os.getpid(), p
        atexit.register(_stop_server)
    return _server["proc"]


def _stop_server():
    p = _server.get("proc")
    if p is not None and _server.get("pid") == os.getpid():
        try:
            p.stdin.close()
            p.wait(timeout=5)
        except Exception:
            p.kill()
        _server["proc"] = None


def launch(spec_path):
    """one run of the launcher in a fresh child process; returns its exit status"""
    if os.environ.get("C16_STANDALONE"):
        return subprocess.run([lib.PY, RUNNER, spec_path], env=lib.impl_env(), capture_output=True).returncode
    p = _get_server()
    p.stdin.write(spec_path + "\n")
    p.stdin.flush()
    line = p.stdout.readline()
    if not line:
        raise RuntimeError("crash_runner --serve died")
    return int(line.strip())


# ------------------------------------------------------------------------------------------
def lines_of(b):
    """the rows of a tsv file as written by csv.writer (\\r\\n terminated; fields hold no line breaks)"""
    out = b.split(b"\r\n")
    assert out[-1] == b"", "output does not end with CRLF"
    return [x + b"\r\n" for x in out[:-1]]


def snapshot(d):
    fs = {}
    for root, _, files in os.walk(d):
        for f in files:
            p = os.path.join(root, f)
            with open(p, "rb") as fh:
                st = os.stat(p)
                fs[os.path.relpath(p, d)] = {"hex": fh.read().hex(), "mtime_ns": st.st_mtime_ns, "ino": st.st_ino}
    return fs


class P(Prop):
    id = "C16"
    level = "proof"
    quick_cases = 12
    thorough_cases = 96
    chunk = 1
    trusted_extra = [
        "harness/crash_runner.py (operation log and kill injection from outside the repository)",
        "strace (thorough tier: syscall-level trace of an uninterrupted run)",
    ]
    assumptions = [
        "rename(2) replaces the destination atomically; no power loss (what was handed to the kernel before the kill is what a later run sees)",
        "the complete output of a step is what an uninterrupted run in a fresh directory writes (reference run in the worker process)",
        "one invocation at a time per output directory (no concurrent pipeline runs)",
    ]
    rule = (
        "steps merge / pin / pipe_merge (2-3 outputs) / pipe_pin (2 outputs) on generated evidence (+ result files, fasta), "
        "0-7 rows per output, optional pre-existing final (arbitrary bytes) and stale .tmp; the engine cases run "
        "[complete, re-run]; the extra stage enumerates for each input every kill point (after every operation, inside "
        "rows at byte offsets, with and without flush) followed by re-runs, plus random multi-crash histories; "
        "non-trivial = at least one output is written with >= 2 rows; distinct by sha1 of the case"
    )

    # ------------------------------------------------------------------ generation
    def _gen_evidence(self, rng, nrows, tag):
        raws = [f"raw_{tag}_1", f"raw_{tag}_2"]
        rows = []
        for i in range(nrows):
            pep = rng.choice(PEPTIDES)
            mbr = rng.random() < 0.1
            mod = ("(ac)" if rng.random() < 0.15 else "") + pep
            rows.append(
                [
                    pep,
                    "_" + mod + "_",
                    rng.choice(raws),
                    "" if mbr else str(rng.randint(1, 6)),
                    str(rng.randint(2, 4)),
                    rng.choice(["600.5", "800.25", "1234.5678"]),
                    rng.choice(["P1", "P2", "P1;P2", "CON__P3"]),
                    "NaN" if mbr else rng.choice(["55.5", "30", "0", "12.125"]),
                    rng.choice(["10.1", "5", "0"]),
                    "NaN" if mbr else rng.choice(["0.01", "0.2"]),
                    "MULTI-MATCH" if mbr else "MULTI-MSMS",
                    rng.choice(["", "+"]),
                    "",
                    "E1",
                ]
            )
        return [list(EV_HDR)] + rows

    def _gen_results(self, rng, evidence_files):
        keys = []
        for f in evidence_files:
            for r in f[1:]:
                if r[3]:
                    keys.append((r[2], r[3], r[1][1:-1]))
        files = []
        for _ in range(rng.choice([0, 1, 2])):
            rows = [["PSMId", "score", "q-value", "posterior_error_prob", "peptide", "proteinIds"]]
            for _ in range(rng.randint(0, 6)):
                if keys and rng.random() < 0.8:
                    raw, scan, mod = rng.choice(keys)
                else:
                    raw, scan, mod = "raw_x_1", "3", "AAAAAAK"
                rows.append(
                    [
                        f"{raw}_{scan}_2_1",
                        rng.choice(["2.5", "-0.125", "0.75"]),
                        "0.01",
                        rng.choice(["0.001", "0.05", "0.5"]),
                        "-." + mod.replace("(ac)", "[42]") + ".-",
                        "P1",
                    ]
                )
            files.append(rows)
        return files

    def gen_input(self, rng, force_step=None, force_pre=None):
        step = force_step or rng.choice(["merge", "merge", "pin", "pin", "pipe_merge", "pipe_pin"])
        nrows = lambda: rng.choice([0, 1, 2, 3, 4, 5, 7])  # noqa: E731
        if step == "merge":
            ev = [self._gen_evidence(rng, nrows(), i) for i in range(rng.choice([1, 1, 2]))]
            inp = {"evidence": ev, "results": self._gen_results(rng, ev)}
        elif step == "pin":
            inp = {"evidence": [self._gen_evidence(rng, nrows(), 0)]}
        elif step == "pipe_merge":
            ev = [self._gen_evidence(rng, nrows(), i) for i in range(rng.choice([2, 2, 3]))]
            res = self._gen_results(rng, ev)
            while not res:  # run_update_evidence passes "--perc_results" unconditionally: argparse needs >= 1 file
                res = self._gen_results(rng, ev)
            inp = {"evidence": ev, "results": res}
        else:
            inp = {"evidence": [self._gen_evidence(rng, nrows(), i) for i in range(2)]}
        pre = {}
        finals = self.finals(step, inp)
        r = rng.random()
        if force_pre == "final":
            r = 0.0
        elif force_pre == "tmp":
            r = 0.3
        elif force_pre == "none":
            r = 1.0
        if r < 0.2:
            pre[rng.choice(finals)] = rng.choice(["OLD CONTENT\r\n", "", "Sequence\tModified seq"])
        elif r < 0.4:
            pre[rng.choice(finals) + ".tmp"] = rng.choice(["stale partial row\t1\t2", "x" * 300])
        return {"step": step, "input": inp, "pre": pre}

    def gen_big(self, rng):
        n = rng.randint(250, 400)
        if rng.random() < 0.5:
            return {"step": "merge", "input": {"evidence": [self._gen_evidence(rng, n, 0)], "results": []}, "pre": {}}
        ev = self._gen_evidence(rng, n, 0)
        for r in ev[1:]:
            r[0], r[1] = "AAAAAAK", "_AAAAAAK_"
            r[3] = r[3] or "1"
            r[7] = "55.5"
        return {"step": "pin", "input": {"evidence": [ev]}, "pre": {}}

    def gen_case(self, rng, tier):
        c = self.gen_input(rng)
        c["history"] = [None, None]
        return c

    @staticmethod
    def finals(step, inp):
        if step == "merge":
            return ["evidence_out.txt"]
        if step == "pin":
            return ["pin.tab"]
        if step == "pipe_merge":
            return [f"evidence_{i}.txt" for i in range(len(inp["evidence"]))]
        return [f"pin_{i}.tab" for i in range(len(inp["evidence"]))]

    # ------------------------------------------------------------------ running the real steps
    @staticmethod
    def _write_rows(path, rows):
        with open(path, "w", newline="") as fh:
            csv.writer(fh, delimiter="\t").writerows(rows)

    def materialise(self, case, d):
        """writes the inputs below d/in; returns the launcher spec (without watch / log / kill) for output dir `out`"""
        ind = os.path.join(d, "in")
        os.makedirs(ind, exist_ok=True)
        inp = case["input"]
        ev = []
        for i, f in enumerate(inp["evidence"]):
            p = os.path.join(ind, f"evidence_in_{i}.txt")
            self._write_rows(p, f)
            ev.append(p)
        res = []
        for i, f in enumerate(inp.get("results", [])):
            p = os.path.join(ind, f"pout_{i}.txt")
            self._write_rows(p, f)
            res.append(p)
        fasta = os.path.join(ind, "db.fasta")
        with open(fasta, "w") as fh:
            fh.write(FASTA)

        def spec_for(out):
            step = case["step"]
            if step == "merge":
                args = ["--mq_evidence"] + ev + ["--mq_evidence_out", os.path.join(out, "evidence_out.txt")]
                if res:
                    args += ["--perc_results"] + res
                return {"step": step, "args": args}
            if step == "pin":
                return {"step": step, "args": ev + ["--outputTab", os.path.join(out, "pin.tab"), "--databases", fasta]}
            if step == "pipe_merge":
                return {
                    "step": step,
                    "evidence": ev,
                    "pout": res,
                    "out": [os.path.join(out, f"evidence_{i}.txt") for i in range(len(ev))],
                }
            return {"step": step, "evidence": ev, "fasta": [fasta], "outdir": out}

        return spec_for

    @staticmethod
    def run_in_process(spec):
        """uninterrupted, uninstrumented run of the step in this (worker) process"""
        step = spec["step"]
        if step == "merge":
            from picked_group_fdr.pipeline import update_evidence_from_pout as u

            u.main(spec["args"])
        elif step == "pin":
            from picked_group_fdr.pipeline import andromeda2pin as a

            a.main(spec["args"])
        elif step == "pipe_merge":
            from picked_group_fdr.pipeline import pipeline

            pipeline.run_update_evidence(spec["evidence"], spec["pout"], spec["out"], "andromeda", True)
        else:
            from picked_group_fdr.pipeline import pipeline
            from picked_group_fdr.digestion_params import DigestionParams

            pipeline.run_andromeda_to_pin(
                spec["evidence"], spec["fasta"], spec["outdir"], [DigestionParams() for _ in spec["evidence"]], True
            )

    def reference(self, case, d, spec_for):
        ref = os.path.join(d, "ref")
        os.makedirs(ref, exist_ok=True)
        try:
            self.run_in_process(spec_for(ref))
        except SystemExit as e:  # argparse: must not take the worker process down
            raise RuntimeError("the step called sys.exit(%r) in the reference run" % (e.code,))
        outs = []
        for f in self.finals(case["step"], case["input"]):
            with open(os.path.join(ref, f), "rb") as fh:
                b = fh.read()
            outs.append({"final": f, "chunks": [x.hex() for x in lines_of(b)]})
        extra = sorted(set(os.listdir(ref)) - {o["final"] for o in outs})
        return outs, extra

    @staticmethod
    def _scratch_parent(case):
        """half of the cases work in a directory on ANOTHER file system than the system temp directory (when the
        sandbox has one: /dev/shm), so that a step which prepares its output under $TMPDIR and 'moves' it into place
        (a copy across file systems) is observed writing under the final name"""
        try:
            alt = "/dev/shm"
            if os.path.isdir(alt) and os.access(alt, os.W_OK) and os.stat(alt).st_dev != os.stat(tempfile.gettempdir()).st_dev:
                h = hashlib.sha1(json.dumps([case.get("step"), case.get("history")], sort_keys=True, default=str).encode()).digest()[0]
                if h % 2 == 0:
                    return alt
        except OSError:
            pass
        return None

    def run_impl(self, case):
        d = tempfile.mkdtemp(prefix="c16_", dir=self._scratch_parent(case))
        try:
            spec_for = self.materialise(case, d)
            outputs, ref_extra = self.reference(case, d, spec_for)
            out = os.path.join(d, "out")
            os.makedirs(out)
            for relp, text in case.get("pre", {}).items():
                with open(os.path.join(out, relp), "w", newline="") as fh:
                    fh.write(text)
                os.utime(os.path.join(out, relp), ns=(10**18, 10**18))  # a recognisable old mtime
            pre_snap = snapshot(out)
            runs = []
            for i, kill in enumerate(case["history"]):
                spec = spec_for(out)
                log = os.path.join(d, f"log_{i}.jsonl")
                spec.update({"watch": out, "log": log, "kill": kill})
                sp = os.path.join(d, f"spec_{i}.json")
                with open(sp, "w") as fh:
                    json.dump(spec, fh)
                if kill is not None and "strace_write" in kill:
                    # kernel-level kill: SIGKILL on entering the w-th write(2) on a temporary file of this step
                    spec["kill"] = None
                    with open(sp, "w") as fh:
                        json.dump(spec, fh)
                    cmd = ["strace", "-f", "-o", "/dev/null", "-e", "trace=write"]
                    for f in self.finals(case["step"], case["input"]):
                        cmd += ["-P", os.path.join(out, f + ".tmp")]
                    cmd += ["-e", "inject=write:signal=SIGKILL:when=%d" % kill["strace_write"], lib.PY, RUNNER, sp]
                    rc = subprocess.run(cmd, env=lib.impl_env(), capture_output=True).returncode
                else:
                    rc = launch(sp)
                entries = []
                if os.path.exists(log):
                    with open(log) as fh:
                        entries = [json.loads(l) for l in fh if l.strip()]
                runs.append({"rc": rc, "log": entries, "fs": snapshot(out)})
            return {"outputs": outputs, "ref_extra": ref_extra, "pre": pre_snap, "runs": runs}
        finally:
            shutil.rmtree(d, ignore_errors=True)

    # ------------------------------------------------------------------ views
    @staticmethod
    def _trace(log):
        t = []
        for e in log:
            if e[0] == "open":
                t.append(["open", e[1]] if e[2] == "w" else ["open", e[1], e[2]])
            elif e[0] in ("write", "close", "rename", "remove"):
                t.append(list(e))
        return t

    def _model_crash(self, case, impl_out, i):
        """the model's crash for invocation i.  A kill without flush is located from the bytes that reached
        the temporary file (CPython's buffer is lost): the kernel saw `open` and a prefix of the appends."""
        kill = case["history"][i]
        if kill is None:
            return None
        run = impl_out["runs"][i]
        if "strace_write" in kill:
            if run["rc"] == 0:
                # the step issued fewer write(2) calls than the injection point: it ran through (counted as the feature
                # `strace_kill_not_reached`; the stage fails as a harness error if NO injected kill ever fires)
                return None
            kill = {"ops": 0, "flush": False}
        if kill.get("flush", True):
            return {"ops": kill["ops"], "bytes": kill.get("bytes", 0)}
        tr = self._trace(run["log"])
        # position of the last open in the python-level trace, and what follows it
        last_open = max((j for j, e in enumerate(tr) if e[0] == "open"), default=None)
        if last_open is None or any(e[0] in ("close", "rename") for e in tr[last_open:]):
            return {"ops": kill["ops"], "bytes": 0}  # nothing buffered at the kill
        path = tr[last_open][1]
        on_disk = bytes.fromhex(run["fs"].get(path, {"hex": ""})["hex"])
        L = len(on_disk)
        n, k = last_open + 1, 0
        for e in tr[last_open + 1 :]:
            sz = len(e[2]) // 2
            if L >= sz:
                n, L = n + 1, L - sz
            else:
                k = L
                L = 0
                break
        return {"ops": n, "bytes": k}

    def model_request(self, case, impl_out):
        if not isinstance(impl_out, dict) or "runs" not in impl_out:
            return None
        watch = set(case.get("pre", {}))
        for o in impl_out["outputs"]:
            watch |= {o["final"], o["final"] + ".tmp"}
        for r in impl_out["runs"]:
            watch |= set(r["fs"])
        return {
            "op": "fsrun",
            "initial": [[p, t.encode().hex()] for p, t in sorted(case.get("pre", {}).items())],
            "outputs": impl_out["outputs"],
            "runs": [self._model_crash(case, impl_out, i) for i in range(len(case["history"]))],
            "watch": sorted(watch),
        }

    def _noflush(self, case, i):
        k = case["history"][i]
        # interrupt mode: the unwinding interpreter closes the temporary file, so the python-level trace has a
        # `close` the model's crashed program does not issue; the directory contents are compared all the same
        return k is not None and (not k.get("flush", True) or "strace_write" in k or k.get("mode") == "interrupt")

    def model_view(self, case, resp, impl_out):
        if "runs" not in resp:
            return resp
        out = []
        for i, r in enumerate(resp["runs"]):
            fs = {p: c for p, c in r["fs"] if c is not None}
            out.append({"trace": "n/a (kill without flush / by signal)" if self._noflush(case, i) else r["trace"], "fs": fs})
        return {"runs": out}

    def impl_view(self, case, impl_out):
        if not isinstance(impl_out, dict) or "runs" not in impl_out:
            return impl_out
        out = []
        for i, r in enumerate(impl_out["runs"]):
            out.append(
                {
                    "trace": "n/a (kill without flush / by signal)" if self._noflush(case, i) else self._trace(r["log"]),
                    "fs": {p: v["hex"] for p, v in r["fs"].items()},
                }
            )
        return {"runs": out}

    # ------------------------------------------------------------------ the property, stated directly
    def oracle(self, case, impl_out):
        if not isinstance(impl_out, dict) or "runs" not in impl_out:
            return "no result: %r" % (impl_out,)
        complete = {o["final"]: "".join(o["chunks"]) for o in impl_out["outputs"]}
        # (files an uninterrupted run leaves next to its outputs are not forbidden by the property; they show up in the
        #  directory comparison with the model, i.e. as a correspondence difference, not as a failing input)
        pre = impl_out["pre"]
        for i, (kill, run) in enumerate(zip(case["history"], impl_out["runs"])):
            where = f"invocation {i} ({'complete' if kill is None else 'killed at ' + json.dumps(kill)})"
            injected = kill is not None and kill.get("mode") == "interrupt"
            if any(e[0] == "exception" for e in run["log"]):
                exc = next(e for e in run["log"] if e[0] == "exception")
                if not (injected and exc[1] == "KeyboardInterrupt"):
                    return f"{where}: the step raised {exc[1]}: {exc[2]}"
            if kill is None and run["rc"] != 0:
                return f"{where}: exit status {run['rc']}"
            fs = run["fs"]
            for f, want in complete.items():
                if f in pre:
                    continue  # existed before: judged below
                if f in fs and fs[f]["hex"] != want:
                    got = bytes.fromhex(fs[f]["hex"])
                    return (
                        f"{where}: final path {f} exists but holds {len(got)} bytes that are not the complete output "
                        f"({len(want) // 2} bytes)"
                    )
                if kill is None and f not in fs:
                    return f"{where}: final path {f} is missing after a complete invocation"
            for p, v in pre.items():
                if p.endswith(".tmp"):
                    continue  # a stale temporary file may be reused
                if p not in fs:
                    return f"{where}: pre-existing output {p} was removed"
                if fs[p]["hex"] != v["hex"]:
                    return f"{where}: pre-existing output {p} was modified"
                if fs[p]["mtime_ns"] != v["mtime_ns"] or fs[p]["ino"] != v["ino"]:
                    return f"{where}: pre-existing output {p} was rewritten (mtime / inode changed)"
            for e in self._trace(run["log"]):
                named = [x for x in e[1:3] if isinstance(x, str) and x in complete]
                # the property does not fix the temporary name: any rename(x, final) with x not itself a final path may
                # name the final path (the model's `.tmp` name is compared by the trace correspondence, not here)
                if named and not (e[0] == "rename" and e[2] in complete and e[1] not in complete):
                    return f"{where}: operation {e[:3] if e[0] != 'write' else e[:2]} names the final path {named[0]} (only rename(temporary, final) may)"
        return None

    # ------------------------------------------------------------------ bookkeeping
    def nontrivial(self, case, impl_out):
        if not isinstance(impl_out, dict) or "outputs" not in impl_out:
            return False
        pre = case.get("pre", {})
        return any(len(o["chunks"]) >= 3 and o["final"] not in pre for o in impl_out["outputs"])

    def features(self, case, impl_out):
        f = ["step=" + case["step"]]
        if any(not p.endswith(".tmp") for p in case.get("pre", {})):
            f.append("pre_existing_final")
        if any(p.endswith(".tmp") for p in case.get("pre", {})):
            f.append("stale_tmp")
        h = case["history"]
        f.append("history_len=%d" % len(h))
        kills = [k for k in h if k is not None]
        if kills:
            f.append("kills=%d" % len(kills))
        if any(k.get("bytes", 0) > 0 for k in kills):
            f.append("kill_inside_row")
        if any(not k.get("flush", True) for k in kills):
            f.append("kill_without_flush")
        if any("strace_write" in k for k in kills):
            f.append("kill_by_SIGKILL_at_write_syscall")
            if isinstance(impl_out, dict) and any(
                "strace_write" in (k or {}) and r.get("rc") not in (0, None) for k, r in zip(case["history"], impl_out.get("runs", []))
            ):
                f.append("sigkill_fired")
        if isinstance(impl_out, dict) and "outputs" in impl_out:
            n = max((len(o["chunks"]) for o in impl_out["outputs"]), default=0)
            f.append("max_rows=%s" % (n if n < 6 else "6+"))
        return f

    def shrink(self, case):
        import copy

        h = case["history"]
        for i in range(len(h)):
            if len(h) > 1:
                c = copy.deepcopy(case)
                del c["history"][i]
                yield c
        for p in list(case.get("pre", {})):
            c = copy.deepcopy(case)
            del c["pre"][p]
            yield c
        for key in ("evidence", "results"):
            for i, f in enumerate(case["input"].get(key, [])):
                for j in range(len(f) - 1, 0, -1):
                    c = copy.deepcopy(case)
                    del c["input"][key][i][j]
                    yield c
        if case["step"] in ("merge",) and len(case["input"]["evidence"]) > 1:
            c = copy.deepcopy(case)
            del c["input"]["evidence"][-1]
            yield c

    # ------------------------------------------------------------------ fault enumeration
    def kill_histories(self, base, outputs, rng, tier):
        """all kill points of the first invocation for this input, each followed by a complete re-run"""
        pre = base.get("pre", {})
        sizes = []  # byte length per operation of a first complete pass (None for non-writes)
        for o in outputs:
            if o["final"] in pre:
                continue
            sizes += [None] + [len(c) // 2 for c in o["chunks"]] + [None, None]
        total = len(sizes)
        hs = []
        for n in range(total + 1):  # after n complete operations (n = total: after the last rename)
            hs.append([{"ops": n, "bytes": 0, "flush": True}, None])
        for n, sz in enumerate(sizes):  # inside the (n+1)-th operation when it is a write
            if sz is None or sz < 2:
                continue
            offs = {1, sz - 1} if tier == "quick" else {1, 2, sz // 2, sz - 2, sz - 1}
            for k in sorted(x for x in offs if 0 < x < sz):
                hs.append([{"ops": n, "bytes": k, "flush": True}, None])
        # dies with whatever CPython had buffered still unwritten: after every row (quick: every third row)
        # and at every boundary that is not a row (after open, after close, after rename)
        writes = [n for n, sz in enumerate(sizes) if sz is not None]
        pts = set(writes if tier != "quick" else writes[:: max(1, len(writes) // 3)])
        pts |= {n for n, sz in enumerate(sizes) if sz is None}
        for n in sorted(pts):
            hs.append([{"ops": n + 1, "bytes": 0, "flush": False}, None])
        # death by an exception raised at the kill point (SIGINT): cleanup code runs while the interpreter unwinds
        ipts = list(range(total + 1))
        if tier == "quick":
            ipts = sorted(set(ipts[::2]) | set(ipts[-3:]))
        for n in ipts:
            hs.append([{"ops": n, "bytes": 0, "flush": True, "mode": "interrupt"}, None])
        for _ in range(2 if tier == "quick" else 6):  # several crashes before the run that completes
            k = rng.randint(2, 3)
            hist = [{"ops": rng.randint(0, total), "bytes": 0, "flush": rng.random() < 0.8} for _ in range(k)]
            hs.append(hist + [None, None])
        return hs, total

    def extra(self, ctx):
        import multiprocessing as mp

        if ctx.get("replay"):
            return None
        tier, seed = ctx["tier"], ctx["seed"]
        n_inputs = 10 if tier == "quick" else 60
        cases, info = [], {"inputs": n_inputs, "kill_points": 0, "histories": 0, "real_process_runs": 0}
        lib.setup_impl_path()
        for i in range(n_inputs):
            rng = random.Random(f"C16-extra-{seed}-{i}")
            # the first inputs of every run follow fixed profiles, so that every step kind, a pre-existing final output
            # and a stale temporary file are killed at every seed (the rest is drawn)
            profiles = [("merge", "none"), ("pin", "none"), ("pipe_merge", "final"), ("pipe_pin", "final"),
                        ("merge", "tmp"), ("pipe_pin", "none"), ("pin", "final")]
            if i < len(profiles):
                base = self.gen_input(rng, force_step=profiles[i][0], force_pre=profiles[i][1])
            else:
                base = self.gen_input(rng)
            d = tempfile.mkdtemp(prefix="c16x_")
            try:
                outputs, _ = self.reference(base, d, self.materialise(base, d))
            finally:
                shutil.rmtree(d, ignore_errors=True)
            hs, total = self.kill_histories(base, outputs, rng, tier)
            for h in hs:
                c = dict(base)
                c["history"] = h
                cases.append(c)
                info["kill_points"] += sum(1 for k in h if k is not None)
                info["real_process_runs"] += len(h)
            info["histories"] += len(hs)
        if tier == "thorough":
            # a large output (several write(2) calls of CPython's 8 KiB buffer), killed by SIGKILL on entering each of them
            for j in range(3):
                rng = random.Random(f"C16-big-{seed}-{j}")
                big = self.gen_big(rng)
                ops, _, _ = self.strace_case(big)
                nwrites = sum(1 for e in ops if e[0] == "write")
                info.setdefault("big_inputs_write_syscalls", []).append(nwrites)
                for w in range(1, nwrites + 2):
                    c = dict(big)
                    c["history"] = [{"strace_write": w}, None]
                    cases.append(c)
                    info["kill_points"] += 1
                    info["real_process_runs"] += 2
                    info["histories"] += 1
        rng = random.Random(f"C16-order-{seed}")
        rng.shuffle(cases)  # spread the slow cases over the workers
        jobs = [cases[i : i + 8] for i in range(0, len(cases), 8)]
        with mp.get_context("fork").Pool(min(16, max(1, len(jobs)))) as pool:
            results = pool.map(_extra_worker, jobs, chunksize=1)
        failures, feats = [], {}
        for recs in results:
            for r in recs:
                for f in r["features"]:
                    feats[f] = feats.get(f, 0) + 1
                if r["oracle"] is not None or r["disagree"] is not None:
                    failures.append({"case": r["case"], "why": r["oracle"], "impl": None, "disagree": r["disagree"]})
        info["histogram"] = dict(sorted(feats.items()))
        if feats.get("kill_by_SIGKILL_at_write_syscall", 0) > 0 and feats.get("sigkill_fired", 0) == 0:
            # ptrace forbidden / strace injection not working: every such case would pass vacuously
            raise RuntimeError("strace fault injection never fired (SIGKILL at write(2)); the syscall-level kill points were not exercised")
        evaluations = len(cases)
        if tier == "thorough":
            st = self.strace_stage(seed, 24)
            info["strace"] = st["info"]
            failures += st["failures"]
            evaluations += st["info"]["runs"]
        # every history of this stage kills a real process at a distinct point (or sequence of points) of a distinct
        # input and was compared with the model: counted as distinct non-trivial cases
        distinct = len({json.dumps([c.get("step"), c.get("input"), c["history"]], sort_keys=True, default=str) for c in cases})
        return {"evaluations": evaluations, "failures": failures, "info": info, "distinct_nontrivial": distinct,
                "modelled": len(cases)}

    # ------------------------------------------------------------------ syscall level (thorough)
    SYSCALLS = "openat,open,creat,write,pwrite64,writev,close,rename,renameat,renameat2,unlink,unlinkat,truncate,ftruncate,link,linkat,symlink,symlinkat"

    def strace_case(self, base):
        """uninterrupted stand-alone run under strace; returns (kernel-level ops below the output dir, outputs)"""
        d = tempfile.mkdtemp(prefix="c16s_")
        try:
            spec_for = self.materialise(base, d)
            outputs, _ = self.reference(base, d, spec_for)
            out = os.path.join(d, "out")
            os.makedirs(out)
            spec = spec_for(out)
            spec.update({"watch": out, "log": os.path.join(d, "log.jsonl"), "kill": None})
            sp = os.path.join(d, "spec.json")
            with open(sp, "w") as fh:
                json.dump(spec, fh)
            tr = os.path.join(d, "st")
            p = subprocess.run(
                ["strace", "-f", "-ff", "-y", "-xx", "-s", "10000000", "-e", "trace=" + self.SYSCALLS, "-o", tr, lib.PY, RUNNER, sp],
                env=lib.impl_env(),
                capture_output=True,
            )
            ops = []
            HX = r"((?:\\x[0-9a-f]{2})*)"

            def unhex(h):
                return bytes.fromhex(h.replace("\\x", "")).decode(errors="replace")

            def below(path):
                return path[len(out) + 1 :] if path.startswith(out + "/") else None

            for fn in sorted(os.listdir(d)):
                if not fn.startswith("st."):
                    continue
                with open(os.path.join(d, fn), errors="replace") as fh:
                    for line in fh:
                        m = re.match(r"^(openat|open|creat)\((?:AT_FDCWD(?:<[^>]*>)?, )?\"" + HX + r"\", ([A-Z_|0-9]+)", line)
                        if m:
                            r_ = below(unhex(m.group(2)))
                            flags = m.group(3)
                            if r_ is not None and ("O_WRONLY" in flags or "O_RDWR" in flags or m.group(1) == "creat"):
                                if not re.search(r"= -1 ", line):
                                    ops.append(["open", r_] if "O_TRUNC" in flags and "O_CREAT" in flags and "O_WRONLY" in flags else ["open", r_, flags])
                            continue
                        m = re.match(r"^(write|pwrite64|writev)\(\d+<" + HX + r">, \"" + HX + r"\"", line)
                        if m:
                            r_ = below(unhex(m.group(2)))
                            if r_ is not None:
                                ops.append(["write", r_, m.group(3).replace("\\x", "")])
                            continue
                        m = re.match(r"^close\(\d+<" + HX + r">\)", line)
                        if m:
                            r_ = below(unhex(m.group(1)))
                            if r_ is not None and any(o[0] == "open" and o[1] == r_ for o in ops):
                                ops.append(["close", r_])
                            continue
                        m = re.match(r"^(rename|renameat|renameat2)\((?:AT_FDCWD(?:<[^>]*>)?, )?\"" + HX + r"\", (?:AT_FDCWD(?:<[^>]*>)?, )?\"" + HX + r"\"", line)
                        if m:
                            a_, b_ = unhex(m.group(2)), unhex(m.group(3))
                            if below(a_) is not None or below(b_) is not None:
                                ops.append(["rename", below(a_) if below(a_) is not None else a_, below(b_) if below(b_) is not None else b_])
                            continue
                        m = re.match(r"^(unlink|unlinkat|truncate|link|linkat|symlink|symlinkat)\(.*?\"" + HX + r"\"", line)
                        if m and below(unhex(m.group(2))) is not None:
                            ops.append(["other", m.group(1), below(unhex(m.group(2)))])
                            continue
                        m = re.match(r"^ftruncate\(\d+<" + HX + r">", line)
                        if m and below(unhex(m.group(1))) is not None:
                            ops.append(["other", "ftruncate", below(unhex(m.group(1)))])
            # closes of descriptors that were only read (the skip test, directory listings) are dropped above
            return ops, outputs, p.returncode
        finally:
            shutil.rmtree(d, ignore_errors=True)

    def strace_stage(self, seed, n):
        lib.setup_impl_path()
        failures, reqs, metas = [], [], []
        for i in range(n):
            rng = random.Random(f"C16-strace-{seed}-{i}")
            base = self.gen_input(rng)
            base["pre"] = {}
            ops, outputs, rc = self.strace_case(base)
            case = dict(base)
            case["history"] = [None]
            # kernel-level chunking: the blocks CPython actually wrote, per output
            kouts = []
            for o in outputs:
                blocks = [e[2] for e in ops if e[0] == "write" and e[1] == o["final"] + ".tmp"]
                kouts.append({"final": o["final"], "chunks": blocks})
                if "".join(blocks) != "".join(o["chunks"]):
                    failures.append({"case": case, "why": f"syscall level: the bytes written to {o['final']}.tmp are not the complete output", "impl": ops})
            if rc != 0:
                failures.append({"case": case, "why": f"strace run exited with {rc}", "impl": ops})
            reqs.append({"op": "fsrun", "initial": [], "outputs": kouts, "runs": [None], "watch": []})
            metas.append((case, ops))
        answers = lib.Model().ask(reqs)
        for (case, ops), a in zip(metas, answers):
            want = a.get("runs", [{}])[0].get("trace")
            if want != ops:
                failures.append(
                    {
                        "case": case,
                        "why": "syscall level: the operations on the output directory seen by strace are not the model's program",
                        "impl": ops,
                        "disagree": {"impl": ops, "model": want},
                    }
                )
        return {"failures": failures, "info": {"runs": n, "syscalls": self.SYSCALLS}}


def _extra_worker(cases):
    lib.setup_impl_path()
    Pn = P()
    recs = lib.evaluate_cases(Pn, cases, lib.Model())
    out = []
    for r in recs:
        try:
            feats = Pn.features(r["case"], r["impl"])
        except Exception:
            feats = []
        out.append({"case": r["case"], "oracle": r["oracle"], "disagree": r["disagree"], "features": feats})
    return out  # the zygote of this worker exits when the worker does (EOF on its stdin)
