"""C10 — evidence ingestion keeps the best PSM per peptide; targets and decoys never mix.

Correspondence: parsers.evidence.parse_evidence_files (real code, called as picked_group_fdr.run_method
calls it: evidence files, list of peptide->protein maps, method_config.score_type, suppress flag) on
files rendered from an abstract row list, vs PgFdr.C10.ingestFiles (Lean model) on the same rows.

A case is one file set for one shipped method (all 27 TOMLs; a razor method -- sharedPeptides = "razor" -- ingests like
the others except that the MaxQuant parser reads `Leading razor protein` instead of `Leading proteins`; since both shipped
razor score types on MaxQuant input remap, one method file that is NOT shipped -- CUSTOM, razor without remapping -- is
drawn as well so that this cell reaches the peptide list):
  {"method": <toml name>, "mokapot": bool, "colseed": int,
   "maps":  [[[peptide, [protein...]], ...], ...]      digest maps (1 or one per file; [] = not remapping)
   "files": [[row, ...], ...]}
  row = {"pep": cell of the peptide column exactly as written, "mod": FragPipe `Modified Peptide` cell,
         "score": the PEP cell: [num, den] of the double *before* the format's transform | "nan" (the literal `nan`) |
                  "empty" (the empty cell) | "inf" | "-inf" | "junk:<text>" (text float() rejects, written as it is),
         "prot": protein cells (see Model/C10.lean RawRow; MaxQuant: [Leading proteins, Leading razor protein]),
         "decoy": DIA-NN Decoy flag,
         "bare": the intended stripped peptide (generator's bookkeeping for the oracle; None = malformed)}

Two further kinds of case exercise the glue AROUND parse_evidence_files (how the list of maps is built and
handed on), because the property quantifies over "several evidence files each with its own digestion parameters"
and "every input-type/remap combination of the shipped methods":
  {"shared": {"maps": [...], "calls": [{"method", "mokapot", "colseed", "files"}, ...]}}
      parse_evidence_files called once per entry with ONE list object, as run_picked_group_fdr hands one list to
      every method; every call must return what the model gives for it alone and leave the list as it was.
  {"run": {"methods": [...], "inputs": {family: {"mokapot", "colseed", "files", "names"}}, "fasta": [[[header, seq]..]..] | None,
           "decoys_in_fasta": bool, "digest": [{"enzyme","mc","min","max","special","mode"}..], "maps": [...], "via": "inproc"|"cli",
           "fasta_names": [...], "map_names": [...]}}
      names = relative paths of the files in the ORDER OF MENTION on the command line (gen_cli.file_names: sorted order is
      the exception, one file name in several directories is common, a name occurring twice = one file mentioned twice);
      the i-th file mentioned belongs to the i-th digestion parameter set / map whatever it is called.
      the tool's entry point (picked_group_fdr.main(argv), or `python -m picked_group_fdr argv` in a process of its
      own for via="cli") with the ingestion recorded: maps built by the tool from --fasta with per-file
      --enzyme/--cleavages/--min-length/--max-length/--special-aas/--digestion lists (or read from
      --peptide_protein_map files); with several methods the run is repeated in the reversed method order and with
      every method alone.  Model and oracle get the per-file maps from the HARNESS's digest of the same FASTA
      (props.C08.spec + props.C09.db_records/listing, rule table written down in this file).

  {"run": {..., "via": "pipeline", "methods": ["picked_protein_group_mq_input"], "digest": [one set per evidence file]}}
      the PIPELINE entry point pipeline.pipeline.run_picked_group_fdr(evidence_files, out, fasta_files,
      [DigestionParams ...], do_quant=False, ...) -- the caller's parameter OBJECTS are rendered to arguments by
      digestion_params.digestion_params_list_to_arg_list and parsed back by the tool; 3-4 MaxQuant evidence files whose
      parameters are partly repeated (trypsin, trypsin, lys-c).  Judged like every run: each file through its own digest.
  {"glue": {"params": [{"enzyme","mode","min","max","mc","special","decoys"}..], "flag": bool}}
      digestion_params_list_to_arg_list on 1-4 DigestionParams objects -> argparse (add_digestion_arguments) ->
      get_digestion_params_list, vs Model/C10Glue.lean (toArgv, throughGlue); oracle: as many parameter sets come back
      as went in, with the same values, in the same order.

Numbers: PEP cells are written with repr(float) and re-read by float() (csv) or pandas' C parser (DIA-NN;
its agreement with float() on the literal grid is asserted once per process).  FragPipe probabilities are
(1024-k)/1024 so `1 - p` is exact and `1 - p + 1e-16` is the correctly rounded image of the model's exact
sum; Sage exponents are integers for which `np.power(10, x)` is the correctly rounded 10**x (asserted).
The model's rational is converted with one true division and compared with `==`.
"""
import csv
import os
import random
import re
import shutil
import sys
import tempfile
from fractions import Fraction
from pathlib import Path

import gen_cli
import lib
from lib import Prop, rat, unrat

# ------------------------------------------------------------------------------------------
# universe
# ------------------------------------------------------------------------------------------
BARE = ["AAAAK", "CCCDK", "DDEER", "EEFFK", "MMGGR", "NAQQK", "GGHHK"]
PROT = ["T1", "T2", "T3", "T4", "T5"]
MOD_TOKENS = ["(ox)", "(ac)", "[+57.0215]", "[147]", "(UniMod:4)", "(Oxidation (M))", "[Acetyl (Protein N-term)]", "[42]"]
PEP_GRID = [m * 10.0 ** -e for e in (1, 2, 3, 4) for m in (1, 2, 5)]
PEP_GRID = [float(repr(x)) for x in PEP_GRID]
PEP_GRID = sorted(set(float("%g" % x) for x in PEP_GRID))  # short literals: 0.1, 0.2, 0.5, 0.01 ...
FRAG_K = [0, 1, 2, 5, 10, 51, 102, 512, 1023, 1024]
SAGE_X = [0, -1, -2, -3, -4, -6, -7, -8]
EPS16 = Fraction(1e-16)

RUN_SHARE = 0.06  # share of the generated cases that are in-process runs of the entry point
SCORE_CLASSES = None  # filled lazily: {score description: [method names]} for ALL shipped methods
JUNK = ["abc", "0,01", "1e", "0.1.2", "-"]  # texts float() rejects and pandas leaves as text (not its NA spellings such as `n/a`)


def shipped_classes():
    """{score description: sorted method names} read from the TOML files of the tree under test; the description is
    what methods.parse_method_toml hands to ProteinScoringStrategy: scoreType, + " razor" for sharedPeptides = "razor"
    (so `"razor" in description` is the tool's use_razor).  All 27 shipped methods."""
    global SCORE_CLASSES
    if SCORE_CLASSES is None:
        try:
            import tomllib as tl

            def load(p):
                return tl.loads(p.read_text())
        except ImportError:  # pragma: no cover
            import toml as tl

            def load(p):
                return tl.load(str(p))

        out = {}
        for p in sorted((lib.REPO / "picked_group_fdr" / "methods").glob("*.toml")):
            d = load(p)
            desc = d.get("scoreType", "") + (" razor" if d.get("sharedPeptides") == "razor" else "")
            out.setdefault(desc, []).append(p.stem)
        SCORE_CLASSES = dict(sorted(out.items()))
    return SCORE_CLASSES


# A method file that is NOT shipped: razor on MaxQuant input WITHOUT remapping.  Both shipped razor score types on
# MaxQuant input (`multPEP`, `bestPEP`) remap, so the cell they read from `Leading razor protein` is replaced by the
# digest's proteins and never shows in the peptide list; this method file (handed to methods.parse_method_toml by path,
# as --methods x.toml would) makes the one thing razor methods do differently during ingestion observable.  Direct
# calls of parse_evidence_files only.
CUSTOM = {
    "custom_razor_mq_input_no_remap": {"label": "Razor, MaxQuant input, no remapping (not shipped)", "scoreType": "no_remap bestPEP",
                                       "grouping": "no", "sharedPeptides": "razor", "pickedStrategy": "picked_group"},
}


def custom_classes():
    out = {}
    for name, d in CUSTOM.items():
        out.setdefault(d["scoreType"] + (" razor" if d["sharedPeptides"] == "razor" else ""), []).append(name)
    return out


def parse_method(name, d):
    """MethodConfig of a shipped method name, or of a CUSTOM method file written into the directory d"""
    from picked_group_fdr import methods

    if name in CUSTOM:
        f = os.path.join(d, name + ".toml")
        with open(f, "w", encoding="utf-8") as fh:
            for k, v in CUSTOM[name].items():
                fh.write('%s = "%s"\n' % (k, v))
        return methods.parse_method_toml(f, False)
    return methods.parse_method_toml(name, False)


def is_razor(score_type):
    return "razor" in score_type


def fmt_of(score_type, mokapot):
    """format family / remap as the property text names them (harness-side mirror used by the
    renderer and the oracle; the model derives its own from Generated.methods)"""
    if "Perc" in score_type:
        return ("mokapot" if mokapot else "native"), ("remap" in score_type)
    if "FragPipe" in score_type:
        return "fragpipe", False
    if "Sage" in score_type:
        return "sage", False
    if "DIA-NN" in score_type:
        return "diann", False
    return "maxquant", ("no_remap" not in score_type)


def method_score_type(name):
    if name in CUSTOM:
        return next(st for st, names in custom_classes().items() if name in names)
    for st, names in shipped_classes().items():
        if name in names:
            return st
    raise KeyError(name)


def fl(r):
    """[num, den] -> the double"""
    f = unrat(r)
    return f.numerator / f.denominator


# ------------------------------------------------------------------------------------------
# rendering the abstract rows as files
# ------------------------------------------------------------------------------------------
def _cell(score):
    """text of the PEP cell"""
    if isinstance(score, str):
        if score.startswith("junk:"):
            return score[5:]
        return {"nan": "nan", "empty": "", "inf": "inf", "-inf": "-inf"}[score]
    return repr(fl(score))


def _razor_cell(r):
    """MaxQuant `Leading razor protein` cell: prot[1]; rows of older replays carry the leading proteins only"""
    return r["prot"][1] if len(r["prot"]) > 1 else r["prot"][0].split(";")[0]


def _shuffled(header, rows, seed, keep_last=False):
    """permute the columns (header names are what the parsers look up)"""
    idx = list(range(len(header)))
    rng = random.Random(seed)
    if keep_last:
        head = idx[:-1]
        rng.shuffle(head)
        idx = head + idx[-1:]
    else:
        rng.shuffle(idx)
    return [header[i] for i in idx], [[r[i] for i in idx] + r[len(header):] for r in rows]


NAME_KIND = {"maxquant": "mq", "native": "perc", "mokapot": "mokapot", "fragpipe": "fragpipe", "sage": "sage", "diann": "diann"}
NUMBERED = {"maxquant": "evidence%d.txt", "native": "perc%d.txt", "mokapot": "moka%d.txt", "fragpipe": "psm%d.tsv",
            "sage": "results%d.sage.tsv", "diann": "report%d.tsv"}


def file_set_names(case, fmt):
    """relative paths of the files of a file set, in the order in which they are handed over / mentioned on the
    command line: case["names"] (a list; a name occurring twice = one file mentioned twice), "numbered" = the
    numbered names evidence0.txt, evidence1.txt ... (sorted order), absent = names drawn from the case's colseed
    (gen_cli.file_names: sorted order is the exception, one name in several directories is common)"""
    n = len(case["files"])
    names = case.get("names")
    if isinstance(names, list) and len(names) == n:
        return list(names)
    if names is None:
        return gen_cli.default_names(n, NAME_KIND[fmt], case.get("colseed", 0))
    return [NUMBERED[fmt] % i for i in range(n)]


def render(case, d):
    fmt, _ = fmt_of(method_score_type(case["method"]), case.get("mokapot", False))
    paths = []
    names = file_set_names(case, fmt)
    for n, rows in enumerate(case["files"]):
        first = names.index(names[n])
        if first != n:  # a second mention of a file on the command line: one file
            if case["files"][first] != rows:
                raise ValueError("harness: file %s is mentioned twice with different content" % names[n])
            paths.append(paths[first])
            continue
        if fmt == "maxquant":
            hdr = ["Modified sequence", "Leading proteins", "Leading razor protein", "PEP", "Score", "Experiment", "id"]
            out = [
                [r["pep"], r["prot"][0], _razor_cell(r), _cell(r["score"]), "10", "E1", str(i)]
                for i, r in enumerate(rows)
            ]
            if case.get("quant"):
                # pipeline.run_picked_group_fdr always passes --do_quant: the columns the quantification reads
                hdr += ["Charge", "Intensity", "Raw file"]
                out = [o + ["2", "1000000", "raw%d" % n] for o in out]
            hdr, out = _shuffled(hdr, out, case.get("colseed", 0) + n)
        elif fmt == "native":
            hdr = ["PSMId", "score", "q-value", "posterior_error_prob", "peptide", "proteinIds"]
            out = [[f"raw_{i}_2_1", "1.0", "0.01", _cell(r["score"]), r["pep"]] + list(r["prot"]) for i, r in enumerate(rows)]
            hdr, out = _shuffled(hdr[:-1], [o[:5] + o[5:] for o in out], case.get("colseed", 0) + n)
            hdr = hdr + ["proteinIds"]
        elif fmt == "mokapot":
            hdr = ["SpecId", "Label", "ScanNr", "ExpMass", "CalcMass", "Peptide", "mokapot score", "mokapot q-value", "mokapot PEP", "Proteins"]
            out = [[f"raw_{i}_2_1", "1", str(i), "1", "1", r["pep"], "1.0", "0.01", _cell(r["score"]), r["prot"][0]] for i, r in enumerate(rows)]
            hdr, out = _shuffled(hdr, out, case.get("colseed", 0) + n)
        elif fmt == "fragpipe":
            hdr = ["Spectrum", "Peptide", "Modified Peptide", "SpectralSim", "PeptideProphet Probability", "Protein", "Mapped Proteins"]
            out = [[str(i), r["pep"], r.get("mod", ""), "0.9", _cell(r["score"]), r["prot"][0], r["prot"][1]] for i, r in enumerate(rows)]
            hdr, out = _shuffled(hdr, out, case.get("colseed", 0) + n)
        elif fmt == "sage":
            hdr = ["peptide", "proteins", "charge", "sage_discriminant_score", "filename", "posterior_error"]
            out = [[r["pep"], r["prot"][0], "2", "1.0", "f.mzML", _cell(r["score"])] for r in rows]
            hdr, out = _shuffled(hdr, out, case.get("colseed", 0) + n)
        else:  # diann
            hdr = ["Run", "Modified.Sequence", "Precursor.Charge", "Protein.Ids", "Decoy", "PEP", "Ms1.Normalised"]
            out = [
                ["r1", r["pep"], "2", r["prot"][0], "1" if r.get("decoy") else "0", _cell(r["score"]), "100.0"]
                for r in rows
            ]
            hdr, out = _shuffled(hdr, out, case.get("colseed", 0) + n)

        def write(p, hdr=hdr, out=out):
            with open(p, "w", newline="", encoding="utf-8") as f:
                w = csv.writer(f, delimiter="\t")
                w.writerow(hdr)
                w.writerows(out)

        paths.append(gen_cli.write_once(d, names[n], write))
    return paths


_PANDAS_OK = None


def pandas_grid_ok():
    """pandas' float parser returns float(literal) on every literal the DIA-NN renderer can write"""
    global _PANDAS_OK
    if _PANDAS_OK is None:
        import io

        import pandas as pd

        lits = [repr(x) for x in PEP_GRID]
        df = pd.read_csv(io.StringIO("A\tPEP\n" + "\n".join("x\t" + c for c in lits + ["inf", "-inf", "nan", ""]) + "\n"), sep="\t")
        vals = list(df.PEP)
        _PANDAS_OK = (
            all(float(a) == b for a, b in zip(lits, vals))
            and vals[-4] == float("inf") and vals[-3] == float("-inf") and vals[-2] != vals[-2] and vals[-1] != vals[-1]
        )
        # one cell that is no number: the column arrives as text, missing cells stay NaN
        for j in JUNK:
            d2 = pd.read_csv(io.StringIO("A\tPEP\n" + "\n".join("x\t" + c for c in ["0.1", j, "", "nan", "inf"]) + "\n"), sep="\t")
            v2 = list(d2.PEP)
            _PANDAS_OK = _PANDAS_OK and v2[0] == "0.1" and v2[1] == j and v2[2] != v2[2] and v2[3] != v2[3] and v2[4] == "inf"
    return _PANDAS_OK


_POW_OK = None


def pow_grid_ok():
    global _POW_OK
    if _POW_OK is None:
        import numpy as np

        _POW_OK = all(float(np.power(10, float(x))) == float(Fraction(10) ** x) for x in SAGE_X)
    return _POW_OK


# ------------------------------------------------------------------------------------------
# the property, stated directly (independent of both the code and the model)
# ------------------------------------------------------------------------------------------
def o_strip(s):
    """modifications stripped: the two documented regex passes (malformed rows only; well-formed rows
    carry the generator's bare peptide)"""
    return re.sub(r"\[[^]]*\]", "", re.sub(r"\([^)]*\)", "", s)).replace(")", "")


def o_is_decoy_id(p):
    return p.startswith("REV__") or p.startswith("rev_")


def o_decoy_list(ps):
    return all("REV__" in p for p in ps) or all("rev_" in p for p in ps)


# ------------------------------------------------------------------------------------------
# digests of non-specific searches (--enzyme no_enzyme / --digestion none, use_hash_key): digest.get_proteins is handed
# the pair (peptide[:6] -> proteins, protein -> sequence).  A digest map of a case is then not a list of entries but
#   {"hash": {"fasta": [[[header, sequence], ...] per file], "decoys_in_fasta": bool, "enzyme": "no_enzyme" | <name>,
#             "mode": "none", "min": int, "max": int, "mc": int, "special": "KR" | "none",
#             "via": "from_params" | "maps" | "direct"}}
# from which run_impl lets the REAL code build the pair (digest.get_peptide_to_protein_map_from_params /
# peptide_protein_map.get_peptide_to_protein_maps / digest.get_peptide_to_protein_map on the written FASTA), or -- for
# the per-file maps of an entry-point run, own_digest_maps -- the built form {"index", "seqs", "min", "max"}.
# Model side: the harness's OWN pair (props.C09.db_records: identifiers by first blank, decoy = reversed sequence
# with the special-residue swap; props.C09.listing(use_hash=True): every record listed once under the first six
# residues of each of its substrings inside the window).  Oracle side: the sequences only (substring search).
# ------------------------------------------------------------------------------------------
def is_hash(m):
    return isinstance(m, dict) and ("hash" in m or "index" in m)


def hash_records(h):
    """the database of a hash spec: (identifier, sequence) of the targets and the generated decoys, files and records in
    the order given"""
    from props.C09 import db_records, special_list

    out = []
    for f in h["fasta"]:
        out += db_records([(hd, sq) for hd, sq in f], "first_space", "target" if h.get("decoys_in_fasta") else "concat",
                          special_list(h["special"]))
    return out


_BUILT = {}


def built_hash(m):
    """{"index": [[prefix, [protein...]]...], "seqs": [[protein, sequence]...], "min", "max"} of a hash map of either form"""
    if "index" in m:
        return m
    import json

    from props.C09 import listing

    key = json.dumps(m["hash"], sort_keys=True)
    if key not in _BUILT:
        if len(_BUILT) > 2000:
            _BUILT.clear()
        h = m["hash"]
        recs = hash_records(h)
        idx = listing(recs, ([], [], []), h["min"], h["max"], "none", h.get("mc", 0), True, True)
        _BUILT[key] = {"index": [[k, idx[k]] for k in sorted(idx)], "seqs": [[i, sq] for i, sq in dict(recs).items()],
                       "min": h["min"], "max": h["max"]}
    return _BUILT[key]


class HashView:
    """the oracle's view of a non-specific digest: the database sequences and the length window -- no index.
    A peptide is known to the digest iff it is a substring, of a length inside the window, of a target or generated decoy
    sequence; its proteins are the sequences containing it.  For a substring OUTSIDE the window the property text says
    nothing (the tool's lookup does not check the window): such a peptide is not judged (`lookup` -> judged False)."""

    def __init__(self, m):
        b = built_hash(m)
        self.seqs = dict((i, sq) for i, sq in b["seqs"])
        self.min, self.max = b["min"], b["max"]

    def containing(self, q):
        return sorted(i for i, sq in self.seqs.items() if q in sq)

    def lookup(self, q):
        """(proteins, judged)"""
        c = self.containing(q)
        if c and not (self.min <= len(q) <= self.max):
            return c, False
        return c, True

    def get(self, q, default=None):
        c, judged = self.lookup(q)
        return c if (c and judged) else ([] if default is None else default)

    def known(self, maxlen=16):
        """the peptides the digest knows, up to a length"""
        out = set()
        for sq in self.seqs.values():
            for L in range(max(self.min, 1), min(self.max, maxlen, len(sq)) + 1):
                for i in range(len(sq) - L + 1):
                    out.add(sq[i:i + L])
        return out

    def prefix_owners(self, q):
        """number of database sequences containing the peptide's first six residues"""
        return sum(1 for sq in self.seqs.values() if q[:6] in sq)


class DictView(dict):
    def lookup(self, q):
        return self.get(q, []), True

    def known(self, maxlen=16):
        return set(self)


def map_view(m):
    return HashView(m) if is_hash(m) else DictView((k, v) for k, v in m)


def model_map(m):
    """what the model is sent for a digest map"""
    if is_hash(m):
        b = built_hash(m)
        return {"index": b["index"], "seqs": b["seqs"]}
    return m


def write_fasta_files(files, d, stem="hdb"):
    paths = []
    for i, recs in enumerate(files):
        fp = os.path.join(d, "%s%d.fasta" % (stem, i))
        with open(fp, "w", encoding="utf-8") as fh:
            for hd, sq in recs:
                fh.write(">" + hd + "\n")
                for a in range(0, len(sq), 7):
                    fh.write(sq[a:a + 7] + "\n")
        paths.append(fp)
    return paths


_HASH_SEQ = [0]


def impl_map(m, d):
    """the object the real ingestion is handed for a digest map: a dict, or -- hash spec -- the pair the REAL code builds
    from the FASTA written into d"""
    if not is_hash(m):
        return dict((k, list(v)) for k, v in m)
    from picked_group_fdr import digest, peptide_protein_map
    from picked_group_fdr.digestion_params import DigestionParams

    h = m["hash"]
    _HASH_SEQ[0] += 1
    paths = write_fasta_files(h["fasta"], d, "hdb%d_" % _HASH_SEQ[0])
    via = h.get("via", "from_params")
    if via == "direct" and len(paths) == 1:
        pre, not_post, post = digest.get_cleavage_sites(h["enzyme"])
        return digest.get_peptide_to_protein_map(
            paths[0], "target" if h.get("decoys_in_fasta") else "concat", min_len=h["min"], max_len=h["max"], pre=pre,
            not_post=not_post, post=post, digestion="none", miscleavages=h.get("mc", 0), methionine_cleavage=True,
            use_hash_key=True, special_aas=[] if h["special"] == "none" else list(h["special"]))
    params = DigestionParams(h["enzyme"], h["mode"], h["min"], h["max"], h.get("mc", 0), h["special"], bool(h.get("decoys_in_fasta")))
    if via == "maps":
        return peptide_protein_map.get_peptide_to_protein_maps(paths, None, [params], None)[0]
    return digest.get_peptide_to_protein_map_from_params(paths, [params])


def score_tolerance(fmt):
    """(absolute, relative) slack with which the oracle compares a reported PEP with the lowest PEP of the property text.
    A PEP that is a cell of the file is compared exactly (the text: "the lowest PEP over all of its PSMs").  FragPipe
    ("PEP = 1 - probability") and Sage ("PEP = 10^posterior_error") are computed: the text fixes the real number, the
    code one floating-point evaluation of it (and, for FragPipe, adds 1e-16) -- 1 - p, 1 - p + 1e-16, 10.0 ** x,
    exp(x ln 10) all satisfy the text.  The exact double is the model's business (correspondence side)."""
    if fmt == "fragpipe":
        return (Fraction(3, 10 ** 16), Fraction(1, 10 ** 12))
    if fmt == "sage":
        return (Fraction(0), Fraction(1, 10 ** 12))
    return (Fraction(0), Fraction(0))


def close_score(a, b, tol):
    return a == b or abs(a - b) <= tol[0] + tol[1] * max(abs(a), abs(b))


def _no_number(sc):
    """the PEP cell holds no number: empty, or text that is no float literal"""
    return isinstance(sc, str) and (sc == "empty" or sc.startswith("junk:"))


def expected(case):
    """(ordered [(key, score Fraction-of-double, proteins)], info) per the property text and DESIGN §16.
    info["refused"]: the file set holds a PEP cell its parser cannot convert -- the tool refuses such a file
    (ValueError of float(); DIA-NN: TypeError of np.isnan on a text column) instead of ignoring the row.  Which cells
    those are is written down here from the format descriptions, not taken from the model:
      Percolator, FragPipe, Sage   every row's cell is converted: an empty cell or text that is no number, in ANY row;
      MaxQuant                     an empty cell is a missing value (NaN); text that is no number only counts in a row
                                   that yields a PSM (known peptide, usable protein list);
      DIA-NN (pandas)              empty = missing; one cell of text makes the column text, and then the first PSM
                                   with a non-missing cell is refused."""
    st = method_score_type(case["method"])
    fmt, remap = fmt_of(st, case.get("mokapot", False))
    razor = is_razor(st)
    maps = [map_view(m) for m in case["maps"]] if remap else [None]
    if len(maps) == 1:
        maps = maps * len(case["files"])
    best, seen, scored = {}, {}, {}
    # free: stripped peptides the property text does not judge (a substring of a database sequence whose length lies
    # outside the window of a non-specific digest) -> the sequences containing them (all the tool may report for them);
    # unordered: peptides whose proteins come from a non-specific digest (a set of sequences: the order is not stated)
    info = {"unknown": 0, "purged": 0, "emptied": 0, "nan": 0, "ties": 0, "scored": 0, "inf": 0, "refused": False,
            "razor_cell_differs": 0, "free": {}, "unordered": set(), "hash": {}}
    for rows, dm in zip(case["files"], maps):
        if fmt in ("native", "mokapot", "fragpipe", "sage") and any(_no_number(r["score"]) for r in rows):
            info["refused"] = True
        text_column = fmt == "diann" and any(isinstance(r["score"], str) and r["score"].startswith("junk:") for r in rows)
        flank = bool(rows) and fmt in ("native", "mokapot") and rows[0]["pep"].startswith("-.") and rows[0]["pep"].endswith(".-")
        for r in rows:
            # peptide as the format spells it
            if fmt == "maxquant":
                mp = r["pep"][1:-1]
            elif fmt in ("native", "mokapot"):
                mp = r["pep"][2:-2] if flank else r["pep"]
            elif fmt == "fragpipe":
                mp = r.get("mod") or r["pep"]
            else:
                mp = r["pep"]
            key = r["bare"] if r.get("bare") is not None else o_strip(mp)
            # proteins of the file
            if fmt == "maxquant" and razor:
                fp = _razor_cell(r).split(";")
                info["razor_cell_differs"] += int(fp != r["prot"][0].split(";"))
            elif fmt in ("maxquant", "sage"):
                fp = r["prot"][0].split(";")
            elif fmt == "native":
                fp = list(r["prot"])
            elif fmt == "mokapot":
                fp = r["prot"][0].split("\t")
            elif fmt == "fragpipe":
                fp = [r["prot"][0]] + (r["prot"][1].split(", ") if r["prot"][1] else [])
            else:
                fp = r["prot"][0].split(";")
                if r.get("decoy"):
                    fp = ["REV__" + p for p in fp]
            if remap:
                src, judged = dm.lookup(key)
                if isinstance(dm, HashView):
                    info["unordered"].add(key)
                    hk = info["hash"]
                    tag = ("outside_window" if not judged else "known" if src else "unknown_prefix_in_%s_sequences" % min(dm.prefix_owners(key), 2))
                    hk[tag] = hk.get(tag, 0) + 1
                    if len(key) <= 6:
                        hk["shorter_than_6" if len(key) < 6 else "exactly_6"] = 1
                    if src and any(o_is_decoy_id(p) for p in src) and not all(o_is_decoy_id(p) for p in src):
                        hk["in_target_and_decoy_sequence"] = 1
                    if mp != key:
                        hk["modified"] = 1
                if not judged:
                    info["free"].setdefault(key, [])
                    info["free"][key].append(list(src))
                    if fmt == "maxquant" and isinstance(r["score"], str) and r["score"].startswith("junk:"):
                        # MaxQuant text that is no number counts only in a row that yields a PSM: not judged either
                        info["refusal_free"] = True
                    continue
                if not src:
                    info["unknown"] += 1
                    continue
            else:
                src = fp
            if o_decoy_list(src):
                ps = list(src)
            else:
                ps = [p for p in src if not o_is_decoy_id(p)]
                if len(ps) != len(src):
                    info["purged"] += 1
            if not ps:
                info["emptied"] += 1
                continue
            seen.setdefault(key, []).append(ps)
            sc = r["score"]
            if fmt == "maxquant" and isinstance(sc, str) and sc.startswith("junk:"):
                info["refused"] = True
            if text_column and sc not in ("nan", "empty"):
                info["refused"] = True
            if sc in ("nan", "empty") or _no_number(sc):
                info["nan"] += 1
                continue
            if sc in ("inf", "-inf"):
                # 1 - p: the sign flips; 10 ** -inf = 0; a PEP of +inf is never lower than anything
                pos = (sc == "inf") != (fmt == "fragpipe")
                if fmt == "sage" and not pos:
                    raw = None
                    q = Fraction(0)
                elif pos:
                    info["inf"] += 1
                    continue
                else:
                    raise ValueError("harness: a PEP of -inf is outside this check")
            else:
                raw = unrat(sc)
            if raw is None:
                pass
            elif fmt == "fragpipe":
                q = 1 - raw + EPS16
            elif fmt == "sage":
                q = Fraction(10) ** int(raw)
            else:
                q = raw
            s = Fraction(q.numerator / q.denominator)  # the double the tool holds
            info["scored"] += 1
            scored.setdefault(key, []).append((s, ps))
            if key not in best or s < best[key][0]:
                best[key] = (s, ps)
            elif s == best[key][0] and ps != best[key][1]:
                info["ties"] += 1
    for k in info["free"]:  # a peptide not judged in one file may have judged PSMs in another: their lists are admissible too
        info["free"][k] += seen.get(k, [])
    # audit-3 (C10-3, C10-4): the text says "the lowest PEP ... together with that PSM's proteins" -- of A PSM with the
    # lowest PEP, not of the first one read; and "FragPipe PEP = 1 - probability, Sage PEP = 10^posterior_error" as real
    # numbers, not as one particular floating-point evaluation.  info["tol"] = (absolute, relative) slack of the PEP
    # comparison of `judge` (0, 0 for the formats whose PEP is a cell of the file), info["attain"][peptide] = the protein
    # lists of every PSM whose PEP is the lowest one up to that slack.  Which of them the code picks and the exact double
    # it computes stay pinned by the model (correspondence side: model_view/impl_view compare the list exactly).
    info["tol"] = score_tolerance(fmt)
    info["attain"] = {k: [ps for s, ps in v if close_score(s, best[k][0], info["tol"])] for k, v in scored.items()}
    return [(k, v[0], v[1]) for k, v in best.items() if k not in info["free"]], info


CLI_FLAG = {"maxquant": "--mq_evidence", "native": "--perc_evidence", "mokapot": "--perc_evidence",
            "fragpipe": "--fragpipe_psm", "sage": "--sage_results", "diann": "--diann_reports"}


def run_cli(case):
    """the real command line on the rendered file set (digest maps handed over with --peptide_protein_map);
    returns {"groups": [[protein...]...]} read from the written table, {"err": "no_ranked_groups"} for the
    degenerate run in which no group has evidence, or {"exc": ...}"""
    import subprocess

    st = method_score_type(case["method"])
    fmt, _ = fmt_of(st, case.get("mokapot", False))
    d = tempfile.mkdtemp(prefix="pgfdr_c10cli_")
    try:
        paths = render(case, d)
        out = os.path.join(d, "proteinGroups.txt")
        cmd = [lib.PY, "-m", "picked_group_fdr", "--methods", case["method"], CLI_FLAG[fmt], *paths,
               "--protein_groups_out", out, "--suppress_missing_peptide_warning"]
        mp = []
        for k, m in enumerate(case["maps"]):
            f = os.path.join(d, f"map{k}.tsv")
            with open(f, "w", newline="", encoding="utf-8") as fh:
                w = csv.writer(fh, delimiter="\t")
                for pep, ps in m:
                    w.writerow([pep, ";".join(ps)])
            mp.append(f)
        if mp:
            cmd += ["--peptide_protein_map", *mp]
        p = subprocess.run(cmd, env=lib.impl_env(), capture_output=True, text=True, timeout=300)
        if p.returncode != 0:
            last = (p.stderr.strip().splitlines() or [""])[-1]
            # degenerate runs in which no protein group has any evidence (DESIGN.md §4): bestPEP methods die in
            # do_competition (`zip(*[])`), multPEP methods already in MultPEPScore._get_optimal_div (empty array)
            if "not enough values to unpack" in last or (
                "too many indices for array" in last and "_get_optimal_div" in p.stderr
            ):
                return {"err": "no_ranked_groups"}
            # a PEP cell the parser cannot convert: the command line dies with the parser's own exception
            if last.startswith("ValueError: could not convert string to float") or (
                last.startswith("TypeError: ufunc 'isnan' not supported")
            ):
                return {"err": "bad_score_cell"}
            return {"exc": "CLI", "msg": last[:300], "tb": p.stderr[-1200:]}
        with open(out, newline="", encoding="utf-8") as fh:
            rows = list(csv.reader(fh, delimiter="\t"))
        col = rows[0].index("Protein IDs")
        return {"groups": [r[col].split(";") for r in rows[1:]]}
    finally:
        shutil.rmtree(d, ignore_errors=True)


def cli_ok(case):
    """file sets the command line can take: per-file digest maps need one map file per evidence file; map
    entries are written `peptide<TAB>p1;p2`, so every entry needs a protein"""
    return (
        not any(is_hash(m) for m in case["maps"])  # a map file cannot hold the pair of a non-specific digest
        and all(ps for m in case["maps"] for _, ps in m)
        and all(len(m) > 0 for m in case["maps"])
        and len(case["maps"]) in (0, 1, len(case["files"]))
    )


# ------------------------------------------------------------------------------------------
# runs through the tool's entry point (picked_group_fdr.main -> run_picked_group_fdr -> run_method):
# the glue around parse_evidence_files -- maps built from --fasta with per-file digestion parameters or read
# from --peptide_protein_map files, ONE map list shared by all methods of the run
# ------------------------------------------------------------------------------------------
# cleavage rules of the enzymes the generator uses, written down here (not read from the tree under test)
ENZ = {
    "trypsin": (["K", "R"], ["P"], []),
    "trypsinp": (["K", "R"], [], []),
    "lys-c": (["K"], ["P"], []),
    "arg-c": (["R"], ["P"], []),
    "no_enzyme": ([], [], []),
}
RUN_BLOCKS = BARE + ["PLLLR"]
FAMILY_FLAG = {"maxquant": "--mq_evidence", "perc": "--perc_evidence", "fragpipe": "--fragpipe_psm",
               "sage": "--sage_results", "diann": "--diann_reports"}
DIGEST_FLAGS = [("--enzyme", "enzyme"), ("--cleavages", "mc"), ("--min-length", "min"), ("--max-length", "max"),
                ("--special-aas", "special"), ("--digestion", "mode")]
HARNESS_DIR = str(Path(__file__).resolve().parent.parent)


def family_of(score_type):
    """which input flag a score type reads"""
    fmt, _ = fmt_of(score_type, False)
    return "perc" if fmt == "native" else fmt


def eff_digest(run):
    """the parameter sets the command line describes: a parameter given once holds for every file, so a list
    whose entries all agree is one parameter set (one map for all files)"""
    dg = run.get("digest") or []
    if len(dg) > 1 and all(p == dg[0] for p in dg):
        return dg[:1]
    return dg


def own_digest_maps(run):
    """per digestion-parameter set: peptide -> proteins computed by the harness's own digest (C08's declarative
    rule `spec`, C09's database/decoy statement and 'each protein once, in database order' listing) -- nothing
    of the code under test is involved"""
    from props.C09 import db_records, listing, special_list

    records = [(h, s) for f in run["fasta"] for h, s in f]
    db = "target" if run.get("decoys_in_fasta") else "concat"
    maps = []
    for p in eff_digest(run):
        recs = db_records(records, "first_space", db, special_list(p["special"]))
        if p["enzyme"] == "no_enzyme" or p["mode"] == "none":
            # non-specific search: the tool builds the (prefix index, sequences) pair; here the harness's own
            idx = listing(recs, ENZ[p["enzyme"]], p["min"], p["max"], "none", p["mc"], True, True)
            maps.append({"index": [[k, idx[k]] for k in sorted(idx)], "seqs": [[i, sq] for i, sq in dict(recs).items()],
                         "min": p["min"], "max": p["max"]})
            continue
        m = listing(recs, ENZ[p["enzyme"]], p["min"], p["max"], p["mode"], p["mc"], True, False)
        maps.append([[k, m[k]] for k in sorted(m)])
    return maps


def run_maps(run):
    """the digest maps a run's remapping methods must use (model / oracle side)"""
    if run.get("fasta"):
        return own_digest_maps(run)
    return run.get("maps") or []


def sub_case(run, method, maps=None):
    """the ordinary ingestion case one method of a run amounts to"""
    inp = run["inputs"][family_of(method_score_type(method))]
    return {"method": method, "mokapot": inp.get("mokapot", False), "colseed": inp.get("colseed", 0),
            "maps": run_maps(run) if maps is None else maps, "files": inp["files"]}


def refusal(e):
    """the tool's refusal of a PEP cell it cannot convert: float()'s ValueError (csv formats), np.isnan's TypeError on
    the text column pandas delivers (DIA-NN).  Anything else is left to the engine."""
    if isinstance(e, ValueError) and str(e).startswith("could not convert string to float"):
        return "bad_score_cell"
    if isinstance(e, TypeError) and "ufunc 'isnan' not supported" in str(e):
        return "bad_score_cell"
    return None


def _pil_json(res):
    return [[k, "nan" if v[0] != v[0] else rat(float(v[0])), list(v[1])] for k, v in res.items()]


def _degenerate(exc_text, tb_text):
    """runs in which no protein group has any evidence (DESIGN.md §4): bestPEP methods die in do_competition
    (`zip(*[])`), multPEP methods already in MultPEPScore._get_optimal_div (empty array)"""
    return "not enough values to unpack" in exc_text or (
        "too many indices for array" in exc_text and "_get_optimal_div" in tb_text
    )


def record_entry(job):
    """Run the tool's entry point on job["argv"] inside job["cwd"] and record every evidence ingestion it
    performs: the returned peptide list, the number of files, and whether the call left the caller's list of
    peptide-to-protein maps as it found it.  how = "inproc": picked_group_fdr.main(argv) in this process;
    "cli": `python -m picked_group_fdr argv` (runpy) in a process of its own (see entry_cli)."""
    import traceback

    from picked_group_fdr.parsers import evidence

    cwd = job["cwd"]
    calls = []
    original = evidence.parse_evidence_files

    def tables():
        """name -> text of the protein group tables written so far (several methods of one run may write to the
        same name one after the other, so the text is kept, not the name)"""
        out = {}
        for f in sorted(os.listdir(cwd)):
            if f.startswith("proteinGroups"):
                with open(os.path.join(cwd, f), newline="", encoding="utf-8", errors="replace") as fh:
                    out[f] = fh.read()
        return out

    def recorder(evidence_files, peptide_to_protein_maps, *a, **kw):
        is_list = isinstance(peptide_to_protein_maps, list)
        before = list(peptide_to_protein_maps) if is_list else None
        ls = tables()
        res = original(evidence_files, peptide_to_protein_maps, *a, **kw)
        after = list(peptide_to_protein_maps) if is_list else None
        calls.append({
            "nfiles": len(evidence_files),
            "pil": _pil_json(res),
            "nmaps": [len(before), len(after)] if is_list else None,
            "maps_same": (not is_list) or (len(before) == len(after) and all(x is y for x, y in zip(before, after))),
            "_ls": ls,
        })
        return res

    out = {"calls": calls}
    old_cwd, old_argv = os.getcwd(), list(sys.argv)
    evidence.parse_evidence_files = recorder
    try:
        os.chdir(cwd)
        if job["how"] == "pipeline":
            # the pipeline's own entry point: parameter OBJECTS in, the glue renders them for the tool
            from picked_group_fdr.digestion_params import DigestionParams
            from picked_group_fdr.pipeline import pipeline

            params = [DigestionParams(enzyme=p["enzyme"], digestion=p["mode"], min_length=p["min"], max_length=p["max"],
                                      cleavages=p["mc"], special_aas=p["special"]) for p in job["digest"]]
            pipeline.run_picked_group_fdr(list(job["evidence"]), os.path.join(cwd, "proteinGroups.txt"), list(job["fasta"]),
                                          params, False, 1, True)
        elif job["how"] == "cli":
            import runpy

            sys.argv = ["picked_group_fdr"] + list(job["argv"])
            runpy.run_module("picked_group_fdr", run_name="__main__", alter_sys=True)
        else:
            from picked_group_fdr import picked_group_fdr as pgfdr

            pgfdr.main(list(job["argv"]))
    except KeyboardInterrupt:
        raise
    except BaseException as e:
        tb = traceback.format_exc()
        if _degenerate(str(e), tb):
            out["err"] = "no_ranked_groups"
        else:
            out.update({"exc": type(e).__name__, "msg": str(e)[:300], "tb": tb[-1200:]})
    finally:
        evidence.parse_evidence_files = original
        sys.argv = old_argv
        os.chdir(old_cwd)
    # the table each method wrote = the file that appeared or changed between two ingestions
    final = tables()
    for i, c in enumerate(calls):
        nxt = calls[i + 1]["_ls"] if i + 1 < len(calls) else final
        new = [f for f in nxt if c["_ls"].get(f) != nxt[f]]
        c["groups"] = None
        if len(new) == 1:
            try:
                rows = list(csv.reader(nxt[new[0]].splitlines(), delimiter="\t"))
                col = rows[0].index("Protein IDs")
                c["groups"] = [r[col].split(";") for r in rows[1:]]
            except Exception as e:  # unreadable table
                c["groups"] = {"unreadable": "%s: %s" % (type(e).__name__, e)}
    for c in calls:
        del c["_ls"]
    return out


def entry_cli():
    """process entry of a "cli" job: `python -c '...; props.C10.entry_cli()' job.json`"""
    import json

    job = json.loads(Path(sys.argv[1]).read_text())
    res = record_entry(job)
    Path(job["result"]).write_text(json.dumps(res))


def run_job(job):
    """one entry-point run; "cli" jobs get a process of their own with the tree under test first on the path"""
    if job["how"] != "cli":
        return record_entry(job)
    import json
    import subprocess

    jf = os.path.join(job["cwd"], "job.json")
    job = dict(job, result=os.path.join(job["cwd"], "result.json"))
    Path(jf).write_text(json.dumps(job))
    code = "import sys; sys.path.append(%r); import props.C10 as m; m.entry_cli()" % HARNESS_DIR
    p = subprocess.run([lib.PY, "-c", code, jf], env=lib.impl_env(), cwd=job["cwd"], capture_output=True, text=True, timeout=600)
    if os.path.exists(job["result"]):
        res = json.loads(Path(job["result"]).read_text())
        os.unlink(job["result"])
        os.unlink(jf)
        return res
    last = (p.stderr.strip().splitlines() or [""])[-1]
    return {"calls": [], "exc": "CLI", "msg": last[:300], "tb": p.stderr[-1200:]}


def digest_args(run):
    argv = []
    dg = eff_digest(run)
    for flag, k in DIGEST_FLAGS:
        vals = [str(p[k]) for p in dg]
        if len(set(vals)) == 1:
            vals = vals[:1]
        argv += [flag, *vals]
    return argv


def run_aux_names(run, key):
    """relative paths of the FASTA files (key "fasta", run["fasta_names"]) / map files (key "maps", run["map_names"]) of
    a run in command-line order; distinct names (the same FASTA or map file mentioned twice is not generated here);
    runs without names: db0.fasta, db1.fasta ... / map0.tsv ..."""
    n = len(run.get(key) or [])
    names = run.get({"fasta": "fasta_names", "maps": "map_names"}[key])
    if isinstance(names, list) and len(names) == n and len(set(names)) == n:
        return list(names)
    return [{"fasta": "db%d.fasta", "maps": "map%d.tsv"}[key] % i for i in range(n)]


def sync_run_mentions(run):
    """a file mentioned twice is ONE file: a later mention of a name carries the rows of the first; name lists that no
    longer fit the number of files (after shrinking) give way to the numbered names"""
    out = dict(run, inputs=dict(run["inputs"]))
    for fam, inp in run["inputs"].items():
        nm = inp.get("names")
        if not isinstance(nm, list):
            continue
        if len(nm) != len(inp["files"]):
            out["inputs"][fam] = {k: v for k, v in inp.items() if k != "names"}
            continue
        files = list(inp["files"])
        for i, n in enumerate(nm):
            j = nm.index(n)
            if j != i:
                files[i] = files[j]
        out["inputs"][fam] = dict(inp, files=files)
    for key, nk in (("fasta", "fasta_names"), ("maps", "map_names")):
        if isinstance(run.get(nk), list) and len(run[nk]) != len(run.get(key) or []):
            out.pop(nk)
    return out


def run_orders(run):
    """the entry-point runs of one scenario: the methods in the given order; with several methods also the
    reversed order and every method alone"""
    ms = list(run["methods"])
    orders = [("fwd", ms)]
    if len(ms) > 1:
        orders.append(("rev", ms[::-1]))
        orders += [("alone%d" % i, [m]) for i, m in enumerate(ms)]
    return orders


def run_scenario(run, submit=None):
    """write the inputs of a run once, then perform every run of run_orders on them (each in a directory of its
    own).  -> {"fwd": R, "rev": R, "alone": [R...]},  R = {"calls": [...], "err"/"exc"...} of record_entry"""
    d = tempfile.mkdtemp(prefix="pgfdr_c10run_")
    try:
        argv_in = []
        ind = os.path.join(d, "in")
        for fam in sorted(run["inputs"]):
            inp = run["inputs"][fam]
            m = next(m for m in run["methods"] if family_of(method_score_type(m)) == fam)
            paths = render({"method": m, "mokapot": inp.get("mokapot", False), "colseed": inp.get("colseed", 0), "files": inp["files"],
                            "names": inp.get("names", "numbered"), "quant": run.get("via") == "pipeline"}, os.path.join(ind, fam))
            argv_in += [FAMILY_FLAG[fam], *paths]
        if run.get("fasta"):
            fps = []
            for rel, recs in zip(run_aux_names(run, "fasta"), run["fasta"]):
                def wf(fp, recs=recs):
                    with open(fp, "w", encoding="utf-8") as fh:
                        for h, s in recs:
                            fh.write(">" + h + "\n")
                            for a in range(0, len(s), 7):
                                fh.write(s[a : a + 7] + "\n")
                fps.append(gen_cli.write_once(os.path.join(ind, "fasta"), rel, wf))
            argv_in += ["--fasta", *fps] + (["--fasta_contains_decoys"] if run.get("decoys_in_fasta") else []) + digest_args(run)
        elif run.get("maps"):
            mps = []
            for rel, m in zip(run_aux_names(run, "maps"), run["maps"]):
                def wm(f, m=m):
                    with open(f, "w", newline="", encoding="utf-8") as fh:
                        w = csv.writer(fh, delimiter="\t")
                        for pep, ps in m:
                            w.writerow([pep, ";".join(ps)])
                mps.append(gen_cli.write_once(os.path.join(ind, "maps"), rel, wm))
            argv_in += ["--peptide_protein_map", *mps]
        jobs = []
        orders = run_orders(run)
        if run.get("via") == "pipeline":
            cwd = os.path.join(d, "fwd")
            os.mkdir(cwd)
            jobs.append({"how": "pipeline", "cwd": cwd, "evidence": argv_in[1 : 1 + len(run["inputs"]["maxquant"]["files"])],
                         "fasta": fps, "digest": run["digest"]})
            orders = []
        for name, ms in orders:
            cwd = os.path.join(d, name)
            os.mkdir(cwd)
            argv = ["--methods", ",".join(ms)] + argv_in + ["--protein_groups_out", os.path.join(cwd, "proteinGroups.txt"), "--suppress_missing_peptide_warning"]
            jobs.append({"argv": argv, "cwd": cwd, "how": run.get("via", "inproc")})
        if submit is not None:
            futs = [submit(lib._safe, run_job, j) for j in jobs]
            results = [f.result() for f in futs]
        else:
            results = [lib._safe(run_job, j) for j in jobs]
        results = [r if "calls" in r else dict(r, calls=[]) for r in results]
        out = {"fwd": results[0]}
        if len(results) > 1:
            out["rev"] = results[1]
            out["alone"] = results[2:]
        return out
    finally:
        shutil.rmtree(d, ignore_errors=True)


def run_shared(sh):
    """parsers.evidence.parse_evidence_files called once per entry of sh["calls"] with ONE list of maps, the way
    run_picked_group_fdr hands its list to every method"""
    import copy

    from picked_group_fdr import methods
    from picked_group_fdr.parsers import evidence

    dm = tempfile.mkdtemp(prefix="pgfdr_c10shm_")
    try:
        maps = [impl_map(m, dm) for m in sh["maps"]] if sh["maps"] else [None]
    finally:
        shutil.rmtree(dm, ignore_errors=True)
    pristine = copy.deepcopy(maps)
    outs = []
    for c in sh["calls"]:
        fmt, _ = fmt_of(method_score_type(c["method"]), c.get("mokapot", False))
        if fmt == "diann" and not pandas_grid_ok():
            raise RuntimeError("pandas float parser disagrees with float() on the PEP literal grid")
        if fmt == "sage" and not pow_grid_ok():
            raise RuntimeError("np.power(10, x) is not correctly rounded on the exponent grid")
        cfg = methods.parse_method_toml(c["method"], False)
        d = tempfile.mkdtemp(prefix="pgfdr_c10sh_")
        try:
            paths = render(c, d)
            before = list(maps)
            try:
                got = {"pil": _pil_json(evidence.parse_evidence_files(paths, maps, cfg.score_type, True))}
            except (ValueError, TypeError) as e:
                if refusal(e) is None:
                    raise
                got = {"err": refusal(e)}
            outs.append(dict(
                got,
                nmaps=[len(before), len(maps)],
                maps_same=len(before) == len(maps) and all(x is y for x, y in zip(before, maps)) and maps == pristine,
            ))
        finally:
            shutil.rmtree(d, ignore_errors=True)
    return {"shared": outs}


def _param_attrs(o):
    """the attributes of a DigestionParams object, as Driver/C10.lean ofParamsC10 writes them"""
    return {"enzyme": o.enzyme, "digestion": o.digestion, "min": o.min_length, "max": o.max_length, "mc": o.cleavages,
            "special": "".join(o.special_aas), "met": bool(o.methionine_cleavage), "db": o.db, "hash": bool(o.use_hash_key)}


def run_glue(g):
    """digestion_params_list_to_arg_list on one DigestionParams object per evidence file, the tokens through argparse
    (add_digestion_arguments, as every tool of the package sets its parser up) and get_digestion_params_list"""
    import argparse

    from picked_group_fdr import digestion_params as dp

    objs = [dp.DigestionParams(p["enzyme"], p["mode"], p["min"], p["max"], p["mc"], p["special"], bool(p.get("decoys")))
            for p in g["params"]]
    given = [_param_attrs(o) for o in objs]
    argv = list(dp.digestion_params_list_to_arg_list(objs))
    out = {"given": given, "argv": argv}
    apars = argparse.ArgumentParser()
    dp.add_digestion_arguments(apars)
    try:
        args = apars.parse_args(argv + (["--fasta_contains_decoys"] if g.get("flag") else []))
    except SystemExit as e:
        out["parsed"] = {"exc": "SystemExit", "msg": "argparse refused the rendered arguments (exit code %s)" % (e.code,)}
        return out
    try:
        out["parsed"] = [_param_attrs(o) for o in dp.get_digestion_params_list(args)]
    except ValueError as e:
        if "unequal length" not in str(e):
            raise
        out["parsed"] = {"err": "unequal_length"}
    return out


def py_strops(s):
    """the string operations ingestion uses, as the implementation / CPython perform them"""
    from picked_group_fdr import helpers

    return {
        "rm": helpers.remove_modifications(s),
        "semi": s.split(";"),
        "comma": s.split(", "),
        "tab": s.split("\t"),
        "s11": s[1:-1],
        "s22": s[2:-2],
        "flank": s.startswith("-.") and s.endswith(".-"),
    }


# ------------------------------------------------------------------------------------------
class P(Prop):
    id = "C10"
    quick_cases = 1200
    thorough_cases = 40000
    chunk = 100
    rule = (
        "file sets (1-3 files, 0-8 rows each) for every shipped method (27 TOMLs, the 8 razor methods included: their MaxQuant "
        "input carries a `Leading razor protein` cell that is one of the leading proteins in 55 % of the rows and another list "
        "otherwise; plus one method file that is not shipped, razor on MaxQuant input without remapping, the only configuration in "
        "which that cell reaches the peptide list), score-description classes drawn uniformly "
        "(MaxQuant remap / multPEP / no_remap, Percolator native + mokapot header with and without remap, FragPipe, Sage, "
        "DIA-NN tsv via pandas, each with and without razor where shipped); 2-4 bare peptides per case spelled with 0-2 modification tokens (nested MaxQuant "
        "parentheses included), PEPs from a 12-point grid so ties are common, 10 % missing PEPs (literal nan; empty cell for "
        "MaxQuant / DIA-NN), 2 % infinite PEPs, 7 % of the file sets with 1-2 cells that hold no number (empty cell for "
        "Percolator / FragPipe / Sage, text such as `abc`, `0,01` for every format: the tool must refuse exactly those file "
        "sets its parser trips over), protein lists mixing "
        "targets, REV__/rev_ decoys and contaminants, digest maps that omit some peptides, rows and columns shuffled; "
        "non-trivial = at least two scored PSMs compete for one stripped peptide and the result is non-empty. "
        "8 % of the cases call parse_evidence_files 2-3 times (methods of different input types, 1-4 files each, different "
        "counts) with ONE shared list of maps; 6 % run the entry point picked_group_fdr.main in process (1-3 methods of "
        "different input types with different numbers of files; maps built by the tool from a generated FASTA of 3-5 "
        "proteins over 8 tryptic blocks with one digestion-parameter set or one per evidence file -- enzyme, missed "
        "cleavages, length window, special residues, full/semi differ between files -- or read from map files; PSM peptides "
        "drawn from the union of the per-file digests so that some are known only to another file's digest), repeated "
        "in the reversed method order and per method alone; evidence, FASTA and map files under random names (sub-directories, "
        "one file name in several directories) mentioned in random, mostly non-alphabetical order, 10 % of the multi-file inputs "
        "mention one file twice; non-trivial there = several methods or several maps and "
        "every method ingests something. The extra stage repeats 18 (quick) / 180 (thorough) such scenarios with every "
        "run in a process of its own. Non-specific searches: 30 % of the remapping direct / shared-list cases hand the ingestion the "
        "(6-residue prefix index, sequences) pair built by the REAL digest functions (get_peptide_to_protein_map_from_params, "
        "get_peptide_to_protein_maps, get_peptide_to_protein_map with digestion none / enzyme no_enzyme) from a generated FASTA of "
        "2-4 proteins over 9 blocks with shared six-residue prefixes (generated or explicit decoys, window min 4-8 / max 9-60), "
        "PSM peptides being substrings of targets, of decoys, of both, peptides contained in no sequence whose first six residues "
        "occur in exactly one / several sequences, peptides of fewer than / exactly six residues, longer than the window, all "
        "with modification spellings; 18 % of the digestion parameter sets of entry-point runs are --enzyme no_enzyme / "
        "--digestion none; 3 % of the cases compare digest.get_proteins on such a pair directly. The pipeline glue: 4 % of the "
        "cases hand digestion_params_list_to_arg_list 1-4 DigestionParams objects (a base set with 1-3 fields varied, the values of "
        "a varied field all equal / all different / partly repeated such as trypsin, trypsin, lys-c; special residues none / empty, "
        "no_enzyme, objects built with fasta_contains_decoys, the flag next to the arguments) and parse the tokens back with argparse "
        "+ get_digestion_params_list; a quarter of the in-process entry-point runs go through pipeline.pipeline.run_picked_group_fdr "
        "(1-4, mostly 3-4, MaxQuant evidence files with quantification columns, one parameter object per file, values partly repeated)"
    )
    assumptions = [
        "csv.reader/float() re-read repr(float) cells exactly; pandas' C float parser agrees with float() on the 12 PEP literals (asserted per process)",
        "IEEE double `1 - p` is exact for p = (1024-k)/1024 and `x + 1e-16` is the correctly rounded exact sum",
        "np.power(10, x) is the correctly rounded 10**x for x in {0,-1,-2,-3,-4,-6,-7,-8} (asserted per process; -5 is NOT and is excluded)",
        "pandas reads `inf`, `-inf`, `nan` and the empty cell of a numeric PEP column as floats, and delivers the whole column as text (missing cells stay NaN) once one cell is no number (asserted per process)",
        "a PEP of -inf (cell `-inf` outside FragPipe / Sage, `inf` under FragPipe) is outside the model (PepInfo.pep is a rational) and not generated",
        "file sets with a refused PEP cell are generated for the direct and shared-list calls of parse_evidence_files only, not for runs of the entry point",
        "pipeline glue: argparse (nargs='+', type=int) turning the rendered tokens into the option lists is exercised, not modelled (the model's argument lists hold the numbers); the db attribute of a parameter object is not rendered and not judged by the oracle (compared with the model: the --fasta_contains_decoys flag decides it); run_picked_group_fdr always quantifies, the generated evidence carries constant Charge / Intensity / Raw file columns",
        "non-specific digests: generated databases have distinct identifiers; a substring of a database sequence whose length lies outside the digest's window is compared with the model but not judged by the oracle beyond 'only sequences containing it' (the property text does not say whether the digest knows it)",
    ]
    trusted_extra = ["pandas.read_csv / csv.reader reading of the generated files (validated only by the correspondence)"]

    # -- generation ---------------------------------------------------------------------
    def _spell(self, rng, bare, malformed_ok=True):
        s = bare
        wellformed = True
        for _ in range(rng.choice([0, 0, 1, 1, 2])):
            pos = rng.randint(0, len(s)) if rng.random() < 0.8 else 0
            # never insert inside a previously inserted token
            depth = 0
            ok = True
            for ch in s[:pos]:
                if ch in "([":
                    depth += 1
                elif ch in ")]":
                    depth -= 1
            if depth != 0:
                ok = False
            if ok:
                s = s[:pos] + rng.choice(MOD_TOKENS) + s[pos:]
        if malformed_ok and rng.random() < 0.04:
            pos = rng.randint(0, len(s))
            s = s[:pos] + rng.choice(["(", ")", "[", "]", "(a[b)c]"]) + s[pos:]
            wellformed = False
        return s, wellformed

    def _proteins(self, rng):
        k = rng.random()
        names = rng.sample(PROT, rng.choice([1, 1, 2, 2, 3]))
        if k < 0.35:
            ps = names
        elif k < 0.55:
            ps = ["REV__" + n for n in names]
        elif k < 0.62:
            ps = ["rev_" + n for n in names]
        elif k < 0.85:  # a target among decoys: decoys must go
            ps = [rng.choice(["", "REV__", "rev_"]) + n for n in names]
            if all(o_is_decoy_id(p) for p in ps):
                ps[rng.randrange(len(ps))] = names[0]
        elif k < 0.90:  # both decoy spellings and no target: the code drops the row
            ps = ["REV__" + names[0], "rev_" + names[-1]]
        elif k < 0.97:
            ps = ["CON__" + n if rng.random() < 0.6 else n for n in names]
        else:  # malformed identifiers
            ps = [rng.choice(["xREV__" + names[0], "", "T1rev_", "REV__rev_T2"])] + names[1:]
        rng.shuffle(ps)
        return ps

    def _gen_files(self, rng, fmt, bares, nfiles):
        files = []
        for _ in range(nfiles):
            nrows = rng.choice([0, 1, 2, 3, 4, 5, 6, 8])
            flank = fmt in ("native", "mokapot") and rng.random() < 0.5
            rows = []
            for _ in range(nrows):
                bare = rng.choice(bares)
                mod, wf = self._spell(rng, bare)
                prots = self._proteins(rng)
                row = {"pep": mod, "mod": "", "score": None, "prot": [], "decoy": False, "bare": bare if wf else None}
                if fmt == "maxquant":
                    row["pep"] = "_" + mod + "_" if rng.random() < 0.97 else mod
                    if row["pep"] == mod:
                        row["bare"] = None
                    row["prot"] = [";".join(prots) if rng.random() < 0.95 else ""]
                    # `Leading razor protein` (read by razor methods instead): mostly one of the leading proteins, sometimes
                    # another list altogether (the parser splits it on ";" all the same), rarely empty
                    u = rng.random()
                    if u < 0.55:
                        row["prot"].append(rng.choice(prots))
                    elif u < 0.95:
                        row["prot"].append(";".join(self._proteins(rng)))
                    else:
                        row["prot"].append("")
                elif fmt in ("native", "mokapot"):
                    fl_row = flank if rng.random() < 0.97 else not flank
                    row["pep"] = "-." + mod + ".-" if fl_row else mod
                    row["prot"] = list(prots) if fmt == "native" else ["\t".join(prots)]
                    if fmt == "native" and rng.random() < 0.03:
                        row["prot"] = []
                elif fmt == "fragpipe":
                    row["pep"] = bare
                    row["mod"] = "" if mod == bare else mod
                    row["prot"] = [prots[0], ", ".join(prots[1:])]
                elif fmt == "sage":
                    row["prot"] = [";".join(prots)]
                else:  # diann: the file lists undecorated ids and a Decoy flag
                    dec = all(o_is_decoy_id(p) for p in prots) and rng.random() < 0.9
                    ids = [re.sub(r"^(REV__|rev_)", "", p) if dec else p for p in prots]
                    ids = [i if i not in ("", "NA", "nan", "null") else "T9" for i in ids]
                    row["prot"] = [";".join(ids)]
                    row["decoy"] = dec
                # score: 10 % missing values (MaxQuant / DIA-NN: the empty cell or the literal nan; the other formats know
                # the literal only -- their empty cell is refused, see _spoil), 2 % infinite PEPs that never enter the list
                # (`inf`; under FragPipe's 1 - p it is `-inf`; Sage's 10 ** -inf is the PEP 0).  A PEP of -inf is not generated.
                u = rng.random()
                if u < 0.10:
                    row["score"] = "empty" if fmt in ("maxquant", "diann") and rng.random() < 0.6 else "nan"
                elif u < 0.12:
                    row["score"] = "-inf" if fmt == "fragpipe" else rng.choice(["inf", "-inf"]) if fmt == "sage" else "inf"
                elif fmt == "fragpipe":
                    row["score"] = rat(Fraction(1024 - rng.choice(FRAG_K), 1024))
                elif fmt == "sage":
                    row["score"] = [str(rng.choice(SAGE_X)), "1"]
                else:
                    row["score"] = rat(rng.choice(PEP_GRID))
                rows.append(row)
            # the flank decision is taken on the first row: recompute bookkeeping for mixed files
            if fmt in ("native", "mokapot") and rows:
                f0 = rows[0]["pep"].startswith("-.") and rows[0]["pep"].endswith(".-")
                for r in rows:
                    has = r["pep"].startswith("-.") and r["pep"].endswith(".-")
                    if has != f0:
                        r["bare"] = None
            files.append(rows)
        return files

    @staticmethod
    def _spoil(rng, fmt, files):
        """put one or two PEP cells that hold no number into a file set (in place): the empty cell where the format does
        not read it as a missing value, text that float() rejects anywhere"""
        slots = [(i, j) for i, rows in enumerate(files) for j in range(len(rows))]
        for i, j in rng.sample(slots, min(len(slots), rng.choice([1, 1, 2]))):
            if fmt not in ("maxquant", "diann") and rng.random() < 0.5:
                files[i][j]["score"] = "empty"
            else:
                files[i][j]["score"] = "junk:" + rng.choice(JUNK)

    def _gen_maps(self, rng, pool, nmaps, cli=False):
        """digest maps over the peptide pool; cli=True: what a --peptide_protein_map file can express (every entry
        names a protein, no empty map)"""
        maps = []
        for _ in range(nmaps):
            m = []
            for b in pool:
                if rng.random() < 0.75:
                    ps = self._proteins(rng)
                    if "" in ps:
                        ps = [p for p in ps if p] or ["T1"]
                    m.append([b, ps if (cli or rng.random() < 0.97) else []])
            if cli and not m:
                m.append([pool[0], ["T1"]])
            rng.shuffle(m)
            maps.append(m)
        return maps

    # non-specific digests ---------------------------------------------------------------------------------------
    HASH_BLOCKS = ["ACDEFG", "GFEDCA", "HIKLM", "PQRST", "TTSSP", "LLGGK", "ACDEFGH", "RKAC", "DEFGHI"]
    HASH_SHARE = 0.3  # share of the remapping direct / shared-list cases whose digests are non-specific

    def _gen_hash_spec(self, rng):
        """a small database (2-4 proteins of 2-4 blocks, so six-residue prefixes are shared on purpose; `ACDEFG` / `GFEDCA`
        are mutual reverses, so peptides of a target AND a generated decoy occur) and the parameters of a non-specific
        search over it"""
        names = PROT[: rng.choice([2, 3, 3, 4])]
        recs = []
        for nm in names:
            sq = "".join(rng.choice(self.HASH_BLOCKS) for _ in range(rng.choice([2, 3, 3, 4])))
            recs.append([nm + rng.choice(["", "", " protein " + nm]), sq])
        decoys_in = rng.random() < 0.25
        if decoys_in:
            for hd, sq in list(recs):
                if rng.random() < 0.85:
                    recs.append([("REV__" if rng.random() < 0.8 else "rev_") + hd.split(" ")[0], sq[::-1]])
        fasta = [recs]
        if len(recs) > 2 and rng.random() < 0.2:
            cut = rng.randint(1, len(recs) - 1)
            fasta = [recs[:cut], recs[cut:]]
        mn = rng.choice([4, 5, 6, 7, 7, 8])
        mx = rng.choice([9, 12, 60, 60])
        enzyme = "no_enzyme" if rng.random() < 0.7 else rng.choice(["trypsin", "lys-c"])
        via = rng.choice(["from_params", "from_params", "maps", "direct"])
        if via == "direct" and len(fasta) > 1:
            via = "from_params"
        return {"hash": {"fasta": fasta, "decoys_in_fasta": decoys_in, "enzyme": enzyme,
                         "mode": "none" if enzyme != "no_enzyme" or rng.random() < 0.5 else "full",
                         "min": mn, "max": mx, "mc": rng.choice([0, 2]), "special": rng.choice(["KR", "KR", "none"]), "via": via}}

    def _hash_variant(self, rng, m):
        """the same database searched with other parameters (another file's digestion parameter set)"""
        h = dict(m["hash"])
        k = rng.choice(["min", "max", "special", "min"])
        h[k] = {"min": rng.choice([4, 6, 8]), "max": rng.choice([9, 12, 60]), "special": "none" if h["special"] == "KR" else "KR"}[k]
        return {"hash": h}

    def _hash_pool(self, rng, maps):
        """stripped peptides for PSMs against non-specific digests: substrings of target sequences, of decoy sequences, of
        both; peptides contained in NO sequence whose first six residues occur in exactly one / in several sequences
        (a database peptide with other residues behind the sixth, or with its last residue changed); fewer than six /
        exactly six residues (interior and at the very end of a sequence); longer than the window; unrelated"""
        views = [HashView(m) for m in maps if is_hash(m)]
        v = views[0]
        seqs = list(v.seqs.items())
        allseq = [sq for w in views for sq in w.seqs.values()]
        tgt = [sq for i, sq in seqs if not o_is_decoy_id(i)] or [sq for _, sq in seqs]
        dec = [sq for i, sq in seqs if o_is_decoy_id(i)]

        def sub(sq, L):
            L = max(1, min(L, len(sq)))
            a = rng.randint(0, len(sq) - L)
            return sq[a:a + L]

        def unknown(q):
            return not any(q in sq for sq in allseq)

        pool = []
        hi = min(v.max, 11)
        for _ in range(3):
            pool.append(("target", sub(rng.choice(tgt), rng.randint(min(v.min, hi), hi))))
        if dec:
            pool.append(("decoy", sub(rng.choice(dec), rng.randint(min(v.min, hi), hi))))
        both = [q for sq in tgt for L in (max(v.min, 6), max(v.min, 6) + 1) for q in [sq[a:a + L] for a in range(len(sq) - L + 1)]
                if any(q in d for d in dec)]
        if both:
            pool.append(("both", rng.choice(both)))
        sixes = sorted({sq[a:a + 6] for sq in allseq for a in range(len(sq) - 5)})
        for want_one in (True, False):
            cands = [x for x in sixes if (sum(1 for sq in allseq if x in sq) == 1) == want_one]
            if cands:
                q = rng.choice(cands) + rng.choice(["W", "WW", "WWK", "WAC", "YDEFG"])
                if unknown(q):
                    pool.append(("unknown_prefix_one" if want_one else "unknown_prefix_several", q))
        for _ in range(2):  # a database peptide with its last residue changed
            q = sub(rng.choice(tgt + dec), rng.randint(max(v.min, 7), max(v.min, 7) + 3))
            q = q[:-1] + rng.choice("WYV")
            if len(q) > 6 and unknown(q):
                pool.append(("unknown_last_residue", q))
        pool.append(("short", sub(rng.choice(tgt), rng.choice([3, 4, 5, 5]))))
        pool.append(("six", sub(rng.choice(tgt), 6)))
        pool.append(("six_at_end", rng.choice(tgt + dec)[-6:]))
        if v.max < 20:
            long = [sq for sq in tgt if len(sq) > v.max]
            if long:
                pool.append(("longer_than_window", sub(rng.choice(long), v.max + 1)))
        pool.append(("unrelated", rng.choice(["WWWWWWW", "AAAAK", "NAQQKAAAAK"])))
        return pool

    def _hash_case_parts(self, rng, nmaps):
        """(maps, bare peptides) of a remapping call whose digests are non-specific: one database; with several maps the
        other files' digests are the same database under other parameters, or (20 %) an ordinary dict digest"""
        m0 = self._gen_hash_spec(rng)
        maps = [m0]
        for _ in range(nmaps - 1):
            maps.append(self._hash_variant(rng, m0) if rng.random() < 0.8 else None)
        pool = self._hash_pool(rng, [m for m in maps if m])
        prefer = [q for t, q in pool if t.startswith("unknown_prefix") or t == "unknown_last_residue"]
        rest = [q for t, q in pool if q not in prefer]
        bares = []
        if prefer and rng.random() < 0.85:
            bares += rng.sample(prefer, min(len(prefer), rng.choice([1, 1, 2])))
        for q in rng.sample(rest, min(len(rest), rng.choice([2, 3, 3, 4]))):
            if q not in bares:
                bares.append(q)
        rng.shuffle(bares)
        maps = [m if m else self._gen_maps(rng, bares, 1)[0] for m in maps]
        return maps, bares

    def gen_case(self, rng, tier):
        u = rng.random()
        if u < 0.08:
            return {"shared": self.gen_shared(rng)}
        if u < 0.08 + RUN_SHARE:
            if rng.random() < 0.25:  # the pipeline's entry point: parameter objects through the glue
                return {"run": self.gen_pipeline_run(rng)}
            return {"run": self.gen_run(rng, "inproc")}
        if u > 0.96:
            return {"glue": self.gen_glue(rng)}
        if u < 0.08 + RUN_SHARE + 0.03:
            # digest.get_proteins itself on the pair the real code builds for a non-specific search
            m = self._gen_hash_spec(rng)
            qs = []
            for _, q in self._hash_pool(rng, [m]) + self._hash_pool(rng, [m]):
                if q not in qs:
                    qs.append(q)
            return {"lookup": {"map": m, "peptides": qs}}
        classes = dict(shipped_classes(), **custom_classes())
        st = rng.choice(list(classes))
        method = rng.choice(classes[st])
        mokapot = "Perc" in st and rng.random() < 0.5
        fmt, remap = fmt_of(st, mokapot)
        bares = rng.sample(BARE, rng.choice([2, 2, 3, 4]))
        nfiles = rng.choice([1, 1, 2, 2, 3])
        nmaps = 1 if (nfiles == 1 or rng.random() < 0.65) else nfiles
        if nfiles == 3 and rng.random() < 0.08:
            nmaps = 2  # caller error: zip() pairs two maps with the first two files, the third file is not read
        hashed = remap and rng.random() < self.HASH_SHARE
        if hashed:  # the digests of a non-specific search: built by the real code from a FASTA, see impl_map
            maps, bares = self._hash_case_parts(rng, nmaps)
        files = self._gen_files(rng, fmt, bares, nfiles)
        if rng.random() < 0.07:
            self._spoil(rng, fmt, files)
        if not hashed:
            maps = []
            if remap:
                pool = bares + [b for b in BARE if b not in bares][:1]
                maps = self._gen_maps(rng, pool, nmaps)
        return {"method": method, "mokapot": mokapot, "colseed": rng.randint(0, 999), "maps": maps, "files": files}

    # several methods, one list of maps ----------------------------------------------------------
    def _pick_methods(self, rng, n, want_two_remap):
        """n shipped non-razor methods of distinct score types; want_two_remap: a MaxQuant-input and a
        Percolator-input remapping method among them (they share the map list but read different files)"""
        classes = shipped_classes()
        sts = list(classes)
        chosen = []
        if want_two_remap and n >= 2:
            mq = [st for st in sts if family_of(st) == "maxquant" and fmt_of(st, False)[1]]
            pc = [st for st in sts if family_of(st) == "perc" and fmt_of(st, False)[1]]
            if mq and pc:
                chosen = [rng.choice(mq), rng.choice(pc)]
        rest = [st for st in sts if st not in chosen]
        rng.shuffle(rest)
        chosen += rest[: max(0, n - len(chosen))]
        rng.shuffle(chosen)
        return [rng.choice(classes[st]) for st in chosen]

    def _file_counts(self, rng, fams):
        """a different number of files per input type (1-4)"""
        pool = [1, 2, 2, 3, 3, 4]
        counts, out = [], {}
        for fam in fams:
            c = rng.choice([x for x in pool if x not in counts] or pool)
            counts.append(c)
            out[fam] = c
        return out

    def gen_shared(self, rng):
        ncalls = rng.choice([2, 2, 3])
        ms = self._pick_methods(rng, ncalls, rng.random() < 0.7)
        fams = []
        for m in ms:
            f = family_of(method_score_type(m))
            if f not in fams:
                fams.append(f)
        counts = self._file_counts(rng, fams)
        bares = rng.sample(BARE, rng.choice([2, 3, 3, 4]))
        any_remap = any(fmt_of(method_score_type(m), False)[1] for m in ms)
        hmaps = None
        if any_remap and rng.random() < self.HASH_SHARE:
            nmaps = 1 if rng.random() < 0.7 else rng.choice(sorted(set(counts.values())))
            hmaps, bares = self._hash_case_parts(rng, nmaps)
        calls = []
        for m in ms:
            st = method_score_type(m)
            mokapot = "Perc" in st and rng.random() < 0.5
            fmt, _ = fmt_of(st, mokapot)
            nf = counts[family_of(st)] if rng.random() < 0.9 else rng.choice([1, 2, 3])
            files = self._gen_files(rng, fmt, bares, nf)
            if rng.random() < 0.04:
                self._spoil(rng, fmt, files)
            calls.append({"method": m, "mokapot": mokapot, "colseed": rng.randint(0, 999), "files": files})
        maps = []
        if hmaps is not None:
            maps = hmaps
        elif any_remap or rng.random() < 0.3:
            nmaps = 1 if rng.random() < 0.7 else rng.choice([len(c["files"]) for c in calls])
            pool = bares + [b for b in BARE if b not in bares][:1]
            maps = self._gen_maps(rng, pool, nmaps)
        return {"maps": maps, "calls": calls}

    # runs through the entry point -------------------------------------------------------------------
    def _gen_fasta(self, rng):
        names = PROT[: rng.choice([3, 4, 5])]
        recs = []
        for n in names:
            seq = "".join(rng.choice(RUN_BLOCKS) for _ in range(rng.choice([2, 3, 3, 4])))
            if rng.random() < 0.25:
                seq = "M" + seq
            recs.append([n + rng.choice(["", " protein " + n, " OS=Homo sapiens GN=G" + n[1:]]), seq])
        decoys_in = rng.random() < 0.4
        if decoys_in:
            for h, s in list(recs):
                if rng.random() < 0.85:
                    recs.append([("REV__" if rng.random() < 0.8 else "rev_") + h.split(" ")[0], s[::-1]])
        if len(recs) > 2 and rng.random() < 0.2:
            cut = rng.randint(1, len(recs) - 1)
            return [recs[:cut], recs[cut:]], decoys_in
        return [recs], decoys_in

    RUN_HASH_SHARE = 0.18

    def _gen_digest(self, rng, n):
        """n parameter sets; n > 1: at least one parameter differs between the first two files"""
        opts = {"enzyme": ["trypsin", "trypsin", "trypsinp", "lys-c", "arg-c"], "mc": [0, 1, 2, 2], "min": [5, 5, 6, 10],
                "max": [60, 60, 15, 10, 5], "special": ["KR", "KR", "none"], "mode": ["full", "full", "full", "semi"]}
        base = {k: rng.choice(v) for k, v in opts.items()}
        if base["min"] > base["max"]:
            base["min"] = 5
        # non-specific search (18 % of the runs): --enzyme no_enzyme, or --digestion none with any enzyme; the tool then
        # builds the (prefix index, sequences) pair.  With per-file parameter sets the other files may be searched
        # enzymatically (the varied parameter is drawn from the lists below).
        if rng.random() < self.RUN_HASH_SHARE:
            opts = dict(opts, enzyme=opts["enzyme"] + ["no_enzyme"] * 3, mode=opts["mode"] + ["none"] * 3,
                        min=[5, 6, 7, 8], max=[60, 60, 15, 10])
            if rng.random() < 0.6:
                base["enzyme"] = "no_enzyme"
            else:
                base["mode"] = "none"
            base["min"], base["max"] = rng.choice(opts["min"]), rng.choice(opts["max"])
        if n <= 1:
            return [base]
        vary = rng.sample(["mc", "mc", "enzyme", "min", "max", "special", "mode"], rng.choice([1, 1, 2]))
        dg = []
        for i in range(n):
            p = dict(base)
            for k in set(vary):
                p[k] = rng.choice(opts[k])
            dg.append(p)
        k = vary[0]
        if all(p == dg[0] for p in dg):
            dg[1][k] = next(v for v in opts[k] if v != dg[0][k])
        return dg

    def _run_bares(self, rng, run):
        """PSM peptides for a run whose maps come from --fasta: drawn from the union of the per-file digests (the
        harness's own), peptides known to some files' digests only preferred, a decoy peptide, an unknown one"""
        own = own_digest_maps(run)
        maps = [map_view(m) for m in own]
        known = [m.known(16) for m in maps]
        union = sorted(set().union(*known)) if maps else []
        short = [k for k in union if len(k) <= 16] or union
        diff = [k for k in short if not all(k in kn for kn in known)]
        common = [k for k in short if all(k in kn for kn in known)]
        decoy = [k for k in short if any(o_decoy_list(m.get(k)) for m, kn in zip(maps, known) if k in kn)]
        bares = []
        for pool, k in ((diff, rng.choice([1, 2, 3])), (common, rng.choice([1, 2])), (decoy, 1)):
            for b in rng.sample(pool, min(len(pool), k)):
                if b not in bares:
                    bares.append(b)
        if any(is_hash(m) for m in own):
            # peptides contained in no sequence whose first six residues occur in the database, short ones, ...
            hp = self._hash_pool(rng, [m for m in own if is_hash(m)])
            pick = [q for t, q in hp if t.startswith("unknown_")]
            pick = rng.sample(pick, min(len(pick), rng.choice([1, 2])))
            pick += [q for t, q in rng.sample(hp, min(len(hp), 2))]
            for b in pick:
                if b not in bares:
                    bares.append(b)
        unknown = [b for b in BARE + ["NAQQKAAAAK"] if b not in union]
        if unknown and (rng.random() < 0.5 or len(bares) < 2):
            bares.append(rng.choice(unknown))
        while len(bares) < 2:
            bares.append(rng.choice([b for b in BARE if b not in bares]))
        return bares

    # the glue of the pipeline entry points ----------------------------------------------------------
    GLUE_OPTS = {"enzyme": ["trypsin", "lys-c", "trypsinp", "arg-c"], "mc": [2, 0, 1, 3], "min": [7, 5, 6, 10],
                 "max": [60, 15, 10, 30], "special": ["KR", "none", "K", "R"], "mode": ["full", "semi", "none"]}
    GLUE_PATTERNS = {1: [[0]], 2: [[0, 0], [0, 1]],
                     3: [[0, 0, 1], [0, 1, 0], [0, 1, 1], [0, 0, 0], [0, 1, 2]],
                     4: [[0, 0, 1, 1], [0, 1, 0, 1], [0, 0, 0, 1], [0, 1, 1, 1], [0, 0, 1, 2], [0, 1, 0, 2], [0, 1, 2, 1],
                         [0, 1, 1, 0], [0, 0, 0, 0], [0, 1, 2, 3]]}

    def _gen_glue_params(self, rng, n, opts=None, shape=None):
        """n parameter sets (one per evidence file): a base set, 1-2 fields varied (each field in turn), the values of a
        varied field all equal / all different / PARTLY REPEATED (trypsin, trypsin, lys-c) -- the shape in which a list
        with its repeated values dropped has neither length one nor length n"""
        opts = opts or self.GLUE_OPTS
        base = {k: rng.choice(v) for k, v in opts.items()}
        if base["min"] > base["max"]:
            base["min"] = min(opts["min"])
        dg = [dict(base) for _ in range(n)]
        shape = shape or rng.choice(["partly", "partly", "partly", "different", "equal"] if n >= 3 else ["different", "different", "equal"])
        pats = self.GLUE_PATTERNS[n]
        if shape == "partly":
            pats = [q for q in pats if 1 < len(set(q)) < n]
        elif shape == "different":
            pats = [q for q in pats if len(set(q)) == n]
        else:
            pats = [q for q in pats if len(set(q)) == 1]
        for k in rng.sample(sorted(opts), rng.choice([1, 1, 1, 2, 3])):
            pat = rng.choice(pats)
            pat = [v for v in pat]
            vals = rng.sample(opts[k], min(len(opts[k]), max(pat) + 1))
            for i in range(n):
                dg[i][k] = vals[pat[i] % len(vals)]
        for p in dg:
            if p["min"] > p["max"]:
                p["min"], p["max"] = p["max"], p["min"]
        return dg

    def gen_glue(self, rng):
        n = rng.choice([1, 2, 3, 3, 3, 4, 4])
        opts = dict(self.GLUE_OPTS)
        if rng.random() < 0.2:
            opts["enzyme"] = opts["enzyme"] + ["no_enzyme"]
        if rng.random() < 0.15:
            opts["special"] = opts["special"] + [""]
        dg = self._gen_glue_params(rng, n, opts)
        for p in dg:
            p["decoys"] = rng.random() < 0.1
        return {"params": dg, "flag": rng.random() < 0.2}

    def gen_pipeline_run(self, rng):
        """pipeline.run_picked_group_fdr on 1-4 MaxQuant evidence files, one DigestionParams object per file (mostly
        3-4 files with partly repeated values); the database has no explicit decoys (the pipeline functions never pass
        --fasta_contains_decoys)"""
        n = rng.choice([1, 2, 3, 3, 3, 3, 4, 4])
        run = {"methods": ["picked_protein_group_mq_input"], "inputs": {}, "fasta": None, "decoys_in_fasta": False,
               "digest": [], "maps": [], "via": "pipeline"}
        while True:
            fa, dec = self._gen_fasta(rng)
            if not dec:
                break
        run["fasta"] = fa
        opts = {"enzyme": ["trypsin", "lys-c", "trypsinp", "arg-c"], "mc": [0, 1, 2], "min": [5, 6, 10], "max": [60, 15, 10],
                "special": ["KR", "none"], "mode": ["full", "semi"]}
        if rng.random() < 0.12:
            opts["enzyme"] = opts["enzyme"] + ["no_enzyme"]
        run["digest"] = self._gen_glue_params(rng, n, opts)
        if n > 1 and rng.random() < 0.08:
            run["digest"] = run["digest"][:1]  # one object for all files
        bares = self._run_bares(rng, run)
        for _ in range(5):
            files = self._gen_files(rng, "maxquant", bares, n)
            if all(len(f) > 0 for f in files):
                break
        run["inputs"]["maxquant"] = {"mokapot": False, "colseed": rng.randint(0, 999), "files": files,
                                     "names": gen_cli.file_names(rng, n, "mq")}
        run["fasta_names"] = gen_cli.file_names(rng, len(run["fasta"]), "fasta")
        return run

    def gen_run(self, rng, via):
        nm = rng.choice([1, 1, 2, 2, 2, 3])
        ms = self._pick_methods(rng, nm, rng.random() < 0.75)
        remaps = [m for m in ms if fmt_of(method_score_type(m), False)[1]]
        if nm == 1 and not remaps and rng.random() < 0.8:
            classes = shipped_classes()
            st = rng.choice([st for st in classes if fmt_of(st, False)[1]])
            ms = [rng.choice(classes[st])]
            remaps = list(ms)
        fams = []
        for m in ms:
            f = family_of(method_score_type(m))
            if f not in fams:
                fams.append(f)
        if len(fams) == 1:
            counts = {fams[0]: rng.choice([1, 2, 2, 3, 3, 4])}
        else:
            counts = self._file_counts(rng, fams)
        remap_counts = sorted({counts[family_of(method_score_type(m))] for m in remaps})
        run = {"methods": ms, "inputs": {}, "fasta": None, "decoys_in_fasta": False, "digest": [], "maps": [], "via": via}
        use_fasta = bool(remaps) and rng.random() < 0.7 or (not remaps and rng.random() < 0.3)
        # how many maps: one for all files, or one per file of the remapping methods (a second remapping method
        # with another number of files then meets zip()'s truncation, rarely generated)
        nmaps = 1
        if remap_counts and remap_counts[-1] > 1:
            if len(remap_counts) == 1 and rng.random() < 0.75:
                nmaps = remap_counts[0]
            elif len(remap_counts) > 1 and rng.random() < 0.12:
                nmaps = rng.choice(remap_counts)
        if use_fasta:
            run["fasta"], run["decoys_in_fasta"] = self._gen_fasta(rng)
            run["digest"] = self._gen_digest(rng, nmaps)
            bares = self._run_bares(rng, run)
        else:
            bares = rng.sample(BARE, rng.choice([2, 3, 3, 4]))
            if remaps or rng.random() < 0.3:
                pool = bares + [b for b in BARE if b not in bares][:1]
                run["maps"] = self._gen_maps(rng, pool, nmaps, cli=True)
        for fam in fams:
            st = next(method_score_type(m) for m in ms if family_of(method_score_type(m)) == fam)
            mokapot = fam == "perc" and rng.random() < 0.5
            fmt, _ = fmt_of(st, mokapot)
            for _ in range(5):
                files = self._gen_files(rng, fmt, bares, counts[fam])
                if sum(len(f) for f in files) > 0:
                    break
            run["inputs"][fam] = {"mokapot": mokapot, "colseed": rng.randint(0, 999), "files": files}
        # file names and their order on the command line: the i-th file MENTIONED belongs to the i-th parameter set /
        # map whatever the files are called (sorted order is the exception); 10 % of the multi-file inputs mention one
        # file twice (the tool reads every mention, each through the map of its position)
        for fam in fams:
            inp = run["inputs"][fam]
            fmt, _ = fmt_of(next(method_score_type(m) for m in ms if family_of(method_score_type(m)) == fam), inp["mokapot"])
            nm = gen_cli.file_names(rng, len(inp["files"]), NAME_KIND[fmt])
            if len(nm) >= 2 and rng.random() < 0.1:
                src, dst = rng.sample(range(len(nm)), 2)
                nm[dst] = nm[src]
                inp["files"][dst] = [dict(r) for r in inp["files"][src]]
            inp["names"] = nm
        if run["fasta"]:
            run["fasta_names"] = gen_cli.file_names(rng, len(run["fasta"]), "fasta")
        if run["maps"]:
            run["map_names"] = gen_cli.file_names(rng, len(run["maps"]), "map")
        return run

    # -- the implementation ---------------------------------------------------------------
    def run_impl(self, case):
        from picked_group_fdr import methods
        from picked_group_fdr.parsers import evidence

        if "strops" in case:
            return {"strops": py_strops(case["strops"])}
        if "cli" in case:
            return run_cli(case["cli"])
        if "shared" in case:
            return run_shared(case["shared"])
        if "run" in case:
            return run_scenario(case["run"])
        if "glue" in case:
            return run_glue(case["glue"])
        if "lookup" in case:
            from picked_group_fdr import digest

            d = tempfile.mkdtemp(prefix="pgfdr_c10lk_")
            try:
                real = impl_map(case["lookup"]["map"], d)
            finally:
                shutil.rmtree(d, ignore_errors=True)
            return {"lookup": [list(digest.get_proteins(real, q)) for q in case["lookup"]["peptides"]],
                    "pair": isinstance(real, tuple)}
        st = method_score_type(case["method"])
        fmt, remap = fmt_of(st, case.get("mokapot", False))
        if fmt == "diann" and not pandas_grid_ok():
            raise RuntimeError("pandas float parser disagrees with float() on the PEP literal grid")
        if fmt == "sage" and not pow_grid_ok():
            raise RuntimeError("np.power(10, x) is not correctly rounded on the exponent grid")
        d = tempfile.mkdtemp(prefix="pgfdr_c10_")
        try:
            cfg = parse_method(case["method"], d)
            paths = render(case, d)
            maps = [impl_map(m, d) for m in case["maps"]] if case["maps"] else [None]
            try:
                res = evidence.parse_evidence_files(paths, maps, cfg.score_type, True)
            except (ValueError, TypeError) as e:
                if refusal(e) is None:
                    raise
                return {"err": refusal(e)}
            pil = _pil_json(res)
        finally:
            shutil.rmtree(d, ignore_errors=True)
        return {"pil": pil}

    # -- the model ---------------------------------------------------------------------------
    @staticmethod
    def _ingest_req(c):
        fmt, _ = fmt_of(method_score_type(c["method"]), bool(c.get("mokapot")))

        def prot(r):  # MaxQuant: [Leading proteins, Leading razor protein] as the file holds them
            return [r["prot"][0], _razor_cell(r)] if fmt == "maxquant" else r["prot"]

        def score(sc):
            return "junk" if isinstance(sc, str) and sc.startswith("junk:") else sc

        files = [
            [{"pep": r["pep"], "mod": r.get("mod", ""), "score": score(r["score"]), "prot": prot(r), "decoy": bool(r.get("decoy"))} for r in rows]
            for rows in c["files"]
        ]
        req = {"op": "ingest", "method": c["method"], "mokapot": bool(c.get("mokapot")), "maps": [model_map(m) for m in c["maps"]], "files": files}
        if c["method"] in CUSTOM:  # no row of the generated table: the model gets the score description itself
            req["description"] = method_score_type(c["method"])
        return req

    def model_request(self, case, impl_out):
        if "cli" in case:
            return None
        if "strops" in case:
            return {"op": "c10_strops", "strings": [case["strops"]]}
        if "lookup" in case:
            return {"op": "c10_lookup", "map": model_map(case["lookup"]["map"]), "peptides": case["lookup"]["peptides"]}
        if "glue" in case:
            g = case["glue"]
            return {"op": "c10_glue", "flag": bool(g.get("flag")),
                    "params": [{"enzyme": p["enzyme"], "digestion": p["mode"], "min": p["min"], "max": p["max"], "mc": p["mc"],
                                "special": p["special"], "decoys": bool(p.get("decoys"))} for p in g["params"]]}
        if "shared" in case:
            sh = case["shared"]
            return [self._ingest_req(dict(c, maps=sh["maps"])) for c in sh["calls"]]
        if "run" in case:
            run = case["run"]
            maps = run_maps(run)
            return [self._ingest_req(sub_case(run, m, maps)) for m in run["methods"]]
        return self._ingest_req(case)

    @staticmethod
    def _model_pil(resp):
        if isinstance(resp, dict) and "pil" in resp:
            return [[k, rat(fl(s)), ps] for k, s, ps in resp["pil"]]
        return resp

    @staticmethod
    def _run_view(R, pils):
        """what is compared of one entry-point run: the peptide list of every ingestion, in order.  A run that ends
        in the degenerate `no_ranked_groups` stops after the ingestion of the method that has no ranked group."""
        if not isinstance(R, dict):
            return R
        if R.get("err") == "no_ranked_groups":
            pils = pils[: len(R.get("calls", []))]
        return {"pils": pils, "err": R.get("err"), "exc": R.get("exc")}

    def model_view(self, case, resp, impl_out):
        if "strops" in case:
            return {"strops": resp["out"][0]} if isinstance(resp, dict) and "out" in resp else resp
        if "lookup" in case:
            return {"lookup": resp["out"]} if isinstance(resp, dict) and "out" in resp else resp
        if "glue" in case:
            return {k: resp[k] for k in ("given", "argv", "parsed")} if isinstance(resp, dict) and "argv" in resp else resp
        if "shared" in case:
            return {"shared": [self._model_pil(r) for r in resp]}
        if "run" in case:
            run = case["run"]
            M = {m: self._model_pil(r) for m, r in zip(run["methods"], resp)}
            out = {}
            io = impl_out if isinstance(impl_out, dict) else {}
            for name, ms in run_orders(run):
                R = io.get(name) if not name.startswith("alone") else (io.get("alone") or [None] * len(run["methods"]))[int(name[5:])]
                out[name] = self._run_view(R if isinstance(R, dict) else {}, [M[m] for m in ms])
            return out
        if isinstance(resp, dict) and "pil" in resp:
            return {"pil": self._model_pil(resp)}
        return resp

    def impl_view(self, case, impl_out):
        if "lookup" in case and isinstance(impl_out, dict) and "lookup" in impl_out:
            return {"lookup": impl_out["lookup"]}
        if "glue" in case and isinstance(impl_out, dict) and "argv" in impl_out:
            return {k: impl_out[k] for k in ("given", "argv", "parsed")}
        if "shared" in case and isinstance(impl_out, dict) and "shared" in impl_out:
            return {"shared": [o["pil"] if "pil" in o else {"err": o.get("err")} for o in impl_out["shared"]]}
        if "run" in case and isinstance(impl_out, dict) and "fwd" in impl_out:
            out = {}
            for name, ms in run_orders(case["run"]):
                R = impl_out.get(name) if not name.startswith("alone") else impl_out["alone"][int(name[5:])]
                out[name] = self._run_view(R, [c["pil"] for c in R.get("calls", [])])
            return out
        if isinstance(impl_out, dict) and "pil" in impl_out:
            return {"pil": impl_out["pil"]}
        return impl_out

    # -- oracle ---------------------------------------------------------------------------------
    def oracle(self, case, impl_out):
        if "strops" in case:
            return None
        if "cli" in case:
            return self.cli_oracle(case["cli"], impl_out)
        if "lookup" in case:
            return self.lookup_oracle(case["lookup"], impl_out)
        if "shared" in case:
            return self.shared_oracle(case["shared"], impl_out)
        if "run" in case:
            return self.run_oracle(case["run"], impl_out)
        if "glue" in case:
            return self.glue_oracle(case["glue"], impl_out)
        if isinstance(impl_out, dict) and "exc" in impl_out:
            return "ingestion raised %s: %s where a peptide list was expected" % (impl_out["exc"], impl_out.get("msg", ""))
        want, info = expected(case)
        why = self.refusal_verdict(info, impl_out)
        if why is not None or info["refused"] or (info.get("refusal_free") and impl_out.get("err") == "bad_score_cell"):
            return why
        if not isinstance(impl_out, dict) or "pil" not in impl_out:
            return "no peptide list returned: %r" % (impl_out,)
        return self.judge(want, impl_out["pil"], info)

    @staticmethod
    def glue_oracle(g, out):
        """'several evidence files each with its own digestion parameters': the parameter sets the tool works with after
        the pipeline handed it the caller's objects as arguments are the caller's -- as many as were given, the i-th with
        the values of the i-th object (enzyme, digestion mode, length window, missed cleavages, special residues and what
        follows from them); a single set that arrives is the set of every file (the tool builds one digest for all
        files), which is right when all files were given equal values.  `db` is not judged: the arguments do not carry it (a flag of its own decides it)."""
        if not isinstance(out, dict) or "given" not in out:
            return "glue failed: %r" % (out,)
        given, parsed = out["given"], out.get("parsed")
        n = len(given)
        vals = lambda k: " ".join(repr(x[k]) for x in given)
        if isinstance(parsed, dict):
            return "%d parameter sets (enzyme %s) rendered as `%s`: the tool refuses them: %s" % (
                n, vals("enzyme"), " ".join(out.get("argv", [])), parsed.get("err") or parsed.get("msg"))
        if len(parsed) == 1 and n > 1:
            parsed = parsed * n  # one set that arrives serves every file (one digest for all): fine if all files share it
        if len(parsed) != n:
            return "%d parameter sets (one per evidence file) rendered as `%s`: %d parameter sets arrive in the tool" % (
                n, " ".join(out.get("argv", [])), len(parsed))
        for i, (a, b) in enumerate(zip(given, parsed)):
            for k in ("enzyme", "digestion", "min", "max", "mc", "special", "met", "hash"):
                if a[k] != b[k]:
                    return "parameter set %d of %d: %s = %r given (all files: %s), %r arrives in the tool (arguments `%s`)" % (
                        i + 1, n, k, a[k], vals(k), b[k], " ".join(out.get("argv", [])))
        return None

    @staticmethod
    def lookup_oracle(lk, out):
        """digest.get_proteins on a non-specific digest: a peptide inside the length window gets exactly the target and
        generated decoy sequences that contain it, a peptide no sequence contains gets none (whatever its length and its
        first six residues); a substring outside the window is not judged beyond 'only sequences containing it'"""
        if not isinstance(out, dict) or "lookup" not in out:
            return "lookup failed: %r" % (out,)
        v = HashView(lk["map"])
        for q, got in zip(lk["peptides"], out["lookup"]):
            c, judged = v.lookup(q)
            if judged and sorted(got) != c:
                if not c:
                    return f"peptide {q} is contained in no target or decoy sequence and must be unknown to the digest, got {got} ({v.prefix_owners(q)} sequences contain its first six residues)"
                return f"peptide {q}: proteins {got} returned, the sequences containing it are {c}"
            if not judged and not set(got) <= set(c):
                return f"peptide {q}: proteins {got} returned, the sequences containing it are {c}"
        return None

    @staticmethod
    def refusal_verdict(info, out):
        """a file set with a PEP cell its parser cannot convert is refused (and only such a file set)"""
        err = out.get("err") if isinstance(out, dict) else None
        if info["refused"] and err != "bad_score_cell":
            return "a PEP cell that is no number (and no missing value of the format) was not refused: %r" % (
                {k: v for k, v in out.items() if k in ("pil", "err")} if isinstance(out, dict) else out,)
        if not info["refused"] and err == "bad_score_cell" and info.get("refusal_free"):
            return None
        if not info["refused"] and err is not None:
            return "ingestion refused the file set (%s) although no cell its parser has to convert holds anything but a number or a missing value of the format" % err
        return None

    def judge(self, want, pil, info=None):
        """the property on one ingested peptide list: `want`, `info` = expected(case)"""
        free = (info or {}).get("free", {})
        for k, s, ps in pil:
            if s == "nan":
                return f"peptide {k} reported with a NaN score (rows without a PEP must be ignored)"
        got_all = [(k, unrat(s), ps) for k, s, ps in pil]
        for k, s, ps in got_all:
            # a substring of a database sequence outside the length window of a non-specific digest: the property does not
            # say whether the digest knows it; if it is reported, then with sequences containing it
            if k in free and not any(set(ps) <= set(a) for a in free[k]):
                return f"peptide {k}: proteins {ps} reported, the database sequences containing it are {free[k]}"
        got = [g for g in got_all if g[0] not in free]
        gk, wk = [g[0] for g in got], [w[0] for w in want]
        if sorted(gk) != sorted(wk):
            extra = sorted(set(gk) - set(wk))
            miss = sorted(set(wk) - set(gk))
            return f"peptides reported {sorted(gk)} but the PSMs with a PEP and a usable protein list strip to {sorted(wk)} (unexpected {extra}, missing {miss})"
        wd = {k: (s, ps) for k, s, ps in want}
        tol = (info or {}).get("tol", (Fraction(0), Fraction(0)))
        attain = (info or {}).get("attain", {})
        for k, s, ps in got:
            if not close_score(s, wd[k][0], tol):
                return f"peptide {k}: PEP {float(s)} reported, lowest PEP over its PSMs is {float(wd[k][0])}"
            # "that PSM's proteins": the protein list of A PSM attaining the lowest PEP (the text names no tie-break), as
            # a collection (the text states no order of the proteins of a PSM; how many times one is named is kept)
            ok = attain.get(k) or [wd[k][1]]
            if not any(sorted(ps) == sorted(a) for a in ok):
                return f"peptide {k}: proteins {ps} reported, the PSMs attaining the lowest PEP carry {ok}"
        # (the order of the peptides in the returned collection is not stated by the text: the model pins it, theorem
        #  `result_order`, and model_view/impl_view compare it -- a disagreement there is reported without a failing input)
        # purity of the resulting list (well-formed identifiers: markers only as prefixes)
        for k, s, ps in got_all:
            if not ps:
                return f"peptide {k} reported with an empty protein list"
            if all(self._wellformed_id(p) for p in ps):
                if any(o_is_decoy_id(p) for p in ps) and not o_decoy_list(ps):
                    return f"peptide {k}: protein list {ps} mixes targets and decoys"
        return None

    @staticmethod
    def _pil_content(pil):
        """a peptide list up to what the property text fixes: peptide -> (PEP, proteins as a collection)"""
        return sorted((k, s, sorted(ps)) for k, s, ps in pil)

    @staticmethod
    def _maps_untouched(c):
        if c.get("maps_same", True) and (not c.get("nmaps") or c["nmaps"][0] == c["nmaps"][1]):
            return None
        n = c.get("nmaps") or ["?", "?"]
        return (
            f"the caller's list of peptide-to-protein maps was changed by the ingestion (length {n[0]} before, {n[1]} after): "
            "the list is shared by all methods of a run, so a later method is paired with maps that are not its own"
        )

    def shared_oracle(self, sh, out, check_list=True):
        """several ingestions handed ONE list of maps: each gives what it gives on its own, the list stays as it was"""
        if isinstance(out, dict) and "exc" in out:
            return "ingestion raised %s: %s where a peptide list was expected" % (out["exc"], out.get("msg", ""))
        if not isinstance(out, dict) or "shared" not in out or len(out["shared"]) != len(sh["calls"]):
            return "no peptide list per ingestion returned: %r" % (out,)
        for i, (c, o) in enumerate(zip(sh["calls"], out["shared"])):
            want, info = expected(dict(c, maps=sh["maps"]))
            why = self.refusal_verdict(info, o)
            if why is None and not info["refused"] and not (info.get("refusal_free") and o.get("err") == "bad_score_cell"):
                why = self.judge(want, o["pil"], info)
            if why:
                return f"ingestion {i + 1} of {len(sh['calls'])} ({c['method']}, {len(c['files'])} files, same map list as the ingestions before it): {why}"
        for i, (c, o) in enumerate(zip(sh["calls"], out["shared"])):
            why = self._maps_untouched(o) if check_list else None
            if why:
                return f"ingestion {i + 1} of {len(sh['calls'])} ({c['method']}, {len(c['files'])} files): {why}"
        return None

    def run_oracle(self, run, out):
        """every method of every entry-point run ingests what the property says for ITS files and ITS digests
        (maps from the harness's own digest of the FASTA, per file); the same in both method orders and alone;
        written tables are pure and name only ingested proteins"""
        if isinstance(out, dict) and "exc" in out and "fwd" not in out:
            return "run raised %s: %s" % (out["exc"], out.get("msg", ""))
        if not isinstance(out, dict) or "fwd" not in out:
            return "no run result: %r" % (out,)
        maps = run_maps(run)
        exp = {m: expected(sub_case(run, m, maps)) for m in run["methods"]}
        want = {m: e[0] for m, e in exp.items()}
        per_method = {}
        for name, ms in run_orders(run):
            R = out.get(name) if not name.startswith("alone") else out["alone"][int(name[5:])]
            where = "--methods " + ",".join(ms)
            if not isinstance(R, dict):
                return f"{where}: no result {R!r}"
            if "exc" in R:
                return f"{where}: the run failed with {R['exc']}: {R.get('msg', '')}"
            calls = R.get("calls", [])
            if len(calls) != len(ms) and not (R.get("err") == "no_ranked_groups" and 0 < len(calls) <= len(ms)):
                return f"{where}: {len(calls)} evidence ingestions recorded for {len(ms)} methods"
            for m, c in zip(ms, calls):
                inp = run["inputs"][family_of(method_score_type(m))]
                nf = len(inp["files"])
                tag = f"{where}: method {m} ({nf} files" + (", mentioned in the order " + " ".join(inp["names"]) if isinstance(inp.get("names"), list) and nf > 1 else "") + ")"
                twice = isinstance(inp.get("names"), list) and len(set(inp["names"])) < nf
                # (a file mentioned twice: reading it once or twice is the tool's business as long as the peptide list is
                #  the one of reading every mention through the map of its position -- judged below)
                if c["nfiles"] != nf and not twice:
                    return f"{tag}: {c['nfiles']} evidence files handed to the ingestion"
                why = self.judge(want[m], c["pil"], exp[m][1])
                if why:
                    return f"{tag}: {why}"
                # (a map list altered by an ingestion is not a verdict here: if it matters, a method of one of the
                # two orders ingests a wrong list, which is what the lines above report; see features)
                if isinstance(c.get("groups"), dict):
                    return f"{tag}: written table unreadable: {c['groups']}"
                if c.get("groups") is not None:
                    why = self.groups_verdict(want[m], c["groups"], exp[m][1])
                    if why:
                        return f"{tag}: {why}"
                per_method.setdefault(m, []).append((where, c["pil"]))
        for m, seen in per_method.items():
            for where, pil in seen[1:]:
                if self._pil_content(pil) != self._pil_content(seen[0][1]):
                    return f"method {m} ingests {pil} in the run `{where}` but {seen[0][1]} in the run `{seen[0][0]}` on the same files"
        return None

    def cli_oracle(self, case, out):
        """purity of the table the command line wrote: every reported group is a decoy group or lists no decoy;
        and every reported protein is one the ingested list names"""
        if not isinstance(out, dict):
            return "command line returned %r" % (out,)
        want, info = expected(case)
        if info["refused"] or out.get("err") == "bad_score_cell":
            return self.refusal_verdict(info, out)
        if out.get("err") == "no_ranked_groups":
            return None
        if "groups" not in out:
            return "command line failed: %s" % (out.get("msg"),)
        return self.groups_verdict(want, out["groups"], info)

    def groups_verdict(self, want, groups, info=None):
        known = {p for _, _, ps in want for p in ps} | {p for ls in (info or {}).get("free", {}).values() for a in ls for p in a}
        for g in groups:
            if all(self._wellformed_id(p) for p in g):
                if any(o_is_decoy_id(p) for p in g) and not o_decoy_list(g):
                    return f"reported protein group {g} mixes targets and decoys"
            for p in g:
                if p not in known:
                    return f"reported protein {p!r} is not listed by any ingested peptide (known: {sorted(known)})"
        return None

    # signature predicate of the finding fixes/C10-two-peptide-digest-map (for known_findings.json, should the
    # repair not be applied): the method remaps, some digest map holds exactly two peptides, ingestion dies
    # with KeyError: 0 in digest.get_proteins
    def two_peptide_digest_map(self, case, impl_out, rec=None):
        if "cli" in case or "strops" in case or "shared" in case or "run" in case or "lookup" in case:
            return False
        _, remap = fmt_of(method_score_type(case["method"]), case.get("mokapot", False))
        return (
            remap
            and any(len(m) == 2 for m in case["maps"] if not is_hash(m))
            and isinstance(impl_out, dict)
            and impl_out.get("exc") == "KeyError"
            and impl_out.get("msg") == "0"
        )

    @staticmethod
    def _wellformed_id(p):
        for m in ("REV__", "rev_"):
            if m in p and not p.startswith(m):
                return False
            if p.startswith(m) and any(x in p[len(m):] for x in ("REV__", "rev_")):
                return False
        return True

    # -- bookkeeping -------------------------------------------------------------------------------
    def nontrivial(self, case, impl_out):
        if "strops" in case or "cli" in case:
            return False
        if "lookup" in case:
            v = HashView(case["lookup"]["map"])
            res = [v.lookup(q) for q in case["lookup"]["peptides"]]
            return any(c and j for c, j in res) and any(not c and v.prefix_owners(q) for (c, j), q in zip(res, case["lookup"]["peptides"]))
        if "glue" in case:
            ps = case["glue"]["params"]
            return len(ps) >= 3 and any(1 < len({str(p[k]) for p in ps}) < len(ps) for k in ("enzyme", "mode", "min", "max", "mc", "special"))
        if "shared" in case:
            sh = case["shared"]
            exps = [expected(dict(c, maps=sh["maps"])) for c in sh["calls"]]
            return len(sh["calls"]) > 1 and all(w and not i["refused"] for w, i in exps)
        if "run" in case:
            run = case["run"]
            maps = run_maps(run)
            return (len(run["methods"]) > 1 or len(maps) > 1) and all(expected(sub_case(run, m, maps))[0] for m in run["methods"])
        want, info = expected(case)
        return bool(want) and info["scored"] > len(want) and not info["refused"]

    @staticmethod
    def run_sensitivity(run):
        """which glue a run exercises: (a PSM whose peptide its own file's digest does not know but another
        file's does, a later remapping method with more files than an earlier one that has >= 2)"""
        maps = run_maps(run)
        elsewhere = later_more = False
        rem = [m for m in run["methods"] if fmt_of(method_score_type(m), False)[1]]
        if len(maps) > 1:
            dm = [map_view(m) for m in maps]
            for m in rem:
                for i, rows in enumerate(sub_case(run, m, maps)["files"][: len(dm)]):
                    for r in rows:
                        b = r.get("bare")
                        if b is not None and not dm[i].get(b) and any(d.get(b) for d in dm):
                            elsewhere = True
        for order in (rem, rem[::-1]):
            ns = [len(run["inputs"][family_of(method_score_type(m))]["files"]) for m in order]
            for i in range(len(ns)):
                for j in range(i + 1, len(ns)):
                    if ns[i] >= 2 and ns[j] > ns[i] and not later_more:
                        # ... and the files beyond the earlier method's count matter to the later method
                        sc = sub_case(run, order[j], maps)
                        later_more = expected(sc)[0] != expected(dict(sc, files=sc["files"][: ns[i]]))[0]
        return elsewhere, later_more

    def features(self, case, impl_out):
        if "strops" in case:
            return ["strops"]
        if "cli" in case:
            return ["cli"]
        if "lookup" in case:
            v = HashView(case["lookup"]["map"])
            f = {"lookup", "lookup_via=" + case["lookup"]["map"]["hash"].get("via", "from_params")}
            for q in case["lookup"]["peptides"]:
                c, j = v.lookup(q)
                f.add("lookup:" + ("outside_window" if not j else "known" if c else "unknown_prefix_in_%d_sequences" % min(v.prefix_owners(q), 2)))
                if len(q) <= 6:
                    f.add("lookup:shorter_than_6" if len(q) < 6 else "lookup:exactly_6")
                if j and c and any(o_is_decoy_id(p) for p in c) and not all(o_is_decoy_id(p) for p in c):
                    f.add("lookup:in_target_and_decoy_sequence")
            return sorted(f)
        if "glue" in case:
            ps = case["glue"]["params"]
            f = ["glue", "glue_params=%d" % len(ps)]
            for k in ("enzyme", "mode", "min", "max", "mc", "special"):
                d = len({str(p[k]) for p in ps})
                if d > 1:
                    f.append("glue_%s:%s" % (k, "all_different" if d == len(ps) else "partly_repeated"))
            if all(p == ps[0] for p in ps) and len(ps) > 1:
                f.append("glue_all_equal")
            if case["glue"].get("flag"):
                f.append("glue_fasta_contains_decoys_flag")
            if any(p.get("decoys") for p in ps):
                f.append("glue_object_built_with_fasta_contains_decoys")
            if any(p["special"] in ("none", "") for p in ps):
                f.append("glue_no_special_residues")
            if any(p["enzyme"] == "no_enzyme" for p in ps):
                f.append("glue_no_enzyme")
            return f
        if "shared" in case:
            sh = case["shared"]
            ns = [len(c["files"]) for c in sh["calls"]]
            f = ["shared_map_list", "shared_calls=%d" % len(ns), "shared_maps=%d" % len(sh["maps"])]
            if any(is_hash(m) for m in sh["maps"]):
                f.append("shared_non_specific_digest")
            if len(set(ns)) > 1:
                f.append("shared_different_file_counts")
            if len(sh["maps"]) == 1 and any(ns[i] >= 2 and any(n > ns[i] for n in ns[i + 1:]) for i in range(len(ns))):
                f.append("shared_later_call_more_files")
            return f
        if "run" in case:
            run = case["run"]
            maps = run_maps(run)
            f = ["run:" + run.get("via", "inproc"), "run_methods=%d" % len(run["methods"]),
                 "run_maps_from=" + ("fasta" if run.get("fasta") else "map_files" if run.get("maps") else "none"),
                 "run_maps=%d" % len(maps)]
            f += ["run_input=" + fam for fam in sorted(run["inputs"])]
            if len({len(i["files"]) for i in run["inputs"].values()}) > 1:
                f.append("run_different_file_counts")
            if any(is_hash(m) for m in maps):
                f.append("run_non_specific_digest")
                if not all(is_hash(m) for m in maps):
                    f.append("run_non_specific_and_enzymatic_digests")
                for m in run["methods"]:
                    if fmt_of(method_score_type(m), False)[1]:
                        f += ["run_non_specific:" + k for k in sorted(expected(sub_case(run, m, maps))[1]["hash"])]
            if run.get("via") == "pipeline":
                dg = run["digest"]
                f.append("pipeline_params=%d" % len(dg))
                for _, k in DIGEST_FLAGS:
                    d = len({str(p[k]) for p in dg})
                    if d > 1:
                        f.append("pipeline_%s:%s" % (k, "all_different" if d == len(dg) else "partly_repeated"))
            if run.get("fasta") and len(maps) > 1:
                f.append("run_per_file_digestion_params")
                f += ["run_varies=" + k for _, k in DIGEST_FLAGS if len({str(p[k]) for p in eff_digest(run)}) > 1]
            for fam, inp in sorted(run["inputs"].items()):
                nm = inp.get("names")
                if isinstance(nm, list) and len(nm) > 1:
                    f.append("run_files_in_%s_order" % ("alphabetical" if nm == sorted(nm) else "non_alphabetical"))
                    if len(set(nm)) < len(nm):
                        f.append("run_file_mentioned_twice")
                    if len({x.rsplit("/", 1)[-1] for x in set(nm)}) < len(set(nm)):
                        f.append("run_same_file_name_in_different_directories")
                    if run.get("fasta") and len(maps) > 1 and nm != sorted(nm):
                        f.append("run_per_file_digestion_params_and_files_in_non_alphabetical_order")
            for nk in ("fasta_names", "map_names"):
                if len(run.get(nk) or []) > 1:
                    f.append("run_%s_in_%s_order" % (nk, "alphabetical" if run[nk] == sorted(run[nk]) else "non_alphabetical"))
            e, l = self.run_sensitivity(run)
            if e:
                f.append("run_peptide_known_to_other_files_digest_only")
            if l:
                f.append("run_later_method_more_files")
            if isinstance(impl_out, dict):
                Rs = []
                for name, ms in run_orders(run):
                    Rs.append(impl_out.get(name) if not name.startswith("alone") else (impl_out.get("alone") or [{}] * 9)[int(name[5:])])
                Rs = [R for R in Rs if isinstance(R, dict)]
                if any(R.get("err") for R in Rs):
                    f.append("run_no_ranked_groups")
                if any(self._maps_untouched(c) for R in Rs for c in R.get("calls", [])):
                    f.append("run_map_list_altered_by_ingestion")
            return f
        st = method_score_type(case["method"])
        fmt, remap = fmt_of(st, case.get("mokapot", False))
        want, info = expected(case)
        f = ["format=%s" % fmt, "remap=%s" % remap, "scoreType=%s" % st, "files=%d" % len(case["files"]), "razor=%s" % is_razor(st)]
        if info["refused"]:
            f.append("refused_bad_score_cell:" + fmt)
        if info["inf"]:
            f.append("has_inf_pep")
        if info["razor_cell_differs"]:
            f.append("razor_column_differs_from_leading_proteins")
        cells = {("junk" if sc.startswith("junk:") else sc) for rows in case["files"] for r in rows for sc in [r["score"]] if isinstance(sc, str)}
        f += ["cell=" + c for c in sorted(cells)]
        nrows = sum(len(r) for r in case["files"])
        f.append("rows=%s" % (nrows if nrows < 10 else "10+"))
        if len(case["maps"]) > 1:
            f.append("map_per_file" if len(case["maps"]) == len(case["files"]) else "map_count_mismatch")
        for k in ("unknown", "purged", "emptied", "nan", "ties"):
            if info[k]:
                f.append("has_" + k)
        if any(r.get("bare") is None for rows in case["files"] for r in rows):
            f.append("has_malformed_row")
        if isinstance(impl_out, dict) and "exc" in impl_out:
            f.append("impl_exception=" + impl_out["exc"])
        if any(len(m) == 2 for m in case["maps"] if not is_hash(m)):
            f.append("map_of_two_peptides")
        if remap and any(is_hash(m) for m in case["maps"]):
            f.append("non_specific_digest")
            f += ["non_specific_via=" + m["hash"].get("via", "from_params") for m in case["maps"] if is_hash(m) and "hash" in m]
            if not all(is_hash(m) for m in case["maps"]):
                f.append("non_specific_and_enzymatic_digests_in_one_call")
            f += ["non_specific:" + k for k in sorted(info["hash"])]
        return f

    def shrink(self, case):
        if "cli" in case:
            for c in self.shrink(case["cli"]):
                if cli_ok(c):
                    yield {"cli": c}
            return
        if "strops" in case:
            s = case["strops"]
            for i in range(len(s)):
                yield {"strops": s[:i] + s[i + 1:]}
            return
        if "lookup" in case:
            lk = case["lookup"]
            for i in range(len(lk["peptides"])):
                if len(lk["peptides"]) > 1:
                    yield {"lookup": dict(lk, peptides=lk["peptides"][:i] + lk["peptides"][i + 1:])}
            for m2 in self._shrink_hash(lk["map"]):
                yield {"lookup": dict(lk, map=m2)}
            return
        if "glue" in case:
            g = case["glue"]
            ps = g["params"]
            for i in range(len(ps)):
                if len(ps) > 1:
                    yield {"glue": dict(g, params=ps[:i] + ps[i + 1:])}
            if g.get("flag"):
                yield {"glue": dict(g, flag=False)}
            for k in ("decoys", "enzyme", "mode", "min", "max", "mc", "special"):
                if len({str(p.get(k)) for p in ps}) > 1:
                    yield {"glue": dict(g, params=[dict(p, **{k: ps[0].get(k)}) for p in ps])}
            for k, v in (("decoys", False), ("enzyme", "trypsin"), ("mode", "full"), ("min", 7), ("max", 60), ("mc", 2), ("special", "KR")):
                if len({str(p.get(k)) for p in ps}) == 1 and ps[0].get(k) != v:
                    yield {"glue": dict(g, params=[dict(p, **{k: v}) for p in ps])}
            return
        if "shared" in case or "run" in case:
            # the engine keeps any candidate on which the oracle still fails; a case in which some method ingests
            # the wrong peptide list must not shrink to one in which only the caller's map list is altered
            strong = self._wrong_list(case)
            if not strong and "shared" in case:
                # only the caller's list is altered so far: show what that does to a LATER ingestion (one more call,
                # with more files than any before and a PSM in its last file), then shrink that
                for cand in self._escalate_shared(case["shared"]):
                    if self._wrong_list(cand):
                        yield cand
                        return
            if "run" in case and case["run"].get("via") == "cli":
                cands = [{"run": dict(case["run"], via="inproc")}]  # same run without a process of its own
            else:
                cands = self._shrink_shared(case["shared"]) if "shared" in case else self._shrink_run(case["run"])
            for cand in cands:
                if not strong or self._wrong_list(cand):
                    yield cand
            return
        files, maps = case["files"], case["maps"]
        base = {k: case[k] for k in ("method", "mokapot", "colseed")}
        # drop a whole file (and its map if maps are per file)
        if len(files) > 1:
            for i in range(len(files)):
                m2 = maps[:i] + maps[i + 1:] if len(maps) == len(files) and len(maps) > 1 else maps
                if len(m2) not in (0, 1, len(files) - 1):
                    continue
                yield dict(base, files=files[:i] + files[i + 1:], maps=m2)
        # drop a row
        for i, rows in enumerate(files):
            for j in range(len(rows)):
                yield dict(base, files=files[:i] + [rows[:j] + rows[j + 1:]] + files[i + 1:], maps=maps)
        # drop a map entry / make the database of a non-specific digest smaller
        for i, m in enumerate(maps):
            if is_hash(m):
                for m2 in self._shrink_hash(m):
                    yield dict(base, files=files, maps=maps[:i] + [m2] + maps[i + 1:])
                continue
            for j in range(len(m)):
                yield dict(base, files=files, maps=maps[:i] + [m[:j] + m[j + 1:]] + maps[i + 1:])
        # per-file maps -> a single map
        if len(maps) > 1:
            yield dict(base, files=files, maps=maps[:1])
        if case.get("colseed"):
            yield dict(base, files=files, maps=maps, colseed=0)

    @staticmethod
    def _shrink_hash(m):
        """smaller databases of a non-specific digest: without one record, the files merged, a sequence without its first
        / last residue, the plain builder call"""
        if "hash" not in m:
            return
        h = m["hash"]
        fa = h["fasta"]
        for i, recs in enumerate(fa):
            for j in range(len(recs)):
                f2 = [r for r in fa[:i] + [recs[:j] + recs[j + 1:]] + fa[i + 1:] if r]
                if f2:
                    yield {"hash": dict(h, fasta=f2)}
        if len(fa) > 1:
            yield {"hash": dict(h, fasta=[[r for recs in fa for r in recs]])}
        if h.get("via", "from_params") != "from_params":
            yield {"hash": dict(h, via="from_params")}
        for i, recs in enumerate(fa):
            for j, (hd, sq) in enumerate(recs):
                for sq2 in (sq[1:], sq[:-1]):
                    if len(sq2) >= 1:
                        yield {"hash": dict(h, fasta=fa[:i] + [recs[:j] + [[hd, sq2]] + recs[j + 1:]] + fa[i + 1:])}

    def _wrong_list(self, case):
        """does some ingestion of this shared / run case return a peptide list the property rejects?"""
        out = lib._safe(self.run_impl, case)
        if "shared" in case:
            why = lib._safe(self.shared_oracle, case["shared"], out, False)
        else:
            why = lib._safe(self.run_oracle, case["run"], out)
        return why is not None

    @staticmethod
    def _escalate_shared(sh):
        maps = sh["maps"]
        if any(is_hash(m) for m in maps):
            return
        entry = next(([k, ps] for m in maps for k, ps in m if ps and not any(o_is_decoy_id(p) for p in ps)), None)
        if entry is None:
            entry = ["AAAAK", ["T1"]]
            maps = [[entry] + list(m) for m in maps] if maps else [[entry]]
        pep, ps = entry
        nmax = max(len(c["files"]) for c in sh["calls"])
        for c in sh["calls"]:
            fmt, remap = fmt_of(method_score_type(c["method"]), c.get("mokapot", False))
            if not remap:
                continue
            row = {"pep": pep, "mod": "", "score": rat(PEP_GRID[0]), "prot": [";".join(ps)], "decoy": False, "bare": pep}
            if fmt == "maxquant":
                row["pep"] = "_" + pep + "_"
            elif fmt == "native":
                row["prot"] = list(ps)
            elif fmt == "mokapot":
                row["prot"] = ["\t".join(ps)]
            probe = dict(c, files=[[] for _ in range(nmax)] + [[row]])
            yield {"shared": {"maps": maps, "calls": list(sh["calls"]) + [probe]}}

    @staticmethod
    def _shrink_files(files):
        """smaller file lists: without one row, then with one file emptied (the NUMBER of files is kept, it is what
        the pairing with the maps depends on)"""
        for i, rows in enumerate(files):
            for j in range(len(rows)):
                yield files[:i] + [rows[:j] + rows[j + 1:]] + files[i + 1:]

    def _shrink_shared(self, sh):
        calls, maps = sh["calls"], sh["maps"]
        if len(calls) > 1:
            for i in range(len(calls)):
                yield {"shared": {"maps": maps, "calls": calls[:i] + calls[i + 1:]}}
        for i, c in enumerate(calls):
            if len(c["files"]) > 1:
                for j in range(len(c["files"])):
                    yield {"shared": {"maps": maps, "calls": calls[:i] + [dict(c, files=c["files"][:j] + c["files"][j + 1:])] + calls[i + 1:]}}
        for i, c in enumerate(calls):
            for fs in self._shrink_files(c["files"]):
                yield {"shared": {"maps": maps, "calls": calls[:i] + [dict(c, files=fs)] + calls[i + 1:]}}
        if len(maps) > 1:
            yield {"shared": {"maps": maps[:1], "calls": calls}}
        for i, m in enumerate(maps):
            if is_hash(m):
                for m2 in self._shrink_hash(m):
                    yield {"shared": {"maps": maps[:i] + [m2] + maps[i + 1:], "calls": calls}}
                continue
            for j in range(len(m)):
                yield {"shared": {"maps": maps[:i] + [m[:j] + m[j + 1:]] + maps[i + 1:], "calls": calls}}

    def _shrink_run(self, run):
        """candidates of _shrink_run_raw with the bookkeeping of file names kept consistent (sync_run_mentions), then the
        question whether the names matter: numbered names in the order of mention, or the same names in sorted order"""
        for cand in self._shrink_run_raw(run):
            r2 = sync_run_mentions(cand["run"])
            if r2 != run:
                yield {"run": r2}
        for fam, inp in sorted(run["inputs"].items()):
            nm = inp.get("names")
            if isinstance(nm, list):
                # numbered names (a file mentioned twice becomes two files of equal content)
                yield {"run": dict(run, inputs=dict(run["inputs"], **{fam: {k: v for k, v in inp.items() if k != "names"}}))}
                if len(set(nm)) == len(nm) and nm != sorted(nm):
                    yield {"run": dict(run, inputs=dict(run["inputs"], **{fam: dict(inp, names=sorted(nm))}))}
        for nk in ("fasta_names", "map_names"):
            if run.get(nk):
                yield {"run": {k: v for k, v in run.items() if k != nk}}

    def _shrink_run_raw(self, run):
        def fams_of(ms):
            return {family_of(method_score_type(m)) for m in ms}

        ms = run["methods"]
        # fewer methods (inputs nobody reads go too)
        if len(ms) > 1:
            for i in range(len(ms)):
                ms2 = ms[:i] + ms[i + 1:]
                yield {"run": dict(run, methods=ms2, inputs={f: v for f, v in run["inputs"].items() if f in fams_of(ms2)})}
        # fewer files of one input (per-file parameter sets / maps of a single remapping input follow)
        for fam, inp in sorted(run["inputs"].items()):
            n = len(inp["files"])
            if n > 1:
                for j in range(n):
                    inp2 = dict(inp, files=inp["files"][:j] + inp["files"][j + 1:])
                    if isinstance(inp.get("names"), list) and len(inp["names"]) == n:
                        inp2["names"] = inp["names"][:j] + inp["names"][j + 1:]
                    r2 = dict(run, inputs=dict(run["inputs"], **{fam: inp2}))
                    if len(run["inputs"]) == 1:
                        if len(run.get("digest") or []) == n:
                            r2["digest"] = run["digest"][:j] + run["digest"][j + 1:]
                        if len(run.get("maps") or []) == n:
                            r2["maps"] = run["maps"][:j] + run["maps"][j + 1:]
                            if len(run.get("map_names") or []) == n:
                                r2["map_names"] = run["map_names"][:j] + run["map_names"][j + 1:]
                    yield {"run": r2}
        # fewer rows
        for fam, inp in sorted(run["inputs"].items()):
            for fs in self._shrink_files(inp["files"]):
                yield {"run": dict(run, inputs=dict(run["inputs"], **{fam: dict(inp, files=fs)}))}
        # smaller database
        if run.get("fasta"):
            fa = run["fasta"]
            fn = run_aux_names(run, "fasta") if run.get("fasta_names") else None
            for i, recs in enumerate(fa):
                for j in range(len(recs)):
                    f2 = fa[:i] + [recs[:j] + recs[j + 1:]] + fa[i + 1:]
                    keep = [k for k, r in enumerate(f2) if r]
                    if keep:
                        yield {"run": dict(run, fasta=[f2[k] for k in keep], **({"fasta_names": [fn[k] for k in keep]} if fn else {}))}
            if len(fa) > 1:
                yield {"run": dict(run, fasta=[[r for recs in fa for r in recs]], **({"fasta_names": fn[:1]} if fn else {}))}
            dg = run["digest"]
            if len(dg) > 1:
                yield {"run": dict(run, digest=dg[:1])}
                for _, k in DIGEST_FLAGS:  # one parameter less that differs between the files
                    if len({str(p[k]) for p in dg}) > 1:
                        yield {"run": dict(run, digest=[dict(p, **{k: dg[0][k]}) for p in dg])}
        for i, m in enumerate(run.get("maps") or []):
            for j in range(len(m)):
                if len(m) > 1:
                    yield {"run": dict(run, maps=run["maps"][:i] + [m[:j] + m[j + 1:]] + run["maps"][i + 1:])}
        if len(run.get("maps") or []) > 1:
            yield {"run": dict(run, maps=run["maps"][:1], **({"map_names": run["map_names"][:1]} if run.get("map_names") else {}))}

    # -- extra stage: the string functions on a malformed stream ---------------------------------------
    def extra(self, ctx):
        rng = random.Random(ctx["seed"] * 7919 + 17)
        alpha = "AM()[]ox;,\t -._"
        strings = ["", "(", ")", "()", "[]", "A(ox(x))B[+57]C)D(E[F)G]H(", "_(ac)AM(Oxidation (M))K_", "-.-", "-..-", "-.A.-", "a, b,c, ", ";;", "é(ü)[ß]"]
        n = 400 if ctx["tier"] == "quick" else 4000
        for _ in range(n):
            strings.append("".join(rng.choice(alpha) for _ in range(rng.randint(0, 12))))
        if ctx["tier"] == "thorough" and not ctx.get("replay"):
            import itertools

            for L in range(0, 7):
                for t in itertools.product("A()[]", repeat=L):
                    strings.append("".join(t))
        if ctx.get("replay"):
            strings = strings[:13]
        resp = ctx["model"].ask([{"op": "c10_strops", "strings": strings}])[0]
        fails = []
        if "out" not in resp:
            return {"evaluations": 0, "failures": [{"case": {"strops": True}, "why": None, "disagree": {"impl": "n/a", "model": resp}}], "info": {"strops": "driver failed"}}
        for s, o in zip(strings, resp["out"]):
            want = py_strops(s)
            if want != o:
                fails.append({"case": {"strops": s}, "why": None, "disagree": {"impl": want, "model": o}})
                if len(fails) >= 3:
                    break
        # the same kind of file sets through the real command line: purity of the written table
        ncli = 0 if ctx.get("replay") else (6 if ctx["tier"] == "quick" else 160)
        crng = random.Random(ctx["seed"] * 104729 + 5)
        cases = []
        while len(cases) < ncli:
            c = self.gen_case(crng, ctx["tier"])
            if "method" in c and c["method"] not in CUSTOM and cli_ok(c) and sum(len(f) for f in c["files"]) > 0:
                cases.append(c)
        # entry-point runs in processes of their own (`python -m picked_group_fdr ...` with the ingestion recorded):
        # (a) one remapping method, maps from --fasta, several evidence files each with its own digestion parameters;
        # (b) several methods in one run, two of them remapping, one map for all files, the method with more files
        #     (whose last files matter) coming after one with at least two in one of the two orders;
        # (c) any other run of several methods.  Every scenario of (b)/(c) = both method orders + each method alone.
        # (h) a remapping method on a non-specific search (--enzyme no_enzyme / --digestion none): the pair is built by the tool
        quota = {"a": 6, "b": 6, "c": 3, "h": 3} if ctx["tier"] == "quick" else {"a": 60, "b": 60, "c": 30, "h": 30}
        if ctx.get("replay"):
            quota = {}
        rrng = random.Random(ctx["seed"] * 15485863 + 11)
        runs = []
        guard = 0
        while any(quota.values()) and guard < 20000:
            guard += 1
            r = self.gen_run(rrng, "cli")
            rem = [m for m in r["methods"] if fmt_of(method_score_type(m), False)[1]]
            if rem and r.get("fasta") and quota.get("h") and any(is_hash(m) for m in run_maps(r)):
                k = "h"
            elif len(r["methods"]) == 1:
                k = "a" if (r.get("fasta") and rem and len(eff_digest(r)) > 1) else None
            elif len(run_maps(r)) == 1 and self.run_sensitivity(r)[1]:
                k = "b"
            else:
                k = "c"
            if k and quota.get(k):
                quota[k] -= 1
                runs.append({"run": r})
        stats = {"tables": 0, "no_ranked_groups": 0, "groups": 0, "decoy_groups": 0}
        rstats = {"scenarios": len(runs), "entry_point_runs": 0, "ingestions_compared": 0, "tables": 0,
                  "per_file_digestion_params": 0, "peptide_known_to_other_files_digest_only": 0,
                  "later_method_more_files": 0, "no_ranked_groups": 0, "files_mentioned_in_non_alphabetical_order": 0,
                  "per_file_digestion_params_and_non_alphabetical_order": 0, "file_mentioned_twice": 0,
                  "non_specific_digest_and_remapping_method": 0}
        modelled = 0
        if cases or runs:
            from concurrent.futures import ThreadPoolExecutor

            with ThreadPoolExecutor(max_workers=16) as ex, ThreadPoolExecutor(max_workers=max(1, len(runs))) as outer:
                futs = [outer.submit(lib._safe, run_scenario, c["run"], ex.submit) for c in runs]
                outs = list(ex.map(lambda c: lib._safe(run_cli, c), cases))
                routs = [f.result() for f in futs]
            for c, o in zip(cases, outs):
                why = self.cli_oracle(c, o)
                if isinstance(o, dict) and "groups" in o:
                    stats["tables"] += 1
                    stats["groups"] += len(o["groups"])
                    stats["decoy_groups"] += sum(1 for g in o["groups"] if o_decoy_list(g))
                elif isinstance(o, dict) and o.get("err") == "bad_score_cell":
                    stats["refused_bad_score_cell"] = stats.get("refused_bad_score_cell", 0) + 1
                elif isinstance(o, dict) and o.get("err"):
                    stats["no_ranked_groups"] += 1
                if why is not None and len(fails) < 3:
                    fails.append({"case": {"cli": c}, "impl": o, "why": why})
            # model + oracle on the recorded runs
            reqs = [self.model_request(c, o) for c, o in zip(runs, routs)]
            flat = [q for r in reqs for q in r]
            answers = ctx["model"].ask(flat)
            pos = 0
            for c, o, r in zip(runs, routs, reqs):
                resp = answers[pos : pos + len(r)]
                pos += len(r)
                mv = lib._safe(self.model_view, c, resp, o)
                iv = lib._safe(self.impl_view, c, o)
                why = lib._safe(self.oracle, c, o)
                if isinstance(why, dict):
                    why = "oracle crashed: %s %s" % (why.get("exc"), why.get("msg"))
                modelled += 1
                e, l = self.run_sensitivity(c["run"])
                rstats["per_file_digestion_params"] += int(bool(c["run"].get("fasta")) and len(eff_digest(c["run"])) > 1)
                rstats["peptide_known_to_other_files_digest_only"] += int(e)
                rstats["non_specific_digest_and_remapping_method"] += int(
                    any(is_hash(m) for m in run_maps(c["run"])) and any(fmt_of(method_score_type(m), False)[1] for m in c["run"]["methods"]))
                nms = [i["names"] for i in c["run"]["inputs"].values() if isinstance(i.get("names"), list) and len(i["names"]) > 1]
                unsorted = any(nm != sorted(nm) for nm in nms)
                rstats["files_mentioned_in_non_alphabetical_order"] += int(unsorted)
                rstats["per_file_digestion_params_and_non_alphabetical_order"] += int(unsorted and bool(c["run"].get("fasta")) and len(eff_digest(c["run"])) > 1)
                rstats["file_mentioned_twice"] += int(any(len(set(nm)) < len(nm) for nm in nms))
                rstats["later_method_more_files"] += int(l)
                if isinstance(o, dict) and "fwd" in o:
                    for R in [o["fwd"], o.get("rev")] + list(o.get("alone") or []):
                        if isinstance(R, dict):
                            rstats["entry_point_runs"] += 1
                            rstats["ingestions_compared"] += len(R.get("calls", []))
                            rstats["tables"] += sum(1 for k in R.get("calls", []) if isinstance(k.get("groups"), list))
                            rstats["no_ranked_groups"] += int(R.get("err") == "no_ranked_groups")
                if (why is not None or iv != mv) and len(fails) < 3:
                    fails.append({"case": c, "impl": o, "why": why, "disagree": None if iv == mv else {"impl": iv, "model": mv}})
        return {
            "evaluations": len(strings) + len(cases) + len(runs),
            "failures": fails,
            "modelled": modelled,
            "distinct_nontrivial": sum(1 for c, o in zip(runs, routs) if self.nontrivial(c, o)) if runs else 0,
            "info": {"string_ops_compared": len(strings), "cli_runs": len(cases), "cli": stats, "entry_point_scenarios_in_own_process": rstats},
        }
