"""C10 — evidence ingestion keeps the best PSM per peptide; targets and decoys never mix.

Correspondence: parsers.evidence.parse_evidence_files (real code, called as picked_group_fdr.run_method
calls it: evidence files, list of peptide->protein maps, method_config.score_type, suppress flag) on
files rendered from an abstract row list, vs PgFdr.C10.ingestFiles (Lean model) on the same rows.

A case is one file set for one shipped (non-razor) method:
  {"method": <toml name>, "mokapot": bool, "colseed": int,
   "maps":  [[[peptide, [protein...]], ...], ...]      digest maps (1 or one per file; [] = not remapping)
   "files": [[row, ...], ...]}
  row = {"pep": cell of the peptide column exactly as written, "mod": FragPipe `Modified Peptide` cell,
         "score": [num, den] of the double in the PEP column *before* the format's transform | "nan",
         "prot": protein cells (see Model/C10.lean RawRow), "decoy": DIA-NN Decoy flag,
         "bare": the intended stripped peptide (generator's bookkeeping for the oracle; None = malformed)}

Numbers: PEP cells are written with repr(float) and re-read by float() (csv) or pandas' C parser (DIA-NN;
its agreement with float() on the literal grid is asserted once per process).  FragPipe probabilities are
(1024-k)/1024 so `1 - p` is exact and `1 - p + 1e-16` is the correctly rounded image of the model's exact
sum; Sage exponents are integers for which `np.power(10, x)` is the correctly rounded 10**x (asserted).
The model's rational is converted with one true division and compared with `==`.
"""
import csv
import os
import random
import re
import shutil
import tempfile
from fractions import Fraction
from pathlib import Path

import lib
from lib import Prop, rat, unrat

# ------------------------------------------------------------------------------------------
# universe
# ------------------------------------------------------------------------------------------
BARE = ["AAAAK", "CCCDK", "DDEER", "EEFFK", "MMGGR", "NAQQK", "GGHHK"]
PROT = ["T1", "T2", "T3", "T4", "T5"]
MOD_TOKENS = ["(ox)", "(ac)", "[+57.0215]", "[147]", "(UniMod:4)", "(Oxidation (M))", "[Acetyl (Protein N-term)]", "[42]"]
PEP_GRID = [m * 10.0 ** -e for e in (1, 2, 3, 4) for m in (1, 2, 5)]
PEP_GRID = [float(repr(x)) for x in PEP_GRID]
PEP_GRID = sorted(set(float("%g" % x) for x in PEP_GRID))  # short literals: 0.1, 0.2, 0.5, 0.01 ...
FRAG_K = [0, 1, 2, 5, 10, 51, 102, 512, 1023, 1024]
SAGE_X = [0, -1, -2, -3, -4, -6, -7, -8]
EPS16 = Fraction(1e-16)

SCORE_CLASSES = None  # filled lazily: {scoreType: [method names]} for the non-razor shipped methods


def shipped_nonrazor():
    """{scoreType: sorted method names} read from the TOML files of the tree under test"""
    global SCORE_CLASSES
    if SCORE_CLASSES is None:
        try:
            import tomllib as tl

            def load(p):
                return tl.loads(p.read_text())
        except ImportError:  # pragma: no cover
            import toml as tl

            def load(p):
                return tl.load(str(p))

        out = {}
        for p in sorted((lib.REPO / "picked_group_fdr" / "methods").glob("*.toml")):
            d = load(p)
            if d.get("sharedPeptides") == "razor":
                continue
            out.setdefault(d.get("scoreType", ""), []).append(p.stem)
        SCORE_CLASSES = dict(sorted(out.items()))
    return SCORE_CLASSES


def fmt_of(score_type, mokapot):
    """format family / remap as the property text names them (harness-side mirror used by the
    renderer and the oracle; the model derives its own from Generated.methods)"""
    if "Perc" in score_type:
        return ("mokapot" if mokapot else "native"), ("remap" in score_type)
    if "FragPipe" in score_type:
        return "fragpipe", False
    if "Sage" in score_type:
        return "sage", False
    if "DIA-NN" in score_type:
        return "diann", False
    return "maxquant", ("no_remap" not in score_type)


def method_score_type(name):
    for st, names in shipped_nonrazor().items():
        if name in names:
            return st
    raise KeyError(name)


def fl(r):
    """[num, den] -> the double"""
    f = unrat(r)
    return f.numerator / f.denominator


# ------------------------------------------------------------------------------------------
# rendering the abstract rows as files
# ------------------------------------------------------------------------------------------
def _cell(score):
    return "nan" if score == "nan" else repr(fl(score))


def _shuffled(header, rows, seed, keep_last=False):
    """permute the columns (header names are what the parsers look up)"""
    idx = list(range(len(header)))
    rng = random.Random(seed)
    if keep_last:
        head = idx[:-1]
        rng.shuffle(head)
        idx = head + idx[-1:]
    else:
        rng.shuffle(idx)
    return [header[i] for i in idx], [[r[i] for i in idx] + r[len(header):] for r in rows]


def render(case, d):
    fmt, _ = fmt_of(method_score_type(case["method"]), case.get("mokapot", False))
    paths = []
    for n, rows in enumerate(case["files"]):
        if fmt == "maxquant":
            hdr = ["Modified sequence", "Leading proteins", "Leading razor protein", "PEP", "Score", "Experiment", "id"]
            out = [
                [r["pep"], r["prot"][0], r["prot"][0].split(";")[0], "" if r["score"] == "nan" else _cell(r["score"]), "10", "E1", str(i)]
                for i, r in enumerate(rows)
            ]
            hdr, out = _shuffled(hdr, out, case.get("colseed", 0) + n)
            name = f"evidence{n}.txt"
        elif fmt == "native":
            hdr = ["PSMId", "score", "q-value", "posterior_error_prob", "peptide", "proteinIds"]
            out = [[f"raw_{i}_2_1", "1.0", "0.01", _cell(r["score"]), r["pep"]] + list(r["prot"]) for i, r in enumerate(rows)]
            hdr, out = _shuffled(hdr[:-1], [o[:5] + o[5:] for o in out], case.get("colseed", 0) + n)
            hdr = hdr + ["proteinIds"]
            name = f"perc{n}.txt"
        elif fmt == "mokapot":
            hdr = ["SpecId", "Label", "ScanNr", "ExpMass", "CalcMass", "Peptide", "mokapot score", "mokapot q-value", "mokapot PEP", "Proteins"]
            out = [[f"raw_{i}_2_1", "1", str(i), "1", "1", r["pep"], "1.0", "0.01", _cell(r["score"]), r["prot"][0]] for i, r in enumerate(rows)]
            hdr, out = _shuffled(hdr, out, case.get("colseed", 0) + n)
            name = f"moka{n}.txt"
        elif fmt == "fragpipe":
            hdr = ["Spectrum", "Peptide", "Modified Peptide", "SpectralSim", "PeptideProphet Probability", "Protein", "Mapped Proteins"]
            out = [[str(i), r["pep"], r.get("mod", ""), "0.9", _cell(r["score"]), r["prot"][0], r["prot"][1]] for i, r in enumerate(rows)]
            hdr, out = _shuffled(hdr, out, case.get("colseed", 0) + n)
            name = f"psm{n}.tsv"
        elif fmt == "sage":
            hdr = ["peptide", "proteins", "charge", "sage_discriminant_score", "filename", "posterior_error"]
            out = [[r["pep"], r["prot"][0], "2", "1.0", "f.mzML", _cell(r["score"])] for r in rows]
            hdr, out = _shuffled(hdr, out, case.get("colseed", 0) + n)
            name = f"results{n}.sage.tsv"
        else:  # diann
            hdr = ["Run", "Modified.Sequence", "Precursor.Charge", "Protein.Ids", "Decoy", "PEP", "Ms1.Normalised"]
            out = [
                ["r1", r["pep"], "2", r["prot"][0], "1" if r.get("decoy") else "0", "" if r["score"] == "nan" else _cell(r["score"]), "100.0"]
                for r in rows
            ]
            hdr, out = _shuffled(hdr, out, case.get("colseed", 0) + n)
            name = f"report{n}.tsv"
        p = os.path.join(d, name)
        with open(p, "w", newline="", encoding="utf-8") as f:
            w = csv.writer(f, delimiter="\t")
            w.writerow(hdr)
            w.writerows(out)
        paths.append(p)
    return paths


_PANDAS_OK = None


def pandas_grid_ok():
    """pandas' float parser returns float(literal) on every literal the DIA-NN renderer can write"""
    global _PANDAS_OK
    if _PANDAS_OK is None:
        import io

        import pandas as pd

        lits = [repr(x) for x in PEP_GRID]
        df = pd.read_csv(io.StringIO("PEP\n" + "\n".join(lits) + "\n"))
        _PANDAS_OK = all(float(a) == b for a, b in zip(lits, df.PEP))
    return _PANDAS_OK


_POW_OK = None


def pow_grid_ok():
    global _POW_OK
    if _POW_OK is None:
        import numpy as np

        _POW_OK = all(float(np.power(10, float(x))) == float(Fraction(10) ** x) for x in SAGE_X)
    return _POW_OK


# ------------------------------------------------------------------------------------------
# the property, stated directly (independent of both the code and the model)
# ------------------------------------------------------------------------------------------
def o_strip(s):
    """modifications stripped: the two documented regex passes (malformed rows only; well-formed rows
    carry the generator's bare peptide)"""
    return re.sub(r"\[[^]]*\]", "", re.sub(r"\([^)]*\)", "", s)).replace(")", "")


def o_is_decoy_id(p):
    return p.startswith("REV__") or p.startswith("rev_")


def o_decoy_list(ps):
    return all("REV__" in p for p in ps) or all("rev_" in p for p in ps)


def expected(case):
    """(ordered [(key, score Fraction-of-double, proteins)], info) per the property text and DESIGN §16"""
    st = method_score_type(case["method"])
    fmt, remap = fmt_of(st, case.get("mokapot", False))
    maps = [dict((k, v) for k, v in m) for m in case["maps"]] if remap else [None]
    if len(maps) == 1:
        maps = maps * len(case["files"])
    best = {}
    info = {"unknown": 0, "purged": 0, "emptied": 0, "nan": 0, "ties": 0, "scored": 0}
    for rows, dm in zip(case["files"], maps):
        flank = bool(rows) and fmt in ("native", "mokapot") and rows[0]["pep"].startswith("-.") and rows[0]["pep"].endswith(".-")
        for r in rows:
            # peptide as the format spells it
            if fmt == "maxquant":
                mp = r["pep"][1:-1]
            elif fmt in ("native", "mokapot"):
                mp = r["pep"][2:-2] if flank else r["pep"]
            elif fmt == "fragpipe":
                mp = r.get("mod") or r["pep"]
            else:
                mp = r["pep"]
            key = r["bare"] if r.get("bare") is not None else o_strip(mp)
            # proteins of the file
            if fmt in ("maxquant", "sage"):
                fp = r["prot"][0].split(";")
            elif fmt == "native":
                fp = list(r["prot"])
            elif fmt == "mokapot":
                fp = r["prot"][0].split("\t")
            elif fmt == "fragpipe":
                fp = [r["prot"][0]] + (r["prot"][1].split(", ") if r["prot"][1] else [])
            else:
                fp = r["prot"][0].split(";")
                if r.get("decoy"):
                    fp = ["REV__" + p for p in fp]
            if remap:
                src = dm.get(key, [])
                if not src:
                    info["unknown"] += 1
                    continue
            else:
                src = fp
            if o_decoy_list(src):
                ps = list(src)
            else:
                ps = [p for p in src if not o_is_decoy_id(p)]
                if len(ps) != len(src):
                    info["purged"] += 1
            if not ps:
                info["emptied"] += 1
                continue
            if r["score"] == "nan":
                info["nan"] += 1
                continue
            raw = unrat(r["score"])
            if fmt == "fragpipe":
                q = 1 - raw + EPS16
            elif fmt == "sage":
                q = Fraction(10) ** int(raw)
            else:
                q = raw
            s = Fraction(q.numerator / q.denominator)  # the double the tool holds
            info["scored"] += 1
            if key not in best or s < best[key][0]:
                best[key] = (s, ps)
            elif s == best[key][0] and ps != best[key][1]:
                info["ties"] += 1
    return [(k, v[0], v[1]) for k, v in best.items()], info


CLI_FLAG = {"maxquant": "--mq_evidence", "native": "--perc_evidence", "mokapot": "--perc_evidence",
            "fragpipe": "--fragpipe_psm", "sage": "--sage_results", "diann": "--diann_reports"}


def run_cli(case):
    """the real command line on the rendered file set (digest maps handed over with --peptide_protein_map);
    returns {"groups": [[protein...]...]} read from the written table, {"err": "no_ranked_groups"} for the
    degenerate run in which no group has evidence, or {"exc": ...}"""
    import subprocess

    st = method_score_type(case["method"])
    fmt, _ = fmt_of(st, case.get("mokapot", False))
    d = tempfile.mkdtemp(prefix="pgfdr_c10cli_")
    try:
        paths = render(case, d)
        out = os.path.join(d, "proteinGroups.txt")
        cmd = [lib.PY, "-m", "picked_group_fdr", "--methods", case["method"], CLI_FLAG[fmt], *paths,
               "--protein_groups_out", out, "--suppress_missing_peptide_warning"]
        mp = []
        for k, m in enumerate(case["maps"]):
            f = os.path.join(d, f"map{k}.tsv")
            with open(f, "w", newline="", encoding="utf-8") as fh:
                w = csv.writer(fh, delimiter="\t")
                for pep, ps in m:
                    w.writerow([pep, ";".join(ps)])
            mp.append(f)
        if mp:
            cmd += ["--peptide_protein_map", *mp]
        p = subprocess.run(cmd, env=lib.impl_env(), capture_output=True, text=True, timeout=300)
        if p.returncode != 0:
            last = (p.stderr.strip().splitlines() or [""])[-1]
            # degenerate runs in which no protein group has any evidence (DESIGN.md §4): bestPEP methods die in
            # do_competition (`zip(*[])`), multPEP methods already in MultPEPScore._get_optimal_div (empty array)
            if "not enough values to unpack" in last or (
                "too many indices for array" in last and "_get_optimal_div" in p.stderr
            ):
                return {"err": "no_ranked_groups"}
            return {"exc": "CLI", "msg": last[:300], "tb": p.stderr[-1200:]}
        with open(out, newline="", encoding="utf-8") as fh:
            rows = list(csv.reader(fh, delimiter="\t"))
        col = rows[0].index("Protein IDs")
        return {"groups": [r[col].split(";") for r in rows[1:]]}
    finally:
        shutil.rmtree(d, ignore_errors=True)


def cli_ok(case):
    """file sets the command line can take: per-file digest maps need one map file per evidence file; map
    entries are written `peptide<TAB>p1;p2`, so every entry needs a protein"""
    return (
        all(ps for m in case["maps"] for _, ps in m)
        and all(len(m) > 0 for m in case["maps"])
        and len(case["maps"]) in (0, 1, len(case["files"]))
    )


def py_strops(s):
    """the string operations ingestion uses, as the implementation / CPython perform them"""
    from picked_group_fdr import helpers

    return {
        "rm": helpers.remove_modifications(s),
        "semi": s.split(";"),
        "comma": s.split(", "),
        "tab": s.split("\t"),
        "s11": s[1:-1],
        "s22": s[2:-2],
        "flank": s.startswith("-.") and s.endswith(".-"),
    }


# ------------------------------------------------------------------------------------------
class P(Prop):
    id = "C10"
    quick_cases = 1200
    thorough_cases = 40000
    chunk = 100
    rule = (
        "file sets (1-3 files, 0-8 rows each) for every non-razor shipped method, score-type classes drawn uniformly "
        "(MaxQuant remap / multPEP / no_remap, Percolator native + mokapot header with and without remap, FragPipe, Sage, "
        "DIA-NN tsv via pandas); 2-4 bare peptides per case spelled with 0-2 modification tokens (nested MaxQuant "
        "parentheses included), PEPs from a 12-point grid so ties are common, NaN/empty PEP cells, protein lists mixing "
        "targets, REV__/rev_ decoys and contaminants, digest maps that omit some peptides, rows and columns shuffled; "
        "non-trivial = at least two scored PSMs compete for one stripped peptide and the result is non-empty"
    )
    assumptions = [
        "csv.reader/float() re-read repr(float) cells exactly; pandas' C float parser agrees with float() on the 12 PEP literals (asserted per process)",
        "IEEE double `1 - p` is exact for p = (1024-k)/1024 and `x + 1e-16` is the correctly rounded exact sum",
        "np.power(10, x) is the correctly rounded 10**x for x in {0,-1,-2,-3,-4,-6,-7,-8} (asserted per process; -5 is NOT and is excluded)",
        "the razor methods (8 shipped TOMLs) are outside this check: they die in parsers/psm.py before any row is yielded (fixes/C05-razor-premature-filter.diff)",
    ]
    trusted_extra = ["pandas.read_csv / csv.reader reading of the generated files (validated only by the correspondence)"]

    # -- generation ---------------------------------------------------------------------
    def _spell(self, rng, bare, malformed_ok=True):
        s = bare
        wellformed = True
        for _ in range(rng.choice([0, 0, 1, 1, 2])):
            pos = rng.randint(0, len(s)) if rng.random() < 0.8 else 0
            # never insert inside a previously inserted token
            depth = 0
            ok = True
            for ch in s[:pos]:
                if ch in "([":
                    depth += 1
                elif ch in ")]":
                    depth -= 1
            if depth != 0:
                ok = False
            if ok:
                s = s[:pos] + rng.choice(MOD_TOKENS) + s[pos:]
        if malformed_ok and rng.random() < 0.04:
            pos = rng.randint(0, len(s))
            s = s[:pos] + rng.choice(["(", ")", "[", "]", "(a[b)c]"]) + s[pos:]
            wellformed = False
        return s, wellformed

    def _proteins(self, rng):
        k = rng.random()
        names = rng.sample(PROT, rng.choice([1, 1, 2, 2, 3]))
        if k < 0.35:
            ps = names
        elif k < 0.55:
            ps = ["REV__" + n for n in names]
        elif k < 0.62:
            ps = ["rev_" + n for n in names]
        elif k < 0.85:  # a target among decoys: decoys must go
            ps = [rng.choice(["", "REV__", "rev_"]) + n for n in names]
            if all(o_is_decoy_id(p) for p in ps):
                ps[rng.randrange(len(ps))] = names[0]
        elif k < 0.90:  # both decoy spellings and no target: the code drops the row
            ps = ["REV__" + names[0], "rev_" + names[-1]]
        elif k < 0.97:
            ps = ["CON__" + n if rng.random() < 0.6 else n for n in names]
        else:  # malformed identifiers
            ps = [rng.choice(["xREV__" + names[0], "", "T1rev_", "REV__rev_T2"])] + names[1:]
        rng.shuffle(ps)
        return ps

    def gen_case(self, rng, tier):
        classes = shipped_nonrazor()
        st = rng.choice(list(classes))
        method = rng.choice(classes[st])
        mokapot = "Perc" in st and rng.random() < 0.5
        fmt, remap = fmt_of(st, mokapot)
        bares = rng.sample(BARE, rng.choice([2, 2, 3, 4]))
        nfiles = rng.choice([1, 1, 2, 2, 3])
        files = []
        for _ in range(nfiles):
            nrows = rng.choice([0, 1, 2, 3, 4, 5, 6, 8])
            flank = fmt in ("native", "mokapot") and rng.random() < 0.5
            rows = []
            for _ in range(nrows):
                bare = rng.choice(bares)
                mod, wf = self._spell(rng, bare)
                prots = self._proteins(rng)
                row = {"pep": mod, "mod": "", "score": None, "prot": [], "decoy": False, "bare": bare if wf else None}
                if fmt == "maxquant":
                    row["pep"] = "_" + mod + "_" if rng.random() < 0.97 else mod
                    if row["pep"] == mod:
                        row["bare"] = None
                    row["prot"] = [";".join(prots) if rng.random() < 0.95 else ""]
                elif fmt in ("native", "mokapot"):
                    fl_row = flank if rng.random() < 0.97 else not flank
                    row["pep"] = "-." + mod + ".-" if fl_row else mod
                    row["prot"] = list(prots) if fmt == "native" else ["\t".join(prots)]
                    if fmt == "native" and rng.random() < 0.03:
                        row["prot"] = []
                elif fmt == "fragpipe":
                    row["pep"] = bare
                    row["mod"] = "" if mod == bare else mod
                    row["prot"] = [prots[0], ", ".join(prots[1:])]
                elif fmt == "sage":
                    row["prot"] = [";".join(prots)]
                else:  # diann: the file lists undecorated ids and a Decoy flag
                    dec = all(o_is_decoy_id(p) for p in prots) and rng.random() < 0.9
                    ids = [re.sub(r"^(REV__|rev_)", "", p) if dec else p for p in prots]
                    ids = [i if i not in ("", "NA", "nan", "null") else "T9" for i in ids]
                    row["prot"] = [";".join(ids)]
                    row["decoy"] = dec
                # score
                if rng.random() < 0.12:
                    row["score"] = "nan"
                elif fmt == "fragpipe":
                    row["score"] = rat(Fraction(1024 - rng.choice(FRAG_K), 1024))
                elif fmt == "sage":
                    row["score"] = [str(rng.choice(SAGE_X)), "1"]
                else:
                    row["score"] = rat(rng.choice(PEP_GRID))
                rows.append(row)
            # the flank decision is taken on the first row: recompute bookkeeping for mixed files
            if fmt in ("native", "mokapot") and rows:
                f0 = rows[0]["pep"].startswith("-.") and rows[0]["pep"].endswith(".-")
                for r in rows:
                    has = r["pep"].startswith("-.") and r["pep"].endswith(".-")
                    if has != f0:
                        r["bare"] = None
            files.append(rows)
        maps = []
        if remap:
            nmaps = 1 if (nfiles == 1 or rng.random() < 0.65) else nfiles
            if nfiles == 3 and rng.random() < 0.08:
                nmaps = 2  # caller error: zip() pairs two maps with the first two files, the third file is not read
            pool = bares + [b for b in BARE if b not in bares][:1]
            for _ in range(nmaps):
                m = []
                for b in pool:
                    if rng.random() < 0.75:
                        ps = self._proteins(rng)
                        if "" in ps:
                            ps = [p for p in ps if p] or ["T1"]
                        m.append([b, ps if rng.random() < 0.97 else []])
                rng.shuffle(m)
                maps.append(m)
        return {"method": method, "mokapot": mokapot, "colseed": rng.randint(0, 999), "maps": maps, "files": files}

    # -- the implementation ---------------------------------------------------------------
    def run_impl(self, case):
        from picked_group_fdr import methods
        from picked_group_fdr.parsers import evidence

        if "strops" in case:
            return {"strops": py_strops(case["strops"])}
        if "cli" in case:
            return run_cli(case["cli"])
        st = method_score_type(case["method"])
        fmt, remap = fmt_of(st, case.get("mokapot", False))
        if fmt == "diann" and not pandas_grid_ok():
            raise RuntimeError("pandas float parser disagrees with float() on the PEP literal grid")
        if fmt == "sage" and not pow_grid_ok():
            raise RuntimeError("np.power(10, x) is not correctly rounded on the exponent grid")
        cfg = methods.parse_method_toml(case["method"], False)
        d = tempfile.mkdtemp(prefix="pgfdr_c10_")
        try:
            paths = render(case, d)
            maps = [dict((k, list(v)) for k, v in m) for m in case["maps"]] if case["maps"] else [None]
            res = evidence.parse_evidence_files(paths, maps, cfg.score_type, True)
            pil = [[k, "nan" if v[0] != v[0] else rat(float(v[0])), list(v[1])] for k, v in res.items()]
        finally:
            shutil.rmtree(d, ignore_errors=True)
        return {"pil": pil}

    # -- the model ---------------------------------------------------------------------------
    def model_request(self, case, impl_out):
        if "cli" in case:
            return None
        if "strops" in case:
            return {"op": "c10_strops", "strings": [case["strops"]]}
        files = [
            [{"pep": r["pep"], "mod": r.get("mod", ""), "score": r["score"], "prot": r["prot"], "decoy": bool(r.get("decoy"))} for r in rows]
            for rows in case["files"]
        ]
        return {"op": "ingest", "method": case["method"], "mokapot": bool(case.get("mokapot")), "maps": case["maps"], "files": files}

    def model_view(self, case, resp, impl_out):
        if "strops" in case:
            return {"strops": resp["out"][0]} if isinstance(resp, dict) and "out" in resp else resp
        if isinstance(resp, dict) and "pil" in resp:
            return {"pil": [[k, rat(fl(s)), ps] for k, s, ps in resp["pil"]]}
        return resp

    def impl_view(self, case, impl_out):
        if isinstance(impl_out, dict) and "pil" in impl_out:
            return {"pil": impl_out["pil"]}
        return impl_out

    # -- oracle ---------------------------------------------------------------------------------
    def oracle(self, case, impl_out):
        if "strops" in case:
            return None
        if "cli" in case:
            return self.cli_oracle(case["cli"], impl_out)
        if isinstance(impl_out, dict) and "exc" in impl_out:
            return "ingestion raised %s: %s where a peptide list was expected" % (impl_out["exc"], impl_out.get("msg", ""))
        if not isinstance(impl_out, dict) or "pil" not in impl_out:
            return "no peptide list returned: %r" % (impl_out,)
        want, _ = expected(case)
        for k, s, ps in impl_out["pil"]:
            if s == "nan":
                return f"peptide {k} reported with a NaN score (rows without a PEP must be ignored)"
        got = [(k, unrat(s), ps) for k, s, ps in impl_out["pil"]]
        gk, wk = [g[0] for g in got], [w[0] for w in want]
        if sorted(gk) != sorted(wk):
            extra = sorted(set(gk) - set(wk))
            miss = sorted(set(wk) - set(gk))
            return f"peptides reported {sorted(gk)} but the PSMs with a PEP and a usable protein list strip to {sorted(wk)} (unexpected {extra}, missing {miss})"
        wd = {k: (s, ps) for k, s, ps in want}
        for k, s, ps in got:
            if s != wd[k][0]:
                return f"peptide {k}: PEP {float(s)} reported, lowest PEP over its PSMs is {float(wd[k][0])}"
            if ps != wd[k][1]:
                return f"peptide {k}: proteins {ps} reported, the first PSM attaining the lowest PEP carries {wd[k][1]}"
        if gk != wk:
            return f"peptide order {gk} differs from order of first scored appearance {wk}"
        # purity of the resulting list (well-formed identifiers: markers only as prefixes)
        for k, s, ps in got:
            if not ps:
                return f"peptide {k} reported with an empty protein list"
            if all(self._wellformed_id(p) for p in ps):
                if any(o_is_decoy_id(p) for p in ps) and not o_decoy_list(ps):
                    return f"peptide {k}: protein list {ps} mixes targets and decoys"
        return None

    def cli_oracle(self, case, out):
        """purity of the table the command line wrote: every reported group is a decoy group or lists no decoy;
        and every reported protein is one the ingested list names"""
        if not isinstance(out, dict):
            return "command line returned %r" % (out,)
        if out.get("err") == "no_ranked_groups":
            return None
        if "groups" not in out:
            return "command line failed: %s" % (out.get("msg"),)
        want, _ = expected(case)
        known = {p for _, _, ps in want for p in ps}
        for g in out["groups"]:
            if all(self._wellformed_id(p) for p in g):
                if any(o_is_decoy_id(p) for p in g) and not o_decoy_list(g):
                    return f"reported protein group {g} mixes targets and decoys"
            for p in g:
                if p not in known:
                    return f"reported protein {p!r} is not listed by any ingested peptide (known: {sorted(known)})"
        return None

    # signature predicate of the finding fixes/C10-two-peptide-digest-map (for known_findings.json, should the
    # repair not be applied): the method remaps, some digest map holds exactly two peptides, ingestion dies
    # with KeyError: 0 in digest.get_proteins
    def two_peptide_digest_map(self, case, impl_out, rec=None):
        if "cli" in case or "strops" in case:
            return False
        _, remap = fmt_of(method_score_type(case["method"]), case.get("mokapot", False))
        return (
            remap
            and any(len(m) == 2 for m in case["maps"])
            and isinstance(impl_out, dict)
            and impl_out.get("exc") == "KeyError"
            and impl_out.get("msg") == "0"
        )

    @staticmethod
    def _wellformed_id(p):
        for m in ("REV__", "rev_"):
            if m in p and not p.startswith(m):
                return False
            if p.startswith(m) and any(x in p[len(m):] for x in ("REV__", "rev_")):
                return False
        return True

    # -- bookkeeping -------------------------------------------------------------------------------
    def nontrivial(self, case, impl_out):
        if "strops" in case or "cli" in case:
            return False
        want, info = expected(case)
        return bool(want) and info["scored"] > len(want)

    def features(self, case, impl_out):
        if "strops" in case:
            return ["strops"]
        if "cli" in case:
            return ["cli"]
        st = method_score_type(case["method"])
        fmt, remap = fmt_of(st, case.get("mokapot", False))
        want, info = expected(case)
        f = ["format=%s" % fmt, "remap=%s" % remap, "scoreType=%s" % st, "files=%d" % len(case["files"])]
        nrows = sum(len(r) for r in case["files"])
        f.append("rows=%s" % (nrows if nrows < 10 else "10+"))
        if len(case["maps"]) > 1:
            f.append("map_per_file" if len(case["maps"]) == len(case["files"]) else "map_count_mismatch")
        for k in ("unknown", "purged", "emptied", "nan", "ties"):
            if info[k]:
                f.append("has_" + k)
        if any(r.get("bare") is None for rows in case["files"] for r in rows):
            f.append("has_malformed_row")
        if isinstance(impl_out, dict) and "exc" in impl_out:
            f.append("impl_exception=" + impl_out["exc"])
        if any(len(m) == 2 for m in case["maps"]):
            f.append("map_of_two_peptides")
        return f

    def shrink(self, case):
        if "cli" in case:
            for c in self.shrink(case["cli"]):
                if cli_ok(c):
                    yield {"cli": c}
            return
        if "strops" in case:
            s = case["strops"]
            for i in range(len(s)):
                yield {"strops": s[:i] + s[i + 1:]}
            return
        files, maps = case["files"], case["maps"]
        base = {k: case[k] for k in ("method", "mokapot", "colseed")}
        # drop a whole file (and its map if maps are per file)
        if len(files) > 1:
            for i in range(len(files)):
                m2 = maps[:i] + maps[i + 1:] if len(maps) == len(files) and len(maps) > 1 else maps
                if len(m2) not in (0, 1, len(files) - 1):
                    continue
                yield dict(base, files=files[:i] + files[i + 1:], maps=m2)
        # drop a row
        for i, rows in enumerate(files):
            for j in range(len(rows)):
                yield dict(base, files=files[:i] + [rows[:j] + rows[j + 1:]] + files[i + 1:], maps=maps)
        # drop a map entry
        for i, m in enumerate(maps):
            for j in range(len(m)):
                yield dict(base, files=files, maps=maps[:i] + [m[:j] + m[j + 1:]] + maps[i + 1:])
        # per-file maps -> a single map
        if len(maps) > 1:
            yield dict(base, files=files, maps=maps[:1])
        if case.get("colseed"):
            yield dict(base, files=files, maps=maps, colseed=0)

    # -- extra stage: the string functions on a malformed stream ---------------------------------------
    def extra(self, ctx):
        rng = random.Random(ctx["seed"] * 7919 + 17)
        alpha = "AM()[]ox;,\t -._"
        strings = ["", "(", ")", "()", "[]", "A(ox(x))B[+57]C)D(E[F)G]H(", "_(ac)AM(Oxidation (M))K_", "-.-", "-..-", "-.A.-", "a, b,c, ", ";;", "é(ü)[ß]"]
        n = 400 if ctx["tier"] == "quick" else 4000
        for _ in range(n):
            strings.append("".join(rng.choice(alpha) for _ in range(rng.randint(0, 12))))
        if ctx["tier"] == "thorough" and not ctx.get("replay"):
            import itertools

            for L in range(0, 7):
                for t in itertools.product("A()[]", repeat=L):
                    strings.append("".join(t))
        if ctx.get("replay"):
            strings = strings[:13]
        resp = ctx["model"].ask([{"op": "c10_strops", "strings": strings}])[0]
        fails = []
        if "out" not in resp:
            return {"evaluations": 0, "failures": [{"case": {"strops": True}, "why": None, "disagree": {"impl": "n/a", "model": resp}}], "info": {"strops": "driver failed"}}
        for s, o in zip(strings, resp["out"]):
            want = py_strops(s)
            if want != o:
                fails.append({"case": {"strops": s}, "why": None, "disagree": {"impl": want, "model": o}})
                if len(fails) >= 3:
                    break
        # the same kind of file sets through the real command line: purity of the written table
        ncli = 0 if ctx.get("replay") else (6 if ctx["tier"] == "quick" else 160)
        crng = random.Random(ctx["seed"] * 104729 + 5)
        cases = []
        while len(cases) < ncli:
            c = self.gen_case(crng, ctx["tier"])
            if cli_ok(c) and sum(len(f) for f in c["files"]) > 0:
                cases.append(c)
        stats = {"tables": 0, "no_ranked_groups": 0, "groups": 0, "decoy_groups": 0}
        if cases:
            from concurrent.futures import ThreadPoolExecutor

            with ThreadPoolExecutor(max_workers=8) as ex:
                outs = list(ex.map(lambda c: lib._safe(run_cli, c), cases))
            for c, o in zip(cases, outs):
                why = self.cli_oracle(c, o)
                if isinstance(o, dict) and "groups" in o:
                    stats["tables"] += 1
                    stats["groups"] += len(o["groups"])
                    stats["decoy_groups"] += sum(1 for g in o["groups"] if o_decoy_list(g))
                elif isinstance(o, dict) and o.get("err"):
                    stats["no_ranked_groups"] += 1
                if why is not None and len(fails) < 3:
                    fails.append({"case": {"cli": c}, "impl": o, "why": why})
        return {
            "evaluations": len(strings) + len(cases),
            "failures": fails,
            "info": {"string_ops_compared": len(strings), "cli_runs": len(cases), "cli": stats},
        }
