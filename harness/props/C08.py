"""C08 — in-silico digestion yields exactly the peptides the cleavage rule defines.

Correspondence: digest.get_cleavage_sites + digest.get_digested_peptides (full_digest,
semi_specific_digest, non_specific_digest) and digest.is_enzymatic of the real code against
PgFdr.C08.digestByName / PgFdr.C08.Site of the Lean model.  A case is one protein sequence and
one enzyme name with a list of parameter runs (mode, length window, missed-cleavage budget,
methionine-cleavage flag); per run the yielded peptides are compared as sorted MULTISETS of
strings (duplicate emissions are pinned too).  No floats anywhere.

Oracle: the declarative rule of the property stated directly in Python over index pairs
(brute force over all substrings), independent of both the code's loops and the model.
"""
import itertools

import lib
from lib import Prop

MODES = ("full", "semi", "none")
NEUTRALS = "SGCHNQTVI"
REPRESENTATIVE = ("trypsin", "lys-n", "chymotrypsin+", "asp-n")


_SRC = {}


def _source_rules():
    """ENZYME_CLEAVAGE_RULES read from the source text of digest.py (never imported)"""
    if "rules" not in _SRC:
        import tables

        _SRC["rules"] = tables.module_constants(lib.REPO / "picked_group_fdr" / "digest.py")["ENZYME_CLEAVAGE_RULES"]
    return _SRC["rules"]


def rule_table():
    from picked_group_fdr import digest

    return digest.ENZYME_CLEAVAGE_RULES


def alphabet(rule, rng=None):
    """per-enzyme 5-letter alphabet: pre / not_post / post residues + M + one neutral"""
    pre, npost, post = list(rule["pre"]), list(rule["not_post"]), list(rule["post"])
    if rng is not None:
        rng.shuffle(pre)
        rng.shuffle(post)
    letters = []
    for x in pre[:2] + npost[:1] + post[:2] + ["M"]:
        if x not in letters:
            letters.append(x)
    used = set(rule["pre"]) | set(rule["not_post"]) | set(rule["post"]) | {"M"}
    for x in NEUTRALS:
        if len(letters) >= 5:
            break
        if x not in used:
            letters.append(x)
    return letters[:5]


def sites(seq, pre, not_post, post):
    """internal cut positions c in 1..n-1 where the rule fires"""
    n = len(seq)
    return {c for c in range(1, n) if (seq[c - 1] in pre and seq[c] not in not_post) or (seq[c] in post)}


def spec(seq, mn, mx, pre, not_post, post, mc, metc, mode):
    """the property: substrings within the window, required termini at a protein terminus / site / Met site,
    spanning at most mc sites"""
    n, S = len(seq), sites(seq, pre, not_post, post)
    met = metc and seq[:1] == "M"
    res = set()
    for i in range(n):
        for j in range(i + 1, n + 1):
            if not (mn <= j - i <= mx):
                continue
            if mode == "none":
                res.add(seq[i:j])
                continue
            nterm = i == 0 or i in S or (met and i == 1)
            cterm = j == n or j in S or (met and j == 1)
            if not ((nterm and cterm) if mode == "full" else (nterm or cterm)):
                continue
            if len([c for c in S if i < c < j]) <= mc:
                res.add(seq[i:j])
    return res


def eff_mode(m):
    return m if m in ("semi", "none") else "full"


ALL_RUNS = [
    {"mode": mode, "min": mn, "max": mx, "mc": mc, "met": met}
    for mode in MODES
    for (mn, mx) in ((1, 3), (2, 50), (1, 50), (3, 4))
    for mc in (0, 1, 2)
    for met in (False, True)
]


class P(Prop):
    id = "C08"
    quick_cases = 30000
    thorough_cases = 200000
    chunk = 1000
    rule = (
        "one case = protein sequence (length 0-14 over a per-enzyme 5-letter alphabet: its pre/not_post/post residues, M, "
        "one neutral; 70% start with M when Met cleavage is on) x every enzyme of ENZYME_CLEAVAGE_RULES x 1-3 parameter runs "
        "(mode full/semi/none, window min 1-7 (rarely 0) and max min+0..8 or 50, budget 0-3, Met flag); thorough adds all "
        "sequences <= 7 over the alphabet for trypsin, lys-n, chymotrypsin+, asp-n (72 runs each for <= 5, 6 rotating runs "
        "for 6-7); non-trivial = a run whose spec set is non-empty on a sequence with an enzymatic or Met site; distinct by "
        "sha1 of the case"
    )
    assumptions = [
        "Python str slicing / list semantics as documented (seq[a:b] clamps at the end)",
        "sequences are non-empty for the set-equality statement (the code raises IndexError or yields only '' on '')",
    ]

    # ------------------------------------------------------------------ generation
    def gen_case(self, rng, tier):
        rules = rule_table()
        names = list(rules)
        enzyme = rng.choice(names)
        if rng.random() < 0.01:
            enzyme = "not-an-enzyme"
            al = list("KRPMA")
        else:
            al = alphabet(rules[enzyme], rng)
        n = rng.choice([0, 1, 1, 2, 2, 3, 3, 4, 5, 6, 7, 8, 9, 10, 11, 12, 13, 14])
        seq = "".join(rng.choice(al) for _ in range(n))
        if n and rng.random() < 0.45:
            seq = "M" + seq[1:]
        runs = []
        for _ in range(rng.choice([1, 1, 2, 3])):
            mn = rng.choice([1, 1, 1, 2, 2, 3, 4, 5, 6, 7])
            if rng.random() < 0.03:
                mn = 0
            mx = mn + rng.choice([0, 0, 1, 2, 3, 5, 8, 50])
            if n and rng.random() < 0.15:  # a window whose bound sits on the whole sequence / its tail
                mx = max(mn, rng.choice([n, n - 1, n // 2 + 1]))
            mode = rng.choice(["full", "full", "semi", "semi", "none"])
            if rng.random() < 0.02:
                mode = rng.choice(["Full", "", "semi-specific"])
            runs.append({"mode": mode, "min": mn, "max": mx, "mc": rng.choice([0, 0, 1, 1, 2, 3]), "met": rng.random() < 0.6})
        return {"seq": seq, "enzyme": enzyme, "runs": runs}

    def exhaustive_cases(self, tier):
        rules = rule_table()
        out = []
        k = 0
        for name in REPRESENTATIVE:
            if name not in rules:
                continue
            al = alphabet(rules[name])
            for L in range(1, 8):
                for t in itertools.product(al, repeat=L):
                    seq = "".join(t)
                    if L <= 5:
                        runs = ALL_RUNS
                    else:
                        runs = [ALL_RUNS[(k * 7 + d * 13) % len(ALL_RUNS)] for d in range(6)]
                        k += 1
                    out.append({"seq": seq, "enzyme": name, "runs": runs})
        return out

    # ------------------------------------------------------------------ implementation
    def run_impl(self, case):
        from picked_group_fdr import digest

        seq = case["seq"]
        try:
            pre, not_post, post = digest.get_cleavage_sites(case["enzyme"])
        except KeyError:
            return {"err": "unknown_enzyme"}
        outs = []
        for r in case["runs"]:
            try:
                peps = list(
                    digest.get_digested_peptides(seq, r["min"], r["max"], pre, not_post, post, r["mode"], r["mc"], r["met"])
                )
                outs.append({"peptides": sorted(peps)})
            except IndexError:
                outs.append({"err": "index_error"})
        cut = [c for c in range(1, len(seq)) if digest.is_enzymatic(seq[c - 1], seq[c], pre, not_post, post)]
        return {"runs": outs, "sites": cut, "_rec": {"rule": [list(pre), list(not_post), list(post)]}}

    # ------------------------------------------------------------------ model
    def model_request(self, case, impl_out):
        reqs = [
            {"op": "digest", "seq": case["seq"], "enzyme": case["enzyme"], "mode": r["mode"], "min": r["min"], "max": r["max"], "mc": r["mc"], "met": r["met"]}
            for r in case["runs"]
        ]
        reqs.append({"op": "sites", "seq": case["seq"], "enzyme": case["enzyme"]})
        return reqs

    def model_view(self, case, resp, impl_out):
        *runs, st = resp
        if st.get("err") == "unknown_enzyme" and all(r.get("err") == "unknown_enzyme" for r in runs):
            return {"err": "unknown_enzyme"}
        outs = []
        for r in runs:
            if "peptides" in r:
                outs.append({"peptides": sorted(r["peptides"])})
            else:
                outs.append(r)
        return {"runs": outs, "sites": st.get("sites", st)}

    # ------------------------------------------------------------------ the property
    def oracle(self, case, impl_out):
        if not isinstance(impl_out, dict):
            return "no output"
        if impl_out.get("err") == "unknown_enzyme":
            return None if case["enzyme"] not in rule_table() else "known enzyme rejected"
        # the rule comes from the SOURCE TEXT of the enzyme table (ast, as harness/tables.py reads it), not from what
        # the implementation looked up for this name: a lookup that maps one supported name onto another's rule is
        # then a failing input and not only a disagreement with the model
        src = _source_rules().get(case["enzyme"])
        if src is None:
            return f"enzyme {case['enzyme']!r} was accepted although the table in the source does not list it"
        pre, not_post, post = list(src["pre"]), list(src["not_post"]), list(src["post"])
        if [pre, not_post, post] != [list(x) for x in impl_out["_rec"]["rule"]]:
            return (f"get_cleavage_sites({case['enzyme']!r}) returns {impl_out['_rec']['rule']}, the enzyme table says "
                    f"{[pre, not_post, post]}")
        seq = case["seq"]
        want_sites = sorted(sites(seq, pre, not_post, post))
        if impl_out["sites"] != want_sites:
            return f"is_enzymatic marks cut positions {impl_out['sites']} of {seq!r}, the rule gives {want_sites}"
        for r, o in zip(case["runs"], impl_out["runs"]):
            if "err" in o:
                if seq == "":
                    continue
                return f"digestion of {seq!r} raised {o['err']}"
            mode = eff_mode(r["mode"])
            want = spec(seq, max(r["min"], 1), r["max"], pre, not_post, post, r["mc"], r["met"], mode)
            got = set(o["peptides"])
            if r["min"] == 0:
                got -= {""}  # the statement is about min_len >= 1; with 0 the code may also yield the empty string
            if got != want:
                extra, missing = sorted(got - want), sorted(want - got)
                return (
                    f"{mode} digest of {seq!r} ({case['enzyme']}, length {r['min']}-{r['max']}, {r['mc']} missed cleavages, "
                    f"methionine_cleavage={r['met']}): not allowed by the rule {extra}, missing {missing}"
                )
        return None

    # ------------------------------------------------------------------ bookkeeping
    def nontrivial(self, case, impl_out):
        if not isinstance(impl_out, dict) or "runs" not in impl_out:
            return False
        seq = case["seq"]
        has_site = bool(impl_out["sites"]) or (seq[:1] == "M" and any(r["met"] for r in case["runs"]))
        return has_site and any(o.get("peptides") for o in impl_out["runs"])

    def features(self, case, impl_out):
        f = []
        n = len(case["seq"])
        f.append("len=%s" % (n if n < 3 else "3-7" if n <= 7 else "8-14"))
        if not isinstance(impl_out, dict) or "runs" not in impl_out:
            f.append("err=%s" % (impl_out.get("err") if isinstance(impl_out, dict) else "exc"))
            return f
        pre, not_post, post = impl_out["_rec"]["rule"]
        f.append("rule=%s" % ("post" if post else ("pre+notpost" if not_post else ("pre" if pre else "none"))))
        ns = len(impl_out["sites"])
        f.append("sites=%s" % (ns if ns < 3 else "3+"))
        seq = case["seq"]
        if seq[:1] == "M" and 1 in impl_out["sites"]:
            f.append("met_site_is_enzymatic")
        if n and n - 1 in [c - 0 for c in impl_out["sites"]]:
            f.append("site_before_last_residue")
        for r, o in zip(case["runs"], impl_out["runs"]):
            f.append("mode=%s" % eff_mode(r["mode"]))
            f.append("mc=%d" % r["mc"])
            if r["met"] and seq[:1] == "M":
                f.append("met_active")
            if "err" in o:
                f.append("err=" + o["err"])
            elif not o["peptides"]:
                f.append("empty_result")
            else:
                if len(o["peptides"]) != len(set(o["peptides"])):
                    f.append("duplicate_emissions")
                # C-terminal peptide whose length sits on a bound
                if any(seq.endswith(p) and len(p) in (r["min"], r["max"]) for p in o["peptides"]):
                    f.append("cterm_peptide_on_bound")
            if r["min"] == 0:
                f.append("min_len_0")
        return f

    def shrink(self, case):
        runs, seq = case["runs"], case["seq"]
        if len(runs) > 1:
            for i in range(len(runs)):
                yield {"seq": seq, "enzyme": case["enzyme"], "runs": [runs[i]]}
        for i in range(len(seq)):
            yield {"seq": seq[:i] + seq[i + 1 :], "enzyme": case["enzyme"], "runs": runs}
        for i, r in enumerate(runs):
            if r["mc"] > 0:
                yield {"seq": seq, "enzyme": case["enzyme"], "runs": runs[:i] + [dict(r, mc=r["mc"] - 1)] + runs[i + 1 :]}
            if r["min"] > 1:
                yield {"seq": seq, "enzyme": case["enzyme"], "runs": runs[:i] + [dict(r, min=r["min"] - 1)] + runs[i + 1 :]}
