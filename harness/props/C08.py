"""C08 — in-silico digestion yields exactly the peptides the cleavage rule defines.

Correspondence: digest.get_cleavage_sites + digest.get_digested_peptides (full_digest,
semi_specific_digest, non_specific_digest) and digest.is_enzymatic of the real code against
PgFdr.C08.digestByName / PgFdr.C08.Site of the Lean model.  A case is one protein sequence and
one enzyme name with a list of parameter runs (mode, length window, missed-cleavage budget,
methionine-cleavage flag); per run the yielded peptides are compared as sorted MULTISETS of
strings (duplicate emissions are pinned too).  No floats anywhere.

Oracle: the declarative rule of the property stated directly in Python over index pairs
(brute force over all substrings), independent of both the code's loops and the model.

Second kind of case ("config"): the digestion AS CONFIGURED.  DigestionParams(...) with every subset of its
arguments given (falsy values included), the real argparse options of add_digestion_arguments ->
get_digestion_params_list (defaults of absent options, broadcast of single values), then
digest.get_peptide_to_protein_map_from_params / get_num_ibaq_peptides_per_protein in process and the command line
tool digest.main with each non-empty combination of --prosit_input / --peptide_protein_map / --ibaq_map; every
result is read back PER PROTEIN and compared with PgFdr.C08.mkParams / paramsList / configMap / cliMain of the
model and, by the oracle, with the same brute-force rule instantiated with the configured values.
"""
import argparse
import csv
import itertools
import os
import sys
import tempfile

import lib
from lib import Prop

MODES = ("full", "semi", "none")
NEUTRALS = "SGCHNQTVI"
REPRESENTATIVE = ("trypsin", "lys-n", "chymotrypsin+", "asp-n")


_SRC = {}


def _source_rules():
    """ENZYME_CLEAVAGE_RULES read from the source text of digest.py (never imported)"""
    if "rules" not in _SRC:
        import tables

        _SRC["rules"] = tables.module_constants(lib.REPO / "picked_group_fdr" / "digest.py")["ENZYME_CLEAVAGE_RULES"]
    return _SRC["rules"]


def rule_table():
    from picked_group_fdr import digest

    return digest.ENZYME_CLEAVAGE_RULES


def alphabet(rule, rng=None):
    """per-enzyme 5-letter alphabet: pre / not_post / post residues + M + one neutral"""
    pre, npost, post = list(rule["pre"]), list(rule["not_post"]), list(rule["post"])
    if rng is not None:
        rng.shuffle(pre)
        rng.shuffle(post)
    letters = []
    for x in pre[:2] + npost[:1] + post[:2] + ["M"]:
        if x not in letters:
            letters.append(x)
    used = set(rule["pre"]) | set(rule["not_post"]) | set(rule["post"]) | {"M"}
    for x in NEUTRALS:
        if len(letters) >= 5:
            break
        if x not in used:
            letters.append(x)
    return letters[:5]


def sites(seq, pre, not_post, post):
    """internal cut positions c in 1..n-1 where the rule fires"""
    n = len(seq)
    return {c for c in range(1, n) if (seq[c - 1] in pre and seq[c] not in not_post) or (seq[c] in post)}


def spec(seq, mn, mx, pre, not_post, post, mc, metc, mode):
    """the property: substrings within the window, required termini at a protein terminus / site / Met site,
    spanning at most mc sites"""
    n, S = len(seq), sites(seq, pre, not_post, post)
    met = metc and seq[:1] == "M"
    res = set()
    for i in range(n):
        for j in range(i + 1, n + 1):
            if not (mn <= j - i <= mx):
                continue
            if mode == "none":
                res.add(seq[i:j])
                continue
            nterm = i == 0 or i in S or (met and i == 1)
            cterm = j == n or j in S or (met and j == 1)
            if not ((nterm and cterm) if mode == "full" else (nterm or cterm)):
                continue
            if len([c for c in S if i < c < j]) <= mc:
                res.add(seq[i:j])
    return res


def eff_mode(m):
    return m if m in ("semi", "none") else "full"


# ---------------------------------------------------------------------------------- configured digestion
SIG = ("enzyme", "digestion", "min", "max", "mc", "special", "contains_decoys")  # DigestionParams.__init__ order
KW = {"enzyme": "enzyme", "digestion": "digestion", "min": "min_length", "max": "max_length", "mc": "cleavages",
      "special": "special_aas", "contains_decoys": "fasta_contains_decoys"}
FLAG = {"enzyme": "--enzyme", "digestion": "--digestion", "min": "--min-length", "max": "--max-length",
        "mc": "--cleavages", "special": "--special-aas"}
DEFAULT_NAME = {"enzyme": "ENZYME_DEFAULT", "digestion": "DIGESTION_DEFAULT", "min": "MIN_PEPLEN_DEFAULT",
                "max": "MAX_PEPLEN_DEFAULT", "mc": "CLEAVAGES_DEFAULT", "special": "SPECIAL_AAS_DEFAULT"}
COMBOS = [[p, m, i] for p in (False, True) for m in (False, True) for i in (False, True) if p or m or i]
ID_POOL = ("P1", "sp|Q2|B_HUMAN", "P3", "CON__P4", "tr|A5|E_MOUSE", "P6")


def _source_defaults():
    """the documented defaults: the *_DEFAULT constants read from the source text of digestion_params.py"""
    if "defaults" not in _SRC:
        import tables

        c = tables.module_constants(lib.REPO / "picked_group_fdr" / "digestion_params.py")
        _SRC["defaults"] = {k: c[v] for k, v in DEFAULT_NAME.items()}
    return _SRC["defaults"]


def decoy(seq, special):
    """the generated decoy protein: reversed, then every special residue swapped with its predecessor"""
    s = list(seq[::-1])
    for i in range(1, len(s)):
        if s[i] in special:
            s[i], s[i - 1] = s[i - 1], s[i]
    return "".join(s)


def configured_sets(opts, parser_defaults=None):
    """the parameter sets a command line configures: an absent option has the default the REAL parser gives it
    (`parser_defaults`, recorded by run_impl from the parser's own actions; audit-3 C08-1: that the parser default
    equals the *_DEFAULT constant of the source is pinned by the model comparison of `list`, not by the oracle;
    without a recording the constants of the source are used), a single value holds for every set, several values
    are one per set.  None when the lists do not fit together."""
    d = {k: [v] for k, v in _source_defaults().items()}
    for k, v in (parser_defaults or {}).items():
        if k in d and v is not None:
            d[k] = list(v) if isinstance(v, (list, tuple)) else [v]
    lists = {k: (opts[k] if opts.get(k) is not None else d[k]) for k in FLAG}
    multi = {len(v) for v in lists.values() if len(v) != 1}
    if len(multi) > 1:
        return None
    n = multi.pop() if multi else 1
    sets = []
    for i in range(n):
        g = {k: (v[i] if len(v) != 1 else v[0]) for k, v in lists.items()}
        mode = "none" if g["enzyme"] == "no_enzyme" else eff_mode(g["digestion"])
        sets.append({"enzyme": g["enzyme"], "mode": mode, "min": g["min"], "max": g["max"], "mc": g["mc"],
                     "special": [] if g["special"] == "none" else list(g["special"]),
                     "concat": not opts["contains_decoys"], "met": True})
    return sets


def documented(opts, known_enzymes):
    """every explicitly given option value lies in the documented sets (modes full/semi/none, enzymes of the table,
    non-negative integers): only then a REFUSAL of the command line (argparse exit, ValueError) contradicts C08"""
    if any(v not in MODES for v in (opts.get("digestion") or [])):
        return False
    if any(v not in known_enzymes for v in (opts.get("enzyme") or [])):
        return False
    return all(isinstance(v, int) and v >= 0 for k in ("min", "max", "mc") for v in (opts.get(k) or []))


def expected_per_protein(case, sets, rules, ibaq):
    """protein identifier -> the keys the rule gives it under the configured parameter sets (union over the sets;
    the iBAQ settings when `ibaq`)"""
    want = {}
    for f in case["files"]:
        for st in sets:
            r = rules[st["enzyme"]]
            pre, npost, post = list(r["pre"]), list(r["not_post"]), list(r["post"])
            recs = []
            for pid, seq in f:
                recs.append((pid, seq))
                if st["concat"]:
                    recs.append(("REV__" + pid, decoy(seq, st["special"])))
            for pid, seq in recs:
                if ibaq:
                    peps = spec(seq, max(6, st["min"]), min(30, st["max"]), pre, npost, post, 0, False, "full")
                else:
                    peps = spec(seq, max(st["min"], 1), st["max"], pre, npost, post, st["mc"], st.get("met", True), st["mode"])
                    if st["mode"] == "none":
                        peps = {p[:6] for p in peps}
                want.setdefault(pid, set()).update(peps)
    return {k: v for k, v in want.items() if v}


def params_fields(p):
    return {"enzyme": p.enzyme, "digestion": p.digestion, "min": p.min_length, "max": p.max_length, "mc": p.cleavages,
            "special": "".join(p.special_aas), "met": p.methionine_cleavage, "db": p.db, "hash": p.use_hash_key}


def opt_argv(opts):
    argv = []
    for k in FLAG:
        if opts.get(k) is not None:
            argv += [FLAG[k], *[str(x) for x in opts[k]]]
    if opts["contains_decoys"]:
        argv.append("--fasta_contains_decoys")
    return argv


ALL_RUNS = [
    {"mode": mode, "min": mn, "max": mx, "mc": mc, "met": met}
    for mode in MODES
    for (mn, mx) in ((1, 3), (2, 50), (1, 50), (3, 4))
    for mc in (0, 1, 2)
    for met in (False, True)
]


class P(Prop):
    id = "C08"
    quick_cases = 30000
    thorough_cases = 200000
    chunk = 1000
    config_share = 0.07  # fraction of generated cases that exercise the configured digestion (kind "config")
    rule = (
        "one case = protein sequence (length 0-14 over a per-enzyme 5-letter alphabet: its pre/not_post/post residues, M, "
        "one neutral; 70% start with M when Met cleavage is on) x every enzyme of ENZYME_CLEAVAGE_RULES x 1-3 parameter runs "
        "(mode full/semi/none, window min 1-7 (rarely 0) and max min+0..8 or 50, budget 0-3, Met flag); thorough adds all "
        "sequences <= 7 over the alphabet for trypsin, lys-n, chymotrypsin+, asp-n (72 runs each for <= 5, 6 rotating runs "
        "for 6-7); non-trivial = a run whose spec set is non-empty on a sequence with an enzymatic or Met site; distinct by "
        "sha1 of the case.  7% of the cases are of kind 'config' (the digestion as configured): 1-3 parameter sets given as "
        "command-line option lists (each option absent / one value / one value per set, rarely lists that do not fit; enzymes "
        "of the table, modes full/semi/none, min 0-7, max 3-60, budget 0-3, special residues KR/none/K/R/'', decoys "
        "generated or not), 1-4 proteins of length 1-40 in 1-2 FASTA files, 1-2 DigestionParams(...) calls with a random "
        "subset of the arguments given (0 values included), and 2-3 (thorough: all 7) non-empty combinations of the digest "
        "tool's output options; non-trivial = some protein is listed with >= 2 peptides"
    )
    assumptions = [
        "Python str slicing / list semantics as documented (seq[a:b] clamps at the end)",
        "sequences are non-empty for the set-equality statement (the code raises IndexError or yields only '' on '')",
        "config cases: FASTA files are well formed with distinct identifiers (parsing, duplicate identifiers and the order "
        "of the map's rows are C09's statement); argparse hands get_digestion_params_list non-empty lists",
    ]

    # ------------------------------------------------------------------ generation
    def gen_case(self, rng, tier):
        if rng.random() < self.config_share:
            return self._gen_config(rng, tier)
        rules = rule_table()
        names = list(rules)
        enzyme = rng.choice(names)
        if rng.random() < 0.01:
            enzyme = "not-an-enzyme"
            al = list("KRPMA")
        else:
            al = alphabet(rules[enzyme], rng)
        n = rng.choice([0, 1, 1, 2, 2, 3, 3, 4, 5, 6, 7, 8, 9, 10, 11, 12, 13, 14])
        seq = "".join(rng.choice(al) for _ in range(n))
        if n and rng.random() < 0.45:
            seq = "M" + seq[1:]
        runs = []
        for _ in range(rng.choice([1, 1, 2, 3])):
            mn = rng.choice([1, 1, 1, 2, 2, 3, 4, 5, 6, 7])
            if rng.random() < 0.03:
                mn = 0
            mx = mn + rng.choice([0, 0, 1, 2, 3, 5, 8, 50])
            if n and rng.random() < 0.15:  # a window whose bound sits on the whole sequence / its tail
                mx = max(mn, rng.choice([n, n - 1, n // 2 + 1]))
            mode = rng.choice(["full", "full", "semi", "semi", "none"])
            if rng.random() < 0.02:
                mode = rng.choice(["Full", "", "semi-specific"])
            runs.append({"mode": mode, "min": mn, "max": mx, "mc": rng.choice([0, 0, 1, 1, 2, 3]), "met": rng.random() < 0.6})
        return {"seq": seq, "enzyme": enzyme, "runs": runs}

    def exhaustive_cases(self, tier):
        rules = rule_table()
        out = []
        k = 0
        for name in REPRESENTATIVE:
            if name not in rules:
                continue
            al = alphabet(rules[name])
            for L in range(1, 8):
                for t in itertools.product(al, repeat=L):
                    seq = "".join(t)
                    if L <= 5:
                        runs = ALL_RUNS
                    else:
                        runs = [ALL_RUNS[(k * 7 + d * 13) % len(ALL_RUNS)] for d in range(6)]
                        k += 1
                    out.append({"seq": seq, "enzyme": name, "runs": runs})
        return out

    # ------------------------------------------------------------------ implementation
    def run_impl(self, case):
        if case.get("kind") == "config":
            return self._run_config(case)
        from picked_group_fdr import digest

        seq = case["seq"]
        try:
            pre, not_post, post = digest.get_cleavage_sites(case["enzyme"])
        except KeyError:
            return {"err": "unknown_enzyme"}
        outs = []
        for r in case["runs"]:
            try:
                peps = list(
                    digest.get_digested_peptides(seq, r["min"], r["max"], pre, not_post, post, r["mode"], r["mc"], r["met"])
                )
                outs.append({"peptides": sorted(peps)})
            except IndexError:
                outs.append({"err": "index_error"})
            except ValueError:
                if r["mode"] in MODES:
                    raise
                outs.append({"err": "value_error"})  # an undocumented mode string was refused (audit-3 C08-3)
        cut = [c for c in range(1, len(seq)) if digest.is_enzymatic(seq[c - 1], seq[c], pre, not_post, post)]
        ent = getattr(digest, "ENZYME_CLEAVAGE_RULES", {}).get(case["enzyme"])
        ent = None if not isinstance(ent, dict) else {k: list(ent.get(k, [])) for k in ("pre", "not_post", "post")}
        return {"runs": outs, "sites": cut, "_rec": {"rule": [list(pre), list(not_post), list(post)], "table": ent}}

    # ------------------------------------------------------------------ model
    def model_request(self, case, impl_out):
        if case.get("kind") == "config":
            return self._config_request(case)
        reqs = [
            {"op": "digest", "seq": case["seq"], "enzyme": case["enzyme"], "mode": r["mode"], "min": r["min"], "max": r["max"], "mc": r["mc"], "met": r["met"]}
            for r in case["runs"]
        ]
        reqs.append({"op": "sites", "seq": case["seq"], "enzyme": case["enzyme"]})
        return reqs

    def model_view(self, case, resp, impl_out):
        if case.get("kind") == "config":
            return self._config_view(case, resp)
        *runs, st = resp
        if st.get("err") == "unknown_enzyme" and all(r.get("err") == "unknown_enzyme" for r in runs):
            return {"err": "unknown_enzyme"}
        outs = []
        for r in runs:
            if "peptides" in r:
                outs.append({"peptides": sorted(r["peptides"])})
            else:
                outs.append(r)
        return {"runs": outs, "sites": st.get("sites", st)}

    # ------------------------------------------------------------------ the property
    def oracle(self, case, impl_out):
        if not isinstance(impl_out, dict):
            return "no output"
        if case.get("kind") == "config":
            return self._config_oracle(case, impl_out)
        if impl_out.get("err") == "unknown_enzyme":
            return None if case["enzyme"] not in rule_table() else "known enzyme rejected"
        # the rule comes from the SOURCE TEXT of the enzyme table (ast, as harness/tables.py reads it), not from what
        # the implementation looked up for this name: a lookup that maps one supported name onto another's rule is
        # then a failing input and not only a disagreement with the model
        src = _source_rules().get(case["enzyme"])
        if src is None:
            # not in the literal: an entry added to the table programmatically (alias) is judged with the rule the
            # imported table holds for it (audit-3 C08-7); a name in neither was accepted without a rule
            src = impl_out["_rec"].get("table")
        if src is None:
            return f"enzyme {case['enzyme']!r} was accepted although the enzyme table does not list it"
        pre, not_post, post = list(src["pre"]), list(src["not_post"]), list(src["post"])
        if [pre, not_post, post] != [list(x) for x in impl_out["_rec"]["rule"]]:
            return (f"get_cleavage_sites({case['enzyme']!r}) returns {impl_out['_rec']['rule']}, the enzyme table says "
                    f"{[pre, not_post, post]}")
        seq = case["seq"]
        want_sites = sorted(sites(seq, pre, not_post, post))
        if impl_out["sites"] != want_sites:
            return f"is_enzymatic marks cut positions {impl_out['sites']} of {seq!r}, the rule gives {want_sites}"
        for r, o in zip(case["runs"], impl_out["runs"]):
            if "err" in o:
                if seq == "":
                    continue
                if o["err"] == "value_error" and r["mode"] not in MODES:
                    continue  # the property speaks of full, semi-specific and non-specific digestion only
                return f"digestion of {seq!r} raised {o['err']}"
            mode = eff_mode(r["mode"])
            want = spec(seq, max(r["min"], 1), r["max"], pre, not_post, post, r["mc"], r["met"], mode)
            got = set(o["peptides"])
            if r["min"] == 0:
                got -= {""}  # the statement is about min_len >= 1; with 0 the code may also yield the empty string
            if got != want:
                extra, missing = sorted(got - want), sorted(want - got)
                return (
                    f"{mode} digest of {seq!r} ({case['enzyme']}, length {r['min']}-{r['max']}, {r['mc']} missed cleavages, "
                    f"methionine_cleavage={r['met']}): not allowed by the rule {extra}, missing {missing}"
                )
        return None

    # ------------------------------------------------------------------ bookkeeping
    def nontrivial(self, case, impl_out):
        if case.get("kind") == "config":
            return self._config_nontrivial(case, impl_out)
        if not isinstance(impl_out, dict) or "runs" not in impl_out:
            return False
        seq = case["seq"]
        has_site = bool(impl_out["sites"]) or (seq[:1] == "M" and any(r["met"] for r in case["runs"]))
        return has_site and any(o.get("peptides") for o in impl_out["runs"])

    def features(self, case, impl_out):
        if case.get("kind") == "config":
            return self._config_features(case, impl_out)
        f = []
        n = len(case["seq"])
        f.append("len=%s" % (n if n < 3 else "3-7" if n <= 7 else "8-14"))
        if not isinstance(impl_out, dict) or "runs" not in impl_out:
            f.append("err=%s" % (impl_out.get("err") if isinstance(impl_out, dict) else "exc"))
            return f
        pre, not_post, post = impl_out["_rec"]["rule"]
        f.append("rule=%s" % ("post" if post else ("pre+notpost" if not_post else ("pre" if pre else "none"))))
        ns = len(impl_out["sites"])
        f.append("sites=%s" % (ns if ns < 3 else "3+"))
        seq = case["seq"]
        if seq[:1] == "M" and 1 in impl_out["sites"]:
            f.append("met_site_is_enzymatic")
        if n and n - 1 in [c - 0 for c in impl_out["sites"]]:
            f.append("site_before_last_residue")
        for r, o in zip(case["runs"], impl_out["runs"]):
            f.append("mode=%s" % eff_mode(r["mode"]))
            f.append("mc=%d" % r["mc"])
            if r["met"] and seq[:1] == "M":
                f.append("met_active")
            if "err" in o:
                f.append("err=" + o["err"])
            elif not o["peptides"]:
                f.append("empty_result")
            else:
                if len(o["peptides"]) != len(set(o["peptides"])):
                    f.append("duplicate_emissions")
                # C-terminal peptide whose length sits on a bound
                if any(seq.endswith(p) and len(p) in (r["min"], r["max"]) for p in o["peptides"]):
                    f.append("cterm_peptide_on_bound")
            if r["min"] == 0:
                f.append("min_len_0")
        return f

    def shrink(self, case):
        if case.get("kind") == "config":
            yield from self._config_shrink(case)
            return
        runs, seq = case["runs"], case["seq"]
        if len(runs) > 1:
            for i in range(len(runs)):
                yield {"seq": seq, "enzyme": case["enzyme"], "runs": [runs[i]]}
        for i in range(len(seq)):
            yield {"seq": seq[:i] + seq[i + 1 :], "enzyme": case["enzyme"], "runs": runs}
        for i, r in enumerate(runs):
            if r["mc"] > 0:
                yield {"seq": seq, "enzyme": case["enzyme"], "runs": runs[:i] + [dict(r, mc=r["mc"] - 1)] + runs[i + 1 :]}
            if r["min"] > 1:
                yield {"seq": seq, "enzyme": case["enzyme"], "runs": runs[:i] + [dict(r, min=r["min"] - 1)] + runs[i + 1 :]}

    # ================================================================== kind "config": the digestion as configured
    def _gen_config(self, rng, tier):
        rules = rule_table()
        names = list(rules)
        nsets = rng.choice([1, 1, 1, 2, 2, 3])
        enzymes = []
        for _ in range(nsets):
            e = rng.choice(names)
            if rng.random() < 0.35:
                e = rng.choice(["trypsin", "lys-n", "asp-n", "chymotrypsin+", "lys-c"])
            if rng.random() < 0.01:
                e = "not-an-enzyme"
            enzymes.append(e)

        def lst(make, p_absent=0.25, p_single=0.5):
            if rng.random() < p_absent:
                return None
            if nsets > 1 and rng.random() < 0.02:  # lists that do not fit together (ValueError)
                return [make() for _ in range(nsets + 1)]
            if rng.random() < p_single:
                return [make()]
            return [make() for _ in range(nsets)]

        opts = {
            "enzyme": None if rng.random() < 0.2 else (enzymes if rng.random() < 0.8 else enzymes[:1]),
            "digestion": lst(lambda: rng.choice(["full", "full", "full", "full", "semi", "semi", "semi", "none"]) if rng.random() > 0.02 else rng.choice(["Full", "semi-specific"])),
            "min": lst(lambda: rng.choice([1, 1, 2, 3, 5, 6, 7]) if rng.random() > 0.03 else 0),
            "max": lst(lambda: rng.choice([3, 5, 8, 12, 29, 30, 31, 40, 60])),
            "mc": lst(lambda: rng.choice([0, 0, 0, 1, 1, 2, 3]), p_absent=0.2),
            "special": lst(lambda: rng.choice(["KR", "KR", "none", "K", "R", "RK"]) if rng.random() > 0.03 else ""),
            "contains_decoys": rng.random() < 0.5,
        }
        # residues: the site residues of the configured enzymes (default enzyme when the option is absent), M, neutrals
        used = opts["enzyme"] or [_source_defaults()["enzyme"]]
        site_res = []
        for e in used:
            r = rules.get(e, rules["trypsin"])
            site_res += list(r["pre"][:3]) + list(r["post"][:2]) + list(r["not_post"][:1])
        site_res = site_res or ["K"]
        neutrals = [x for x in NEUTRALS if x not in site_res]
        p_site = rng.choice([0.1, 0.15, 0.25, 0.4])

        def protein():
            n = rng.choice([1, 2, 3, 5, 8, 9, 12, 14, 17, 20, 24, 28, 33, 40])
            s = "".join(rng.choice(site_res) if rng.random() < p_site else rng.choice(neutrals) for _ in range(n))
            if rng.random() < 0.5:
                s = "M" + s[1:]
            if rng.random() < 0.06:
                k = rng.randrange(n)
                s = s[:k] + rng.choice("UX") + s[k + 1 :]
            return s

        ids = list(ID_POOL)
        rng.shuffle(ids)
        nprot = rng.choice([1, 1, 2, 2, 3, 4])
        prots = [[ids[i], protein()] for i in range(nprot)]
        if nprot >= 2 and rng.random() < 0.5:
            k = rng.randrange(1, nprot)
            files = [prots[:k], prots[k:]]
        else:
            files = [prots]
        # DigestionParams(...) calls: the first `npos` arguments positionally, any subset of the others by keyword
        ctor = []
        for _ in range(rng.choice([1, 2, 2])):
            npos = rng.choice([0, 0, 0, 1, 2, 5, 7])
            p_omit = rng.choice([0.45, 0.45, 0.8, 1.0])
            args = {}
            for i, k in enumerate(SIG):
                if i >= npos and rng.random() < p_omit:
                    args[k] = None
                elif k == "enzyme":
                    args[k] = rng.choice(names)
                elif k == "digestion":
                    args[k] = rng.choice(["full", "semi", "none"])
                elif k == "min":
                    args[k] = rng.choice([0, 0, 1, 2, 6, 7, 9])
                elif k == "max":
                    args[k] = rng.choice([0, 1, 5, 30, 60, 61])
                elif k == "mc":
                    args[k] = rng.choice([0, 0, 0, 1, 2, 3])
                elif k == "special":
                    args[k] = rng.choice(["KR", "none", "", "K"])
                else:
                    args[k] = rng.random() < 0.5
            ctor.append({"args": args, "npos": npos})
        if tier == "thorough":
            combos = [list(c) for c in COMBOS]
        else:
            combos = [list(c) for c in rng.sample(COMBOS, 2)]
            if rng.random() < 0.5 and [False, True, True] not in combos:
                combos.append([False, True, True])
        return {"kind": "config", "opts": opts, "files": files, "ctor": ctor, "combos": combos,
                "width": rng.choice([60, 60, 7, 1000]), "desc": rng.random() < 0.5}

    # ------------------------------------------------------------------ implementation
    @staticmethod
    def _write_fasta(case, d):
        paths = []
        w = case["width"]
        for i, f in enumerate(case["files"]):
            p = os.path.join(d, f"db{i}.fasta")
            with open(p, "w") as fh:
                for pid, seq in f:
                    fh.write(">" + pid + (" some protein OS=x" if case["desc"] else "") + "\n")
                    for k in range(0, len(seq), w):
                        fh.write(seq[k : k + w] + "\n")
            paths.append(p)
        return paths

    @staticmethod
    def _invert(m):
        per = {}
        for pep, prots in m.items():
            for pr in prots:
                per.setdefault(pr, set()).add(pep)
        return {k: sorted(v) for k, v in per.items()}

    @staticmethod
    def _read_rows(path, delimiter):
        with open(path, newline="") as fh:
            return list(csv.reader(fh, delimiter=delimiter))

    def _errname(self, e, case):
        from picked_group_fdr import digest

        if isinstance(e, KeyError):
            known = set(digest.ENZYME_CLEAVAGE_RULES)
            used = (case["opts"].get("enzyme") or [])
            if any(x not in known for x in used):
                return "unknown_enzyme"
            raise e
        if isinstance(e, SystemExit):
            return "rejected"  # argparse refused the command line (audit-3 C08-2)
        for t, n in ((IndexError, "index_error"), (AttributeError, "attribute_error"), (ValueError, "value_error")):
            if isinstance(e, t):
                return n
        raise e

    def _run_config(self, case):
        from picked_group_fdr import digest
        from picked_group_fdr import digestion_params as dp

        out = {}
        # --- DigestionParams(...) with a subset of its arguments
        ctor = []
        for c in case["ctor"]:
            pos = [c["args"][k] for k in SIG[: c["npos"]]]
            kw = {KW[k]: c["args"][k] for k in SIG[c["npos"] :] if c["args"][k] is not None}
            ctor.append(params_fields(dp.DigestionParams(*pos, **kw)))
        out["ctor"] = ctor
        # --- the options through the real parser, then get_digestion_params_list
        argv_opts = opt_argv(case["opts"])

        import contextlib
        import io

        def parser():
            apars = argparse.ArgumentParser()
            dp.add_digestion_arguments(apars)
            return apars

        def fresh():
            with contextlib.redirect_stderr(io.StringIO()):
                return dp.get_digestion_params_list(parser().parse_args(argv_opts))

        # what the real parser gives an ABSENT option (read from its own actions, by option string)
        defaults = {}
        try:
            for a in parser()._actions:
                for k, flag in FLAG.items():
                    if flag in a.option_strings:
                        defaults[k] = a.default
        except Exception:
            defaults = {}
        table = {}
        try:
            for name, ent in digest.ENZYME_CLEAVAGE_RULES.items():
                table[name] = {k: list(ent.get(k, [])) for k in ("pre", "not_post", "post")}
        except Exception:
            table = {}
        out["_rec"] = {"defaults": defaults, "table": table}

        try:
            out["list"] = {"params": [params_fields(p) for p in fresh()]}
        except (ValueError, SystemExit) as e:
            out["list"] = {"err": self._errname(e, case)}
        with tempfile.TemporaryDirectory(prefix="c08_") as d:
            paths = self._write_fasta(case, d)
            # --- in process: the map of the configured parameter sets, the iBAQ numbers on fresh objects
            try:
                res = digest.get_peptide_to_protein_map_from_params(paths, fresh())
                out["map"] = {"proteins": self._invert(res[0] if isinstance(res, tuple) else res)}
            except (ValueError, KeyError, IndexError, SystemExit) as e:
                out["map"] = {"err": self._errname(e, case)}
            try:
                cnt = digest.get_num_ibaq_peptides_per_protein(paths, fresh())
                out["ibaq"] = {"counts": {k: int(v) for k, v in cnt.items()}}
            except (ValueError, KeyError, IndexError, SystemExit) as e:
                out["ibaq"] = {"err": self._errname(e, case)}
            # --- the command line tool, one invocation per combination of output options
            cli = []
            for n, (wp, wm, wi) in enumerate(case["combos"]):
                pf, mf, bf = (os.path.join(d, f"{x}{n}") for x in ("prosit.csv", "map.tsv", "ibaq.tsv"))
                argv = ["digest", "--fasta", *paths, *argv_opts]
                argv += (["--prosit_input", pf] if wp else []) + (["--peptide_protein_map", mf] if wm else [])
                argv += ["--ibaq_map", bf] if wi else []
                old = sys.argv
                sys.argv = argv
                try:
                    with contextlib.redirect_stderr(io.StringIO()):
                        digest.main(argv[1:])
                except (ValueError, KeyError, IndexError, AttributeError, SystemExit) as e:
                    cli.append({"err": self._errname(e, case)})
                    continue
                finally:
                    sys.argv = old
                r = {"prosit": None, "map": None, "ibaq": None}
                if wp and os.path.exists(pf):
                    rows = self._read_rows(pf, ",")
                    rows2 = self._read_rows(pf.replace(".csv", "_with_proteins.csv"), ",")
                    peps = [x[0] for x in rows[1:]]
                    uniq = list(dict.fromkeys(peps))
                    ok = rows[:1] == [["modified_sequence", "collision_energy", "precursor_charge"]]
                    ok = ok and rows2[:1] == [["modified_sequence", "collision_energy", "precursor_charge", "protein"]]
                    ok = ok and rows[1:] == [[p, "30", str(z)] for p in uniq for z in (2, 3, 4)]
                    ok = ok and [x[:3] for x in rows2[1:]] == rows[1:] and all(len(x) == 4 for x in rows2[1:])
                    ok = ok and all(len({x[3] for x in rows2[1:] if x[0] == p}) == 1 for p in uniq)
                    r["prosit"] = {"peptides": sorted(set(peps)), "wellformed": ok,
                                   "proteins": {x[0]: x[3] for x in rows2[1:] if len(x) == 4}}
                if wm and os.path.exists(mf):
                    rows = self._read_rows(mf, "\t")
                    r["map"] = self._invert({x[0]: x[1].split(";") for x in rows})
                if wi and os.path.exists(bf):
                    rows = self._read_rows(bf, "\t")
                    r["ibaq"] = {x[0]: int(x[1]) for x in rows}
                cli.append(r)
            out["cli"] = cli
        return out

    # ------------------------------------------------------------------ model
    def _config_request(self, case):
        reqs = [{"op": "c08_ctor", "args": c["args"]} for c in case["ctor"]]
        reqs.append({"op": "c08_list", "opts": case["opts"]})
        reqs.append({"op": "c08_map", "opts": case["opts"], "files": case["files"], "ibaq": False})
        reqs.append({"op": "c08_map", "opts": case["opts"], "files": case["files"], "ibaq": True})
        for wp, wm, wi in case["combos"]:
            reqs.append({"op": "c08_main", "opts": case["opts"], "files": case["files"], "prosit": wp, "map": wm, "ibaq": wi})
        return reqs

    def _config_view(self, case, resp):
        nc = len(case["ctor"])
        ctor, lst, mp, ib, cli = resp[:nc], resp[nc], resp[nc + 1], resp[nc + 2], resp[nc + 3 :]

        def per(x):
            return {k: sorted(set(v)) for k, v in x if v}

        out = {"ctor": ctor, "list": lst}
        out["map"] = mp if "err" in mp else {"proteins": per(mp["proteins"])}
        out["ibaq"] = ib if "err" in ib else {"counts": {k: len(set(v)) for k, v in ib["proteins"] if v}}
        view = []
        for r in cli:
            if "err" in r or "proto_err" in r:
                view.append(r)
                continue
            v = {"prosit": None, "map": None, "ibaq": None}
            if r["prosit"] is not None:
                v["prosit"] = {"peptides": sorted({x[0] for x in r["prosit"]}), "wellformed": True,
                               "proteins": {x[0]: x[1] for x in r["prosit"]}}
            if r["map"] is not None:
                v["map"] = per(r["map"])
            if r["ibaq"] is not None:
                v["ibaq"] = {k: n for k, n in r["ibaq"]}
            view.append(v)
        out["cli"] = view
        return out

    # ------------------------------------------------------------------ the property on the configured digestion
    def _config_oracle(self, case, out):
        rec = out.get("_rec") or {}
        # the enzyme table: the literal of the source; names the literal lacks but the imported table holds (entries
        # added programmatically) are judged with the imported entry (audit-3 C08-7)
        rules = dict(rec.get("table") or {})
        rules.update(_source_rules())
        sets = configured_sets(case["opts"], rec.get("defaults"))
        results = [("get_peptide_to_protein_map_from_params", out["map"]), ("get_num_ibaq_peptides_per_protein", out["ibaq"])]
        results += [("digest tool, outputs prosit/map/ibaq=%s" % c, r) for c, r in zip(case["combos"], out["cli"])]
        if sets is None:
            # option lists of unequal length: C08 does not say what such a command line configures (refusing, padding,
            # truncating are all silent here; the model comparison pins the refusal — audit-3 C08-5)
            return None
        if any(st["enzyme"] not in rules for st in sets):
            bad = [w for w, r in results if "err" not in r]
            return ("an enzyme outside the table was accepted by " + bad[0]) if bad else None
        # a refusal (argparse exit / ValueError) of a command line with a value outside the documented sets is not
        # judged (audit-3 C08-2/3); when the code accepts an undocumented mode string it is held to what the
        # dispatcher of the digestion does with it (full digestion)
        may_refuse = not documented(case["opts"], set(rules))

        def refused(r):
            return may_refuse and r.get("err") in ("rejected", "value_error")

        # the methionine-cleavage setting and the database kind are taken from the real parameter objects (the
        # property quantifies over every such setting; audit-3 C08-6)
        real = (out.get("list") or {}).get("params")
        if isinstance(real, list) and len(real) == len(sets):
            for st, pr in zip(sets, real):
                if isinstance(pr.get("met"), bool):
                    st["met"] = pr["met"]
                if pr.get("db") in ("concat", "target"):
                    st["concat"] = pr["db"] == "concat"
        zero_min = any(st["min"] == 0 for st in sets)
        want = expected_per_protein(case, sets, rules, False)
        want_ibaq = {k: len(v) for k, v in expected_per_protein(case, sets, rules, True).items()}
        hashed = any(st["mode"] == "none" for st in sets)
        cfg = "; ".join(
            "%s %s %d-%d mc=%d special=%s %s" % (st["enzyme"], st["mode"], st["min"], st["max"], st["mc"],
                                                 "".join(st["special"]) or "-", "concat" if st["concat"] else "target")
            for st in sets)
        seqs = {pid: seq for f in case["files"] for pid, seq in f}

        def cmp_map(where, got):
            got = {k: set(v) - ({""} if zero_min else set()) for k, v in got.items()}
            got = {k: v for k, v in got.items() if v}
            for pid in sorted(set(got) | set(want)):
                g, w = got.get(pid, set()), want.get(pid, set())
                if g != w:
                    return (f"{where}: protein {pid} ({seqs.get(pid.replace('REV__', '', 1), '?')}) configured as [{cfg}] is listed "
                            f"with peptides the rule does not allow {sorted(g - w)[:6]}, missing {sorted(w - g)[:6]}")
            return None

        def cmp_ibaq(where, got):
            got = {k: v for k, v in got.items() if v}
            if got != want_ibaq:
                diff = {k: (got.get(k, 0), want_ibaq.get(k, 0)) for k in set(got) | set(want_ibaq) if got.get(k, 0) != want_ibaq.get(k, 0)}
                return f"{where}: iBAQ peptide numbers (got, fully specific 6-30 without missed cleavage) differ: {dict(sorted(diff.items()))} for [{cfg}]"
            return None

        if "err" in out["map"]:
            if not refused(out["map"]):
                return "get_peptide_to_protein_map_from_params raised %s for [%s]" % (out["map"]["err"], cfg)
        else:
            why = cmp_map("get_peptide_to_protein_map_from_params", out["map"]["proteins"])
            if why:
                return why
        if "err" in out["ibaq"]:
            if not refused(out["ibaq"]):
                return "get_num_ibaq_peptides_per_protein raised %s for [%s]" % (out["ibaq"]["err"], cfg)
        else:
            why = cmp_ibaq("get_num_ibaq_peptides_per_protein", out["ibaq"]["counts"])
            if why:
                return why
        for (wp, wm, wi), r in zip(case["combos"], out["cli"]):
            where = "digest tool with " + " ".join(n for n, b in (("--prosit_input", wp), ("--peptide_protein_map", wm), ("--ibaq_map", wi)) if b)
            if "err" in r:
                if r["err"] == "attribute_error" and hashed and (wp or wm):
                    continue  # the tool cannot write a hash-key (non-specific) map at all: no peptide set to judge
                if refused(r):
                    continue
                return f"{where} raised {r['err']} for [{cfg}]"
            for name, b in (("prosit", wp), ("map", wm), ("ibaq", wi)):
                if b and r[name] is None:
                    return f"{where}: the {name} file was not written"
            if wm:
                why = cmp_map(where, r["map"])
                if why:
                    return why
            if wi:
                why = cmp_ibaq(where, r["ibaq"])
                if why:
                    return why
            if wp:
                allp = set().union(*want.values()) if want else set()
                # the Prosit input is a FILTERED listing (today: length <= 30, no U/X); which peptides the filter
                # excludes is not C08's statement (pinned by the model comparison): only "nothing outside the rule"
                # is judged here (audit-3 C08-4)
                gotp = set(r["prosit"]["peptides"]) - ({""} if zero_min else set())
                if not gotp <= allp:
                    return (f"{where}: the Prosit input lists peptides the rule does not allow {sorted(gotp - allp)[:6]} "
                            f"for [{cfg}]")
                for pep, pr in r["prosit"]["proteins"].items():
                    if pep and pep not in want.get(pr, set()):
                        return f"{where}: the Prosit input names protein {pr} for {pep}, which the rule does not cut from it [{cfg}]"
        return None

    # ------------------------------------------------------------------ bookkeeping
    def _config_nontrivial(self, case, out):
        if not isinstance(out, dict) or "map" not in out or "proteins" not in out["map"]:
            return False
        return any(len(v) >= 2 for v in out["map"]["proteins"].values())

    def _config_features(self, case, out):
        f = ["kind=config"]
        o = case["opts"]
        for k in FLAG:
            f.append("opt_%s=%s" % (k, "absent" if o.get(k) is None else ("single" if len(o[k]) == 1 else "list")))
        if o.get("mc") is not None and 0 in o["mc"]:
            f.append("cfg_mc=0")
        if o.get("min") is not None and 0 in o["min"]:
            f.append("cfg_min=0")
        f.append("db=%s" % ("target" if o["contains_decoys"] else "concat"))
        for c in case["ctor"]:
            f.append("ctor_npos=%d" % c["npos"])
            for k in ("min", "max", "mc"):
                if c["args"][k] == 0:
                    f.append("ctor_%s=0" % k)
            if all(v is None for v in c["args"].values()):
                f.append("ctor_all_defaults")
        if not isinstance(out, dict) or "list" not in out:
            return f + ["cfg_exc"]
        if "err" in out["list"]:
            f.append("cfg_err=" + out["list"]["err"])
        else:
            f.append("cfg_sets=%d" % len(out["list"]["params"]))
            for p in out["list"]["params"]:
                f.append("cfg_mode=%s" % eff_mode(p["digestion"]))
        if "err" in out.get("map", {}):
            f.append("cfg_map_err=" + out["map"]["err"])
        for c, r in zip(case["combos"], out.get("cli", [])):
            f.append("cli=%s%s%s" % tuple("pmi"[i] if c[i] else "-" for i in range(3)))
            if "err" in r:
                f.append("cli_err=" + r["err"])
            elif r.get("ibaq"):
                f.append("cli_ibaq_nonempty")
        sets = configured_sets(o)
        if sets and any(st["mc"] > 0 or st["min"] < 6 or st["max"] > 30 or st["mode"] == "semi" for st in sets):
            f.append("cfg_differs_from_ibaq_settings")
        return f

    def _config_shrink(self, case):
        def with_(**kw):
            c = dict(case)
            c.update(kw)
            return c

        if len(case["combos"]) > 1:
            for i in range(len(case["combos"])):
                yield with_(combos=[case["combos"][i]])
        if case["ctor"]:
            yield with_(ctor=[])
        files = case["files"]
        if len(files) > 1:
            for i in range(len(files)):
                yield with_(files=files[:i] + files[i + 1 :])
        for i, fl in enumerate(files):
            if len(fl) > 1:
                for j in range(len(fl)):
                    yield with_(files=files[:i] + [fl[:j] + fl[j + 1 :]] + files[i + 1 :])
        o = case["opts"]
        n = max([len(o[k]) for k in FLAG if o.get(k) is not None] + [1])
        if n > 1:  # drop one parameter set
            for i in range(n):
                yield with_(opts={k: ((v[:i] + v[i + 1 :]) if isinstance(v, list) and len(v) == n else v) for k, v in o.items()})
        for k in FLAG:
            if o.get(k) is not None:
                yield with_(opts=dict(o, **{k: None}))
        if not o["contains_decoys"]:
            yield with_(opts=dict(o, contains_decoys=True))
        if case["desc"] or case["width"] != 1000:
            yield with_(desc=False, width=1000)
        for i, fl in enumerate(files):
            for j, (pid, seq) in enumerate(fl):
                for cut in (seq[: len(seq) // 2], seq[len(seq) // 2 :], seq[1:], seq[:-1]):
                    if 1 <= len(cut) < len(seq):
                        yield with_(files=files[:i] + [fl[:j] + [[pid, cut]] + fl[j + 1 :]] + files[i + 1 :])
