"""C19 — FASTA header fields and annotation columns are extracted exactly.

Correspondence against the Lean model `PgFdr.C19` (driver ops "header", "annotations"):

* kind "header": one header string (composed from the UniProt grammar — isoform accessions,
  descriptions with brackets and the WORDS OS / GN / PE / OX / SV, optional gene field — or from a
  malformed stream: missing / repeated / leading keys, double spaces, 0-3 bars in the identifier,
  non-integer PE) through the real `parse_*` functions of protein_annotation.py, exactly the calls
  `read_fasta_proteins` makes, for each identifier rule.  The driver op "header" executes the
  CHARACTER-level model `annotateChar` (a literal mirror of `str.split(" OS=")[1].split(" GN=")[0]`
  etc.); that it equals the word-level model on every string is proved (`char_level_eq_token_level`),
  the word-level functions stay reachable as op "header_token".
* kind "fasta": 1-2 generated FASTA files (repeated identifiers with different content, records
  without gene, multi-line sequences, trailing blanks, occasional bare ">" lines) through the real
  `get_protein_annotations(files, contains_decoys, gene_level, use_uniprot_id)` — every identifier
  rule, target-only and target+decoy reading — and the three annotation columns through the real
  `ProteinAnnotationsColumns.append_columns` on rows built from the file's identifiers (repeats,
  isoforms sharing a gene, decoys, unknown identifiers).

* kinds "int" / "charclass": Python's `int()` of a PE field and Python's white space (`str.isspace`, what `rstrip()`
  strips) against the model's `parseInt` / `isSpace` / `isIntSpace` / `digitValue` — generated literals and near misses
  (signs, underscores, digits of other scripts, FS..US, NBSP / NEL) and, once per run, every code point.  The same shapes
  occur in the PE fields of malformed headers and at the line ends of a share of the generated FASTA records.

The oracle states the property on the composed fields (it never parses a header): the eight
fields of every well-formed record, first record wins within a file, the gene-level switch at
"more than half", and the three columns as distinct values in row order.
"""
import os
import random
import shutil
import tempfile
from pathlib import Path

import lib
from lib import Prop

WORDS = ["Cytochrome", "b5", "OS", "GN", "PE", "OX", "SV", "(Fragment)", "[isoform", "2]", "kinase", "protein-like", "3'-5'", "of", "OS-9", "GNAT", "PE2", "β-catenin", "1", "=", "a=b", "[OS]", "(GN)"]
ORGS = [["Homo", "sapiens"], ["Mus", "musculus"], ["Saccharomyces", "cerevisiae", "(strain", "ATCC", "204508", "/", "S288c)"], ["Escherichia", "coli", "O157:H7"], ["synthetic"], ["Influenza", "A", "virus", "(A/PE/8/34)"]]
GENES = ["CYB5A", "NOTCH3", "EC1118_1G1_3290g", "HLA-A", "G1", "G2", "g"]
ENTRIES = ["CYB5", "NOTC3", "A0A024", "X"]
SPECIES = ["HUMAN", "MOUSE", "YEAS8"]
RULES = ["full", "accession", "gene"]
AAS = "ACDEFGHIKLMNPQRSTVWY"


def compose(f):
    """header text of a field dict (the grammar of the property)"""
    h = "%s|%s|%s" % (f["db"], f["acc"], f["entry"])
    if f["desc"]:
        h += " " + " ".join(f["desc"])
    h += " OS=" + " ".join(f["org"]) + " OX=" + f["ox"]
    if f["gene"] is not None:
        h += " GN=" + f["gene"]
    h += " PE=%d SV=%s" % (f["pe"], f["sv"])
    return h


def gen_fields(rng, small=False):
    accs = ["P1", "P2", "Q7", "P1-2", "Q7-11", "A0A0B4"] if small else None
    acc = rng.choice(accs) if small else rng.choice(["P", "Q", "A0A0"]) + str(rng.randint(1000, 99999)) + rng.choice(["", "", "-2", "-11"])
    return {
        "db": rng.choice(["sp", "tr"]),
        "acc": acc,
        "entry": rng.choice(ENTRIES) + "_" + rng.choice(SPECIES),
        "desc": [rng.choice(WORDS) for _ in range(rng.choice([0, 1, 1, 2, 3, 4, 5]))],
        "org": list(rng.choice(ORGS)),
        "ox": str(rng.randint(1, 99999)),
        "gene": rng.choice([None, None] + GENES) if not small else rng.choice([None] + GENES[-3:]),
        "pe": rng.randint(1, 5),
        "sv": str(rng.randint(1, 9)),
    }


def expected_of_fields(f, rule, prefix=""):
    """what the property says the annotation of a composed header is (prefix = REV__ for a generated decoy)"""
    ident = prefix + "%s|%s|%s" % (f["db"], f["acc"], f["entry"])
    e = {
        "uniprot_id": f["acc"],
        "entry_name": f["entry"],
        "gene_name": f["gene"],
        "description": " ".join(f["desc"]),
        "existence": f["pe"],
        "fasta_header": prefix + compose(f),
    }
    if f["gene"] is not None:
        e["organism"] = " ".join(f["org"]) + " OX=" + f["ox"]
    e["id"] = {"full": ident, "accession": f["acc"], "gene": f["gene"]}[rule]
    return e


# ---- Python's white space and int() literals (what `line.rstrip()` strips and `int(PE field)` accepts) -------------------
# str.isspace / str.rstrip(): 29 code points (CPython 3.12, Unicode 15.0); int() skips the same set around the literal EXCEPT
# U+001C..U+001F (they are < 127, so they are not folded to ' ', and C isspace() does not know them).  The model's tables
# (`C19.isSpace`, `C19.isIntSpace`, `C19.digitZeros`) are compared with the running Python over EVERY code point by the
# case kind "charclass" (corpus/C19/charclass.json, replayed first on every check).
PY_SPACE = [0x09, 0x0A, 0x0B, 0x0C, 0x0D, 0x1C, 0x1D, 0x1E, 0x1F, 0x20, 0x85, 0xA0, 0x1680] + list(range(0x2000, 0x200B)) + [0x2028, 0x2029, 0x202F, 0x205F, 0x3000]
INT_WS = [chr(c) for c in PY_SPACE if c not in (0x1C, 0x1D, 0x1E, 0x1F, 0x20)]          # without the plain blank (it splits the header)
NOT_INT_WS = ["\x1c", "\x1d", "\x1e", "\x1f"]
TRAIL_WS = [chr(c) for c in PY_SPACE if c not in (0x0A, 0x0D)]                            # white space inside / at the end of a line of a file


def trailing_ws(rng, counts=(1, 1, 2)):
    """a run of Python white space ending a line; \\r only as the very last character (elsewhere it would end the line)"""
    return "".join(rng.choice(TRAIL_WS) for _ in range(rng.choice(counts))) + ("\r" if rng.random() < 0.1 else "")
DIGIT_ZEROS = [0x30, 0x30, 0x30, 0x660, 0x6F0, 0x966, 0xFF10, 0x1D7CE, 0x1D7D8, 0x1D7F6, 0x1E950, 0x1FBF0, 0x7C0, 0x11F50]
NON_DIGITS = ["x", ".", "e", "\x7f", "é", "²", "Ⅷ", "½", "−", "٫", "〇", "一", "\u200b", "\ufeff"]    # isdigit()/isnumeric() but no decimal digit, zero-width, …


def gen_int_literal(rng, blank_ok=False):
    """a string shaped like an int() literal -- optional white space, sign, decimal digits of any script with single
    underscores between them -- or a near miss (leading / trailing / double underscore, sign after blank, white space
    inside, FS..US around, a character that is no decimal digit)"""

    def digit():
        return chr(rng.choice(DIGIT_ZEROS) + rng.randint(0, 9))

    def ws():
        pool = INT_WS + ([" "] if blank_ok else [])
        return "".join(rng.choice(pool) for _ in range(rng.choice([0, 0, 0, 1, 1, 2])))

    body = digit()
    for _ in range(rng.choice([0, 0, 0, 1, 1, 2, 3, 6])):
        body += ("_" if rng.random() < 0.3 else "") + digit()
    s = ws() + rng.choice(["", "", "", "+", "-"]) + body + ws()
    m = rng.random()
    if m < 0.45:
        return s
    ins = rng.choice(["_", "_", "+", "-", rng.choice(NOT_INT_WS), rng.choice(INT_WS), rng.choice(NON_DIGITS), "__"] + ([" ", "\x00"] if blank_ok else []))
    i = rng.choice([0, len(s), rng.randint(0, len(s))])
    s = s[:i] + ins + s[i:]
    if m > 0.9 and s:
        j = rng.randrange(len(s))
        s = s[:j] + s[j + 1 :]
    return s


def malformed_header(rng):
    f = gen_fields(rng)
    r = rng.random()
    toks = compose(f).split(" ")
    if r < 0.15:  # no organism word at all
        toks = [t for t in toks if not t.startswith("OS=")]
    elif r < 0.3:  # a second key word somewhere
        toks.insert(rng.randint(0, len(toks)), rng.choice(["OS=x", "GN=y", "PE=4", "OS=", "GN=", "PE="]))
    elif r < 0.4:  # key as the very first word
        toks = [rng.choice(["OS=first", "GN=first", "PE=3"])] + toks[1:]
    elif r < 0.5:  # double spaces / leading space
        i = rng.randint(0, len(toks))
        toks.insert(i, "")
    elif r < 0.65:  # identifier with another number of bars
        toks[0] = rng.choice(["P12345", "sp|P12345", "sp|P1|E_H|extra", "||", "sp||E", "|", "REV__sp|P1|E_H", "a|b|c|d|e"])
    elif r < 0.78:  # PE that is not one digit
        pe = rng.choice(["", "x", "12", "07", "1a", "9", "+1", "-1", "1_0", "1\t", "\t2", "٣", "１２", "+_1", "1_", "_1", "1__0", "-0", "\xa03\x85", "1\x1c", "\x1f1", "1٢", "-١", "0x1", "1e3"]) if rng.random() < 0.5 else gen_int_literal(rng)
        toks = [("PE=" + pe) if t.startswith("PE=") else t for t in toks]
    elif r < 0.88:
        rng.shuffle(toks)
    else:
        toks = [rng.choice(WORDS + ["OS=a", "GN=b", "PE=1", "sp|A|B", "", "\ue000a", "GN=\ue000\x85"]) for _ in range(rng.randint(1, 6))]
    h = " ".join(toks)
    if rng.random() < 0.05:
        h = h.replace(" ", "\t", 1)
    return h


class P(Prop):
    id = "C19"
    quick_cases = 3000
    thorough_cases = 100000
    chunk = 500
    rule = (
        "kind=int (4%): int() literals and near misses; kind=charclass (corpus): every code point; "
        "kind=header: one header (70% composed from the UniProt grammar with isoform accessions, bracketed descriptions and the "
        "words OS/GN/PE, 30% malformed) through the real parse_* functions for each identifier rule; kind=fasta: 1-2 generated "
        "FASTA files with repeated identifiers, optional genes, multi-line sequences through get_protein_annotations (3 identifier "
        "rules x target/concat x gene level) and ProteinAnnotationsColumns on generated rows. Non-trivial = composed header with "
        ">=1 description word (header) / >= 2 records and a repeated identifier or a multi-protein row (fasta); distinct by sha1"
    )
    assumptions = [
        "generated files use \\n line ends (a trailing \\r is generated; no \\r or \\n INSIDE a line: the model takes the file as its list of lines) and are read as UTF-8; "
        "Python's white space (str.isspace: 29 code points) and int() literals (white space, sign, decimal digits of every script, single underscores) are modelled for "
        "CPython 3.12 / Unicode 15.0 and compared with the running interpreter over every code point (kind=charclass) and on generated literals (kind=int, PE fields, line ends); "
        "lone surrogates cannot occur in a UTF-8 file and are not generated",
        "counts/len(annotations) > 0.5 in double precision equals 2*counts > len for the generated sizes",
    ]

    # ------------------------------------------------------------------ generation
    def gen_case(self, rng, tier):
        if rng.random() < 0.04:
            return {"kind": "int", "s": gen_int_literal(rng, blank_ok=True)}
        if rng.random() < 0.6:
            if rng.random() < 0.7:
                f = gen_fields(rng)
                return {"kind": "header", "header": compose(f), "fields": f, "rule": rng.choice(RULES), "length": rng.randint(0, 50)}
            return {"kind": "header", "header": malformed_header(rng), "fields": None, "rule": rng.choice(RULES), "length": rng.randint(0, 50)}
        return self.gen_fasta(rng)

    def gen_fasta(self, rng):
        nfiles = rng.choice([1, 1, 1, 2])
        wf = rng.random() < 0.85
        files = []
        pool = []
        for _ in range(nfiles):
            recs = []
            n = rng.choice([1, 2, 3, 4, 4, 5, 6, 8])
            for _ in range(n):
                r = rng.random()
                if pool and r < 0.3:
                    # same identifier again, different content
                    g = dict(rng.choice(pool))
                    g["desc"] = [rng.choice(WORDS) for _ in range(rng.randint(0, 3))]
                    if rng.random() < 0.5:
                        g["gene"] = rng.choice([None] + GENES[-3:])
                    g["pe"] = rng.randint(1, 5)
                elif pool and r < 0.4:
                    # isoform of an earlier accession (same gene)
                    b = rng.choice(pool)
                    g = dict(gen_fields(rng, small=True), gene=b["gene"])
                    g["acc"] = b["acc"].split("-")[0] + "-" + str(rng.randint(2, 4))
                else:
                    g = gen_fields(rng, small=True)
                pool.append(g)
                seq = "".join(rng.choice(AAS) for _ in range(rng.randint(0, 30)))
                width = rng.choice([5, 60])
                inner = 0
                lines = [seq[a : a + width] for a in range(0, len(seq), width)] or ([""] if rng.random() < 0.5 else [])
                if rng.random() < 0.15:
                    lines = [l + rng.choice([" ", "\t", "  "]) for l in lines]
                elif rng.random() < 0.03:
                    # Python's rstrip() strips every str.isspace character (NBSP, NEL, FS..US, the Unicode blanks, \r, \v, \f);
                    # white space that is not at the end of the line stays and counts
                    new = []
                    for l in lines:
                        lead = rng.choice(TRAIL_WS) if rng.random() < 0.2 and l else ""
                        mid = rng.choice(TRAIL_WS) if rng.random() < 0.15 and len(l) >= 2 else ""
                        inner += len(lead) + len(mid)          # they are followed by a residue: not stripped, they count
                        new.append(lead + l[: len(l) // 2] + mid + l[len(l) // 2 :] + trailing_ws(rng))
                    lines = new or [trailing_ws(rng)]
                hdr = compose(g) if wf or rng.random() < 0.7 else malformed_header(rng)
                # inside a FILE a \r or \n ends the line (the model takes the file as its list of lines): other white space instead
                hdr = hdr.replace("\r", "\x0c").replace("\n", "\x0b")
                if not wf and "PE=" in hdr and rng.random() < 0.97:
                    # keep int() failures rare so that most malformed files are read completely
                    hdr = " ".join(t if not t.startswith("PE=") or t[3:].isdigit() and t[3:].isascii() else "PE=1" for t in hdr.split(" "))
                trail = rng.choice(["", "", "", " ", "\t"]) if rng.random() < 0.97 else trailing_ws(rng, (1, 1, 2, 3))
                recs.append({"fields": g if hdr == compose(g) else None, "header": hdr, "trail": trail, "seq_lines": lines, "seq_len": len(seq) + inner})
            if not wf and rng.random() < 0.3:
                recs.insert(rng.randint(0, len(recs)), {"fields": None, "header": "", "trail": rng.choice(["", "", "", " ", "\xa0", "\x1f\u2003"]), "seq_lines": ["AC"] if rng.random() < 0.5 else [], "seq_len": 0})
            files.append(recs)
        cd = rng.random() < 0.4
        gl = rng.random() < 0.4
        uu = rng.random() < 0.3
        # rows of the result table: identifiers by the rule that will be in force are not known here; offer all kinds
        cands = []
        for g in pool:
            ident = "%s|%s|%s" % (g["db"], g["acc"], g["entry"])
            cands += [ident, "REV__" + ident, g["acc"], "REV__" + g["acc"]]
            if g["gene"]:
                cands += [g["gene"], "REV__" + g["gene"]]
        cands += ["unknown", ""]
        rows = []
        # the identifier style that will (probably) be in force decides what most rows are made of
        main_kind = 2 if gl and rng.random() < 0.7 else (1 if uu else 0)
        for _ in range(rng.randint(1, 4)):
            k = rng.choice([1, 2, 2, 3, 3, 4, 5])
            kind = main_kind if rng.random() < 0.8 else rng.choice([0, 1, 2])
            style = [c for i, c in enumerate(cands[:-2]) if (i // 2) % 3 == kind] or cands
            row = [rng.choice(style) if rng.random() < 0.92 else rng.choice(cands) for _ in range(k)]
            if rng.random() < 0.3 and row:
                row.insert(rng.randint(0, len(row)), row[0])
            rows.append(";".join(row))
        return {"kind": "fasta", "files": files, "contains_decoys": cd, "gene_level": gl, "use_uniprot": uu, "rows": rows, "wf": wf}

    def exhaustive_cases(self, tier):
        # gene share exactly at / around one half, both db modes, for 2..6 records with distinct identifiers
        out = []
        for n in range(1, 7):
            for k in range(0, n + 1):
                for cd in (False, True):
                    recs = []
                    for i in range(n):
                        g = {"db": "sp", "acc": "P%d" % i, "entry": "E%d_HUMAN" % i, "desc": ["d%d" % i], "org": ["Homo", "sapiens"], "ox": "9606", "gene": ("G%d" % i) if i < k else None, "pe": 1, "sv": "1"}
                        recs.append({"fields": g, "header": compose(g), "trail": "", "seq_lines": ["ACDK"], "seq_len": 4})
                    out.append({"kind": "fasta", "files": [recs], "contains_decoys": cd, "gene_level": True, "use_uniprot": False, "rows": ["sp|P0|E0_HUMAN;sp|P1|E1_HUMAN", "G0;G1;G0"], "wf": True})
        return out

    # ------------------------------------------------------------------ rendering
    @staticmethod
    def file_lines(recs):
        lines = []
        for r in recs:
            lines.append(">" + r["header"] + r["trail"])
            lines += r["seq_lines"]
        return lines

    # ------------------------------------------------------------------ the implementation
    def run_impl(self, case):
        from picked_group_fdr import protein_annotation as pa, digest

        if case["kind"] == "int":
            # the very call of parse_protein_existence_level on the PE field
            try:
                return {"value": int(case["s"])}
            except ValueError as e:
                if "invalid literal for int()" in str(e):
                    return {"err": "bad_existence"}
                raise
        if case["kind"] == "charclass":
            return self._charclass()
        if case["kind"] == "header":
            h = case["header"]
            parse_id = {"full": digest.parse_until_first_space, "accession": pa.parse_uniprot_id, "gene": pa.parse_gene_name_func}[case["rule"]]
            try:
                a = pa.ProteinAnnotation(
                    id=parse_id(h),
                    fasta_header=h,
                    uniprot_id=pa.parse_uniprot_id(h),
                    entry_name=pa.parse_entry_name(h),
                    gene_name=pa.parse_gene_name_func(h),
                    length=case["length"],
                    organism=pa.parse_organism(h),
                    description=pa.parse_protein_name_func(h),
                    existence=pa.parse_protein_existence_level(h),
                )
            except ValueError as e:
                if "invalid literal for int()" in str(e):
                    return {"err": "bad_existence"}
                raise
            return self._ann(a)
        from picked_group_fdr import results
        from picked_group_fdr.columns.protein_annotations import ProteinAnnotationsColumns

        d = tempfile.mkdtemp(prefix="c19")
        try:
            paths = []
            for i, recs in enumerate(case["files"]):
                p = os.path.join(d, "f%d.fasta" % i)
                Path(p).write_text("".join(l + "\n" for l in self.file_lines(recs)), encoding="utf-8")
                paths.append(p)
            try:
                ann, pseudo = pa.get_protein_annotations(paths, case["contains_decoys"], case["gene_level"], case["use_uniprot"])
            except ValueError as e:
                if "invalid literal for int()" in str(e):
                    return {"err": "bad_existence"}
                raise
            except ZeroDivisionError:
                return {"err": "no_records"}
            except AttributeError as e:
                if str(e) == "'str' object has no attribute 'append'":
                    return {"err": "sequence_after_bare_header"}
                raise
            pgrs = results.ProteinGroupResults([results.ProteinGroupResult(proteinIds=r) for r in case["rows"]])
            ProteinAnnotationsColumns(ann).append_columns(pgrs, 0.01)
            return {
                "annotations": [[k, self._ann(a)] for k, a in ann.items()],
                "pseudo": bool(pseudo),
                "columns": [list(p.extraColumns) for p in pgrs],
            }
        finally:
            shutil.rmtree(d, ignore_errors=True)

    @staticmethod
    def _charclass():
        """the running interpreter's white space and decimal digits, code point by code point (lone surrogates excepted)"""

        def ok(t):
            try:
                return int(t)
            except ValueError:
                return None

        cps = [c for c in range(0x110000) if not 0xD800 <= c < 0xE000]
        space = [c for c in cps if chr(c).isspace()]
        rstripped = [c for c in cps if ("a" + chr(c)).rstrip() == "a"]
        digits = [[c, v] for c in cps for v in [ok(chr(c))] if v is not None]
        dset = {c for c, _ in digits}
        int_space = [c for c in cps if c not in dset and ok("1" + chr(c)) == 1 and ok(chr(c) + "1") == 1 and c != 0x5F]
        return {"space": space, "rstrip": rstripped, "int_space": int_space, "digits": digits}

    @staticmethod
    def _ann(a):
        return {
            "id": a.id,
            "fasta_header": a.fasta_header,
            "uniprot_id": a.uniprot_id,
            "entry_name": a.entry_name,
            "gene_name": a.gene_name,
            "length": a.length,
            "organism": a.organism,
            "description": a.description,
            "existence": a.existence,
        }

    # ------------------------------------------------------------------ the model
    def model_request(self, case, impl_out):
        if case["kind"] == "int":
            return {"op": "int", "s": case["s"]}
        if case["kind"] == "charclass":
            return {"op": "charclass"}
        if case["kind"] == "header":
            return {"op": "header", "header": case["header"], "rule": case["rule"], "length": case["length"]}
        return {
            "op": "annotations",
            "files": [self.file_lines(r) for r in case["files"]],
            "contains_decoys": case["contains_decoys"],
            "gene_level": case["gene_level"],
            "use_uniprot": case["use_uniprot"],
            "rows": case["rows"],
        }

    @staticmethod
    def _unescape(x):
        """undo Driver/C19.lean:escapeLineBreaks (the engine splits the driver's output with str.splitlines(), which
        also breaks at U+0085 / U+2028 / U+2029; the driver sends them as U+E000 + a / b / c, U+E000 itself doubled)"""
        if isinstance(x, str):
            if "\ue000" not in x:
                return x
            out, i = [], 0
            while i < len(x):
                if x[i] == "\ue000" and i + 1 < len(x):
                    out.append({"\ue000": "\ue000", "a": "\x85", "b": "\u2028", "c": "\u2029"}.get(x[i + 1], x[i : i + 2]))
                    i += 2
                else:
                    out.append(x[i])
                    i += 1
            return "".join(out)
        if isinstance(x, list):
            return [P._unescape(v) for v in x]
        if isinstance(x, dict):
            return {k: P._unescape(v) for k, v in x.items()}
        return x

    def model_view(self, case, resp, impl_out):
        if case["kind"] in ("header", "fasta"):
            return self._unescape(resp)
        if case["kind"] == "charclass" and isinstance(resp, dict) and "space" in resp:
            # `C19.rstrip` strips exactly `C19.isSpace`
            return dict(resp, rstrip=resp["space"])
        return resp

    # ------------------------------------------------------------------ the property, stated on the composed fields
    def oracle(self, case, impl_out):
        if not isinstance(impl_out, dict):
            return "no result"
        if "exc" in impl_out:
            return "implementation raised %s: %s" % (impl_out["exc"], impl_out.get("msg"))
        if case["kind"] == "int":
            return None                      # no composed field behind it: the correspondence with the model is the check
        if case["kind"] == "charclass":
            if impl_out.get("space") != impl_out.get("rstrip"):
                return "str.rstrip() and str.isspace() disagree in this interpreter"
            return None
        if case["kind"] == "header":
            f = case["fields"]
            if f is None:
                return None
            if "err" in impl_out:
                return "composed header %r rejected: %s" % (case["header"], impl_out["err"])
            want = expected_of_fields(f, case["rule"])
            for k, v in want.items():
                if impl_out.get(k) != v:
                    return "header %r: %s parsed as %r, composed of %r" % (case["header"], k, impl_out.get(k), v)
            if impl_out.get("length") != case["length"]:
                return "length changed"
            return None
        if not case["wf"]:
            return None
        if "err" in impl_out:
            return "well-formed FASTA rejected: %s" % impl_out["err"]
        # emission order: per file, per record target then (concat) decoy
        concat = not case["contains_decoys"]
        base_rule = "accession" if case["use_uniprot"] else "full"

        def table(rule):
            """expected dict for one identifier rule: first record wins within a file, later file wins across files"""
            tot = {}
            for recs in case["files"]:
                one = {}
                for r in recs:
                    f = r["fields"]
                    for prefix in ("", "REV__") if concat else ("",):
                        e = dict(expected_of_fields(f, rule, prefix), length=r["seq_len"])
                        if e["id"] not in one:
                            one[e["id"]] = e
                tot = {**tot, **one}
            return tot

        exp = table(base_rule)
        exp_pseudo = False
        if case["gene_level"]:
            with_gene = sum(1 for e in exp.values() if e["gene_name"])
            if 2 * with_gene == len(exp):
                # exactly half: "unless most records lack one" does not decide; follow what the run decided
                exp_pseudo = bool(impl_out["pseudo"])
                if not exp_pseudo:
                    exp = table("gene")
            elif 2 * with_gene > len(exp):
                exp = table("gene")
            else:
                exp_pseudo = True
        got = impl_out["annotations"]
        if impl_out["pseudo"] != exp_pseudo:
            return "gene-level switch: use_pseudo_genes=%r but %s of the records carry a gene name" % (impl_out["pseudo"], "more than half" if not exp_pseudo else "at most half")
        if [k for k, _ in got] != list(exp):
            return "identifiers %r, expected %r (rule %s)" % ([k for k, _ in got], list(exp), "gene" if case["gene_level"] and not exp_pseudo else base_rule)
        for k, a in got:
            for fld, v in exp[k].items():
                if a.get(fld) != v:
                    return "record %r: %s is %r, the %s record of the file was composed with %r" % (k, fld, a.get(fld), "first", v)
        # the three columns: distinct values in row order
        for row, cols in zip(case["rows"], impl_out["columns"]):
            names, genes, hdrs = [], [], []
            for p in row.split(";"):
                if p in exp:
                    e = exp[p]
                    if e["id"] not in names:
                        names.append(e["id"])
                    if e["gene_name"] is not None and e["gene_name"] not in genes:
                        genes.append(e["gene_name"])
                    if e["fasta_header"] not in hdrs:
                        hdrs.append(e["fasta_header"])
            want = [";".join(names), ";".join(genes), ";".join(hdrs)]
            if cols != want:
                return "row %r: annotation columns %r, expected %r" % (row, cols, want)
        return None

    # ------------------------------------------------------------------ bookkeeping
    def nontrivial(self, case, impl_out):
        if case["kind"] in ("int", "charclass"):
            return False
        if case["kind"] == "header":
            return case["fields"] is not None and len(case["fields"]["desc"]) >= 1
        if not isinstance(impl_out, dict) or "annotations" not in impl_out:
            return False
        nrec = sum(len(r) for r in case["files"])
        keys = len(impl_out["annotations"])
        per = 2 if not case["contains_decoys"] else 1
        return nrec >= 2 and (keys < nrec * per or any(";" in r for r in case["rows"]))

    def features(self, case, impl_out):
        f = ["kind=" + case["kind"]]
        if case["kind"] == "charclass":
            return f
        if case["kind"] == "int":
            s_ = case["s"]
            f.append("int:" + ("rejected" if isinstance(impl_out, dict) and "err" in impl_out else "accepted"))
            f += self._literal_features("int", s_)
            return f
        if case["kind"] == "header":
            f.append("header:" + ("composed" if case["fields"] else "malformed"))
            if not case["fields"]:
                for t in case["header"].split(" PE=")[1:2]:
                    f += self._literal_features("pe", t.split(" ")[0])
            f.append("rule=" + case["rule"])
            if case["fields"]:
                f.append("gene=" + ("yes" if case["fields"]["gene"] else "no"))
                if "-" in case["fields"]["acc"]:
                    f.append("isoform-accession")
                if any(w in ("OS", "GN", "PE") for w in case["fields"]["desc"]):
                    f.append("desc-has-key-word")
            if isinstance(impl_out, dict) and "err" in impl_out:
                f.append("err=" + impl_out["err"])
        else:
            f.append("files=%d" % len(case["files"]))
            f.append("db=" + ("target" if case["contains_decoys"] else "concat"))
            f.append("id-rule=" + ("accession" if case["use_uniprot"] else "full"))
            f.append("wf" if case["wf"] else "malformed-file")
            if case["gene_level"]:
                f.append("gene-level:" + ("err" if "err" in (impl_out or {}) else ("pseudo" if impl_out.get("pseudo") else "genes")))
            lines_ = [l for recs in case["files"] for l in self.file_lines(recs)]
            if any(l and ord(l[-1]) in PY_SPACE and ord(l[-1]) not in (0x20, 0x09) for l in lines_):
                f.append("line-ends-in-non-ascii-or-control-white-space")
            if any(l and ord(l[-1]) in (0x1C, 0x1D, 0x1E, 0x1F, 0x85, 0xA0) for l in lines_):
                f.append("line-ends-in-FS..US/NEL/NBSP")
            if any(any(ord(ch) in PY_SPACE and ord(ch) != 0x20 for ch in l[:-1].rstrip(" \t")) and not l.startswith(">") for l in lines_):
                f.append("white-space-inside-sequence-line")
            if isinstance(impl_out, dict) and "annotations" in impl_out:
                nrec = sum(len(r) for r in case["files"]) * (1 if case["contains_decoys"] else 2)
                if len(impl_out["annotations"]) < nrec:
                    f.append("repeated-identifier")
                if any(len(c[0].split(";")) > 1 for c in impl_out["columns"]):
                    f.append("multi-protein-row")
                if any(c[0] and len(c[1].split(";")) < len(c[0].split(";")) for c in impl_out["columns"]):
                    f.append("row-with-shared-or-missing-gene")
            if isinstance(impl_out, dict) and "err" in impl_out:
                f.append("err=" + impl_out["err"])
        return f

    @staticmethod
    def _literal_features(tag, t):
        f = []
        if any(ord(ch) > 127 and ch.isdecimal() for ch in t):
            f.append(tag + ":non-ascii-digit")
        if "_" in t:
            f.append(tag + ":underscore")
        if t[:1] in "+-" and t[:1]:
            f.append(tag + ":sign")
        if any(ord(ch) in PY_SPACE for ch in t):
            f.append(tag + ":white-space")
        if any(0x1C <= ord(ch) <= 0x1F for ch in t):
            f.append(tag + ":FS..US")
        return f

    def shrink(self, case):
        if case["kind"] == "charclass":
            return
        if case["kind"] == "int":
            t = case["s"]
            for i in range(len(t)):
                yield dict(case, s=t[:i] + t[i + 1 :])
            return
        if case["kind"] == "header":
            f = case["fields"]
            if f is not None:
                if f["desc"]:
                    for i in range(len(f["desc"])):
                        g = dict(f, desc=f["desc"][:i] + f["desc"][i + 1 :])
                        yield dict(case, fields=g, header=compose(g))
                if len(f["org"]) > 1:
                    g = dict(f, org=f["org"][:1])
                    yield dict(case, fields=g, header=compose(g))
            else:
                toks = case["header"].split(" ")
                for i in range(len(toks)):
                    if len(toks) > 1:
                        yield dict(case, header=" ".join(toks[:i] + toks[i + 1 :]))
            return
        files = case["files"]
        if len(files) > 1:
            for i in range(len(files)):
                yield dict(case, files=files[:i] + files[i + 1 :])
        for i, recs in enumerate(files):
            for j in range(len(recs)):
                if len(recs) > 1:
                    yield dict(case, files=files[:i] + [recs[:j] + recs[j + 1 :]] + files[i + 1 :])
        rows = case["rows"]
        for i in range(len(rows)):
            if len(rows) > 1:
                yield dict(case, rows=rows[:i] + rows[i + 1 :])
        for i, r in enumerate(rows):
            ps = r.split(";")
            for j in range(len(ps)):
                if len(ps) > 1:
                    yield dict(case, rows=rows[:i] + [";".join(ps[:j] + ps[j + 1 :])] + rows[i + 1 :])
        for i, recs in enumerate(files):
            for j, r in enumerate(recs):
                f = r["fields"]
                if f is not None and f["desc"]:
                    g = dict(f, desc=[])
                    yield dict(case, files=files[:i] + [recs[:j] + [dict(r, fields=g, header=compose(g))] + recs[j + 1 :]] + files[i + 1 :])


# ---- command-line cases (the property's second observation point, the three annotation columns of the WRITTEN table): the
# real `picked_group_fdr.main(argv)` in-process against the composed Lean model PgFdr.Cli.cliOutcome (harness/cli_model.py).
# Oracle = the C19 statement only (harness/pipeline_oracles.py:table_statement_c19): every row of a method that maps peptides
# through the FASTA digest lists identifiers of the FASTA records under the run's identifier rule, and the annotation columns
# list each distinct identifier / gene / header of the row's proteins once, against the headers the generator composed.
# Cases are drawn towards the combinations of --gene_level / --fasta_use_uniprot_id / --fasta_contains_decoys on gene-rich
# and gene-poor (pseudo-gene fall-back) databases (pipeline_oracles.FLAG_TARGETS)
import pipeline_oracles as _po  # noqa: E402

_BaseP = P


class P(_po.CliStatementMixin, _BaseP):
    cli_model_share = 0.015    # ~45 of the 3 000 quick cases
    cli_oracles = ("c19",)
    cli_flag_targets = True
    rule = _BaseP.rule + (
        "; 1.5 % of the cases run the whole command line in process (harness/cli_model.py: 1-3 shipped MaxQuant / Percolator "
        "methods, generated UniProt-style FASTA and evidence files; --gene_level x --fasta_use_uniprot_id x "
        "--fasta_contains_decoys on databases where most / at most half of the records carry a gene name) and state C19 on "
        "the identifiers and the three annotation columns of every written row; the gene-level sentence is stated on every "
        "method of such a run (pipeline_oracles.oracle_c19_gene_level: fall-back decided from the FASTA text alone => the "
        "groups handed to the first competition are the pseudo-genes of the method's ingested peptide list, whatever grouping "
        "the method file names; else identifiers are gene names); 60 % of the fall-back runs without a method of grouping `no` "
        "are redrawn until one takes part"
    )

    def gen_case(self, rng, tier):
        if rng.random() < self.cli_model_share:
            return _po.gen_cli_case_gene_level(rng, tier)
        return super(_po.cm.CliMixin, self).gen_case(rng, tier)

    def oracle(self, case, impl_out):
        o = super().oracle(case, impl_out)
        if o is None and isinstance(case, dict) and case.get("kind") == "cli_model":
            o = _po.oracle_c19_gene_level(case, impl_out)
            if o:
                o = "command line %s: %s" % (_po.cm.describe(case), o)
        return o

    def features(self, case, impl_out):
        f = super().features(case, impl_out)
        if isinstance(case, dict) and case.get("kind") == "cli_model" and case["flags"].get("gene_level"):
            fb = _po.gene_level_decision(case)[0]
            tag = "cli_gene_level:%s" % ("no-fasta" if fb is None else "pseudo-gene-fall-back" if fb else "gene-names")
            sm = _po.cm.shipped()
            for name, m in zip(case["methods"], (impl_out.get("methods") if isinstance(impl_out, dict) else None) or []):
                if not m or not m.get("passes"):
                    continue
                f.append("%s:method-grouping=%s" % (tag, sm[name].get("grouping")))
                if fb and any(len(g) > 1 for g in m["passes"][0]["comp_groups"]):
                    f.append("%s:method-grouping=%s:a-pseudo-gene-joins-several-proteins" % (tag, sm[name].get("grouping")))
        return f
