"""C17 — PEP cutoff is the first PEP at which the running mean exceeds the FDR level.

Correspondence: fdr.calc_post_err_prob_cutoff (real code) vs PgFdr.C17.cutoff (Lean model).
PEPs are dyadic rationals k/2^10 in [0,1] (and a few from the unit tests' grid), so every
running sum is exact in double precision; the running mean s/n is the correctly rounded
quotient, and a case is discarded (counted) only if some running mean rounds onto the level
without being equal to it, because there the float comparison and the exact one may differ.
"""
import math
import random
from fractions import Fraction

import lib
from lib import Prop, rat, unrat


def F(x):
    return Fraction(*float(x).as_integer_ratio())


def enc(p):
    if isinstance(p, str):
        return p
    return rat(p)


def dec(p):
    if p == "nan":
        return float("nan")
    if p == "inf":
        return float("inf")
    if p == "-inf":
        return float("-inf")
    f = unrat(p)
    return f.numerator / f.denominator


class P(Prop):
    id = "C17"
    quick_cases = 3000
    thorough_cases = 200000
    chunk = 1000
    rule = (
        "multisets of dyadic PEPs k/1024 in [0,1] (0-14 values, duplicates frequent) with NaN/inf entries at random "
        "positions, levels on and off the attained running means; non-trivial = at least 2 finite values and a cutoff "
        "decided by a crossing or by exhaustion with >= 2 values; distinct by sha1 of (peps, level)"
    )
    assumptions = [
        "float sums of the generated dyadic PEPs are exact; s/n is correctly rounded (IEEE division)",
        "Python's sorted() is a stable total sort on finite floats",
    ]

    def gen_case(self, rng, tier):
        n = rng.choice([0, 1, 2, 3, 3, 4, 5, 6, 8, 10, 14])
        grid = rng.choice([8, 16, 64, 1024])
        vals = [Fraction(rng.randint(0, grid), grid) for _ in range(n)]
        if rng.random() < 0.3 and vals:
            vals += [rng.choice(vals) for _ in range(rng.randint(1, 3))]
        peps = [enc(v) for v in vals]
        for _ in range(rng.choice([0, 0, 1, 1, 2, 3])):
            peps.insert(rng.randint(0, len(peps)), rng.choice(["nan", "nan", "inf"]))
        if rng.random() < 0.5:
            rng.shuffle(peps)
        # level: an attained running mean, just around it, or a grid value
        fin = sorted(v for v in vals)
        means = [sum(fin[: k + 1], Fraction(0)) / (k + 1) for k in range(len(fin))]
        r = rng.random()
        if means and r < 0.35:
            level = float(rng.choice(means))
        elif means and r < 0.5:
            level = float(rng.choice(means)) + rng.choice([-1, 1]) * 2.0**-12
        else:
            level = rng.choice([0.0, 0.001, 0.01, 0.05, 0.1, 0.25, 0.5, 0.9, 1.0])
        return {"peps": peps, "level": rat(level)}

    def exhaustive_cases(self, tier):
        # all multisets of <= 4 values from a 5-point grid + {nan, inf}, in sorted and reversed order, 4 levels
        import itertools

        grid = [rat(Fraction(k, 4)) for k in range(5)] + ["nan", "inf"]
        out = []
        for n in range(0, 5):
            for combo in itertools.combinations_with_replacement(range(len(grid)), n):
                for lv in (Fraction(1, 8), Fraction(1, 4), Fraction(1, 2), Fraction(3, 4)):
                    items = [grid[i] for i in combo]
                    out.append({"peps": items, "level": rat(lv)})
                    if n > 1:
                        out.append({"peps": items[::-1], "level": rat(lv)})
        return out

    def _near_tie(self, case):
        fin = sorted(unrat(p) for p in case["peps"] if not isinstance(p, str))
        level = unrat(case["level"])
        s = Fraction(0)
        for k, v in enumerate(fin):
            s += v
            m = s / (k + 1)
            if m != level and (m.numerator / m.denominator) == float(level):
                return True
        return False

    def run_impl(self, case):
        from picked_group_fdr import fdr

        peps = [dec(p) for p in case["peps"]]
        level = dec(case["level"])
        c = fdr.calc_post_err_prob_cutoff(peps, level)
        return {"cutoff": rat(float(c))}

    def model_request(self, case, impl_out):
        if self._near_tie(case):
            return None
        return {"op": "cutoff", "peps": case["peps"], "level": case["level"]}

    def model_view(self, case, resp, impl_out):
        if "cutoff" in resp:
            return {"cutoff": rat(unrat(resp["cutoff"]))}
        return resp

    def impl_view(self, case, impl_out):
        if isinstance(impl_out, dict) and "cutoff" in impl_out:
            return {"cutoff": rat(unrat(impl_out["cutoff"]))}
        return impl_out

    # the property, stated directly over exact fractions
    def oracle(self, case, impl_out):
        if "cutoff" not in impl_out:
            return "no cutoff returned: %r" % (impl_out,)
        if self._near_tie(case):
            return None
        fin = sorted(unrat(p) for p in case["peps"] if not isinstance(p, str))
        level = unrat(case["level"])
        want = Fraction(1)
        s = Fraction(0)
        for k, v in enumerate(fin):
            s += v
            if s / (k + 1) > level:
                want = v
                break
        got = unrat(impl_out["cutoff"])
        if got != want:
            return f"cutoff {float(got)} but the first finite PEP (ascending) whose running mean exceeds {float(level)} is {float(want)}"
        return None

    def nontrivial(self, case, impl_out):
        return sum(1 for p in case["peps"] if not isinstance(p, str)) >= 2

    def features(self, case, impl_out):
        f = []
        nfin = sum(1 for p in case["peps"] if not isinstance(p, str))
        f.append("n_finite=%s" % (nfin if nfin < 6 else "6+"))
        if any(p == "nan" for p in case["peps"]):
            f.append("has_nan")
        if any(p == "inf" for p in case["peps"]):
            f.append("has_inf")
        if isinstance(impl_out, dict) and impl_out.get("cutoff") == ["1", "1"]:
            f.append("cutoff=1")
        else:
            f.append("cutoff=crossing")
        if self._near_tie(case):
            f.append("near_tie_skipped")
        return f

    def shrink(self, case):
        peps = case["peps"]
        for i in range(len(peps)):
            yield {"peps": peps[:i] + peps[i + 1 :], "level": case["level"]}


# ---- pipeline-level cases: the value the CALLERS obtain (scoring_strategy.collect_peptide_scores_per_protein stores
# the cutoff on the strategy object; the rescue pass reports with it) against the composed Lean model and against an
# independent recomputation from the peptides handed to the second competition
import pipeline as _pl  # noqa: E402

_BaseP = P


class P(_pl.PipelineMixin, _BaseP):
    pipeline_share = 0.04
    pipeline_oracles = ("c17",)

    def gen_case(self, rng, tier):
        if rng.random() < self.pipeline_share:
            c = _pl.gen_case(rng, tier, methods=[m for m in _pl.method_names() if _pl.method_fields(m)["grouping"].startswith("rescued")])
            c["psm"] = rat(rng.choice([0.01, 0.05, 0.0011, 0.2]))
            return c
        return _BaseP.gen_case(self, rng, tier)


# ---- writer-level cases: the value the quantification WRITERS obtain.  writers.finalize_output ->
# ProteinGroupsWriter.append_quant_columns collects the non-MBR PEPs of the precursor records (post_err_probs, as
# quant.*.add_precursor_quants builds them), calls fdr.calc_post_err_prob_cutoff and hands the result to
# _retain_only_identified_precursors and to every column.append(results, cutoff).  Observed from outside with a spy
# column and a wrapped filter; compared EXACTLY (rational of float(value), and whether the value is a double) with
# PgFdr.C17.cutoff on those PEPs and with an independent Fraction recomputation.  Half of these cases draw the PEPs
# from clusters that differ only beyond the 7th significant digit (not representable in single precision).
_PipeP = P

WRITER_BASES = [0.1, 0.2, 0.01, 0.003, 0.05, 0.0123456789, 0.3333333333333333, 0.007, 0.7]


def _dyadic(v):
    d = v.denominator
    return d & (d - 1) == 0 and d <= 2**20


def _writer_fin(case):
    return sorted(unrat(pp) for pp, _ in case["rows"] if not isinstance(pp, str))


def _writer_near_tie(case):
    fin = _writer_fin(case)
    level = unrat(case["level"])
    exact_sums = all(_dyadic(v) for v in fin)
    s = Fraction(0)
    for k, v in enumerate(fin):
        s += v
        m = s / (k + 1)
        if m != level and (m.numerator / m.denominator) == float(level):
            return True
        if not exact_sums and k >= 1 and abs(m - level) <= Fraction(1, 2**40) * max(abs(level), abs(m)):
            return True  # the float running sums are rounded here: float scan and exact scan may differ
    return False


def _writer_kept(case, cutoff):
    """ids of the precursor records that survive _retain_only_identified_precursors: those whose (peptide, charge)
    has some record with PEP <= cutoff (match-between-runs records ride along)"""
    ident = {pid for pp, pid in case["rows"] if not isinstance(pp, str) and unrat(pp) <= cutoff}
    return [i for i, (pp, pid) in enumerate(case["rows"]) if pid in ident]


def gen_writer_case(rng):
    n = rng.choice([0, 1, 2, 3, 4, 5, 6, 8, 10])
    close = rng.random() < 0.5
    bases = rng.sample(WRITER_BASES, rng.choice([1, 2, 2, 3]))
    grid = rng.choice([16, 64, 1024])
    rows = []
    for _ in range(n):
        r = rng.random()
        if r < 0.2:
            pp = "nan"
        elif r < 0.24:
            pp = "inf"
        elif close:
            pp = rat(float(rng.choice(bases) + rng.choice([0, 0, 1, 1, 2, -1, 3]) * rng.choice([1e-10, 1e-10, 1e-9, 3e-12])))
        else:
            pp = rat(Fraction(rng.randint(0, grid), grid))
        rows.append([pp, rng.randint(0, 5)])
    fin = sorted(unrat(pp) for pp, _ in rows if not isinstance(pp, str))
    means = [sum(fin[: k + 1], Fraction(0)) / (k + 1) for k in range(len(fin))]
    r = rng.random()
    if means and r < 0.6:
        level = float(rng.choice(means)) + rng.choice([-1, 1]) * 2.0**-12
    elif means and r < 0.7 and not close:
        level = float(rng.choice(means))
    else:
        level = rng.choice([0.0, 0.001, 0.01, 0.05, 0.1, 0.25, 0.5])
    return {"kind": "writer", "rows": rows, "level": rat(level)}


def run_writer(case):
    from picked_group_fdr import writers
    from picked_group_fdr.precursor_quant import PrecursorQuant
    from picked_group_fdr.results import ProteinGroupResult, ProteinGroupResults
    from picked_group_fdr.writers import base as wbase

    groups = [ProteinGroupResult(proteinIds="P%d" % k, majorityProteinIds="P%d" % k, numberOfProteins=1) for k in range(3)]
    post_err_probs = []
    for i, (pp, pid) in enumerate(case["rows"]):
        pep = dec(pp)
        peptide = "PEPTIDE%dK" % pid
        groups[pid % 3].precursorQuants.append(PrecursorQuant(peptide, 2, "E1", -1, 1e6, pep, None, None, i))
        post_err_probs.append((pep, "raw1", "E1", peptide))
    results = ProteinGroupResults(groups)
    results.experiments = ["E1"]
    seen = []
    kept = []

    class SpyColumn:
        def append(self, protein_group_results, post_err_prob_cutoff):
            seen.append(post_err_prob_cutoff)
            kept.extend(int(q.evidence_id) for pgr in protein_group_results for q in pgr.precursorQuants)

    class SpyWriter(writers.ProteinGroupsWriter):
        def get_columns(self):
            return [SpyColumn()]

    orig_retain = wbase._retain_only_identified_precursors

    def spy_retain(precursor_list, post_err_prob_cutoff, *a, **kw):
        seen.append(post_err_prob_cutoff)
        return orig_retain(precursor_list, post_err_prob_cutoff, *a, **kw)

    wbase._retain_only_identified_precursors = spy_retain
    try:
        writers.finalize_output(results, SpyWriter(), post_err_probs, "", dec(case["level"]), False, None)
    finally:
        wbase._retain_only_identified_precursors = orig_retain
    if not seen:
        return {"err": "column_not_called"}
    vals = []
    for v in seen:
        r = rat(float(v))  # float(): `np.float32(x) == python_float` compares in single precision under NumPy 2
        if r not in vals:
            vals.append(r)
    return {"cutoff": rat(float(seen[-1])), "seen": vals, "double": all(isinstance(v, float) for v in seen), "kept": sorted(kept)}


class P(_PipeP):
    writer_share = 0.08
    rule = _PipeP.rule + (
        "; 8 % of the cases run writers.finalize_output -> ProteinGroupsWriter.append_quant_columns on 0-10 precursor "
        "records (PEPs dyadic or from clusters differing beyond the 7th significant digit, NaN = match-between-runs, inf) "
        "with a spy column: the cutoff handed to the filter and the column, and the records kept"
    )

    @staticmethod
    def _w(case):
        return isinstance(case, dict) and case.get("kind") == "writer"

    def gen_case(self, rng, tier):
        if rng.random() < self.writer_share:
            return gen_writer_case(rng)
        return super().gen_case(rng, tier)

    def run_impl(self, case):
        return run_writer(case) if self._w(case) else super().run_impl(case)

    def model_request(self, case, impl_out):
        if not self._w(case):
            return super().model_request(case, impl_out)
        if _writer_near_tie(case):
            return None
        # append_quant_columns drops the match-between-runs (NaN) PEPs; everything else goes to the cutoff function
        return {"op": "cutoff", "peps": [pp for pp, _ in case["rows"] if pp != "nan"], "level": case["level"]}

    def model_view(self, case, resp, impl_out):
        if not self._w(case):
            return super().model_view(case, resp, impl_out)
        if "cutoff" not in resp:
            return resp
        c = unrat(resp["cutoff"])
        return {"cutoff": rat(c), "seen": [rat(c)], "double": True, "kept": _writer_kept(case, c)}

    def impl_view(self, case, impl_out):
        return impl_out if self._w(case) else super().impl_view(case, impl_out)

    def oracle(self, case, impl_out):
        if not self._w(case):
            return super().oracle(case, impl_out)
        if not isinstance(impl_out, dict) or "cutoff" not in impl_out:
            return "the writer handed no cutoff to its columns: %r" % (impl_out,)
        if _writer_near_tie(case):
            return None
        fin = _writer_fin(case)
        level = unrat(case["level"])
        want, s = Fraction(1), Fraction(0)
        for k, v in enumerate(fin):
            s += v
            if s / (k + 1) > level:
                want = v
                break
        for r in impl_out["seen"]:
            got = unrat(r)
            if got != 1 and got not in fin:
                return "writer: the cutoff handed to the precursor filter / the column is %r, which is neither 1.0 nor one of the PEPs %s" % (
                    float(got), [float(v) for v in fin])
            if got != want:
                return "writer: the cutoff handed to the precursor filter / the column is %r, but the first finite PEP (ascending) whose running mean exceeds %r is %r" % (
                    float(got), float(level), float(want))
            below = [v for v in fin if v < got]
            if below and sum(below, Fraction(0)) / len(below) > level:
                return "writer: the PEPs strictly below the cutoff %r have a mean above the level" % float(got)
        if impl_out["kept"] != _writer_kept(case, want):
            return "writer: precursor records kept for quantification %r, expected %r (cutoff %r)" % (
                impl_out["kept"], _writer_kept(case, want), float(want))
        return None

    def nontrivial(self, case, impl_out):
        if not self._w(case):
            return super().nontrivial(case, impl_out)
        return len(_writer_fin(case)) >= 2

    def features(self, case, impl_out):
        if not self._w(case):
            return super().features(case, impl_out)
        f = ["kind=writer"]
        fin = _writer_fin(case)
        f.append("n_finite=%s" % (len(fin) if len(fin) < 6 else "6+"))
        if any(not _dyadic(v) for v in fin):
            f.append("peps_beyond_float32")
        if any(pp == "nan" for pp, _ in case["rows"]):
            f.append("has_mbr")
        if isinstance(impl_out, dict) and "cutoff" in impl_out:
            f.append("cutoff=1" if impl_out["cutoff"] == ["1", "1"] else "cutoff=crossing")
            if len(impl_out["kept"]) < len(case["rows"]):
                f.append("record_dropped")
        if _writer_near_tie(case):
            f.append("near_tie_skipped")
        return f

    def shrink(self, case):
        if not self._w(case):
            yield from super().shrink(case)
            return
        rows = case["rows"]
        for i in range(len(rows)):
            yield dict(case, rows=rows[:i] + rows[i + 1 :])
