"""C17 — PEP cutoff is the first PEP at which the running mean exceeds the FDR level.

Correspondence: fdr.calc_post_err_prob_cutoff (real code) vs PgFdr.C17.cutoff (Lean model).
PEPs are dyadic rationals k/2^10 in [0,1] (and a few from the unit tests' grid), so every
running sum is exact in double precision; the running mean s/n is the correctly rounded
quotient, and a case is discarded (counted) only if some running mean rounds onto the level
without being equal to it, because there the float comparison and the exact one may differ.
"""
import math
import random
from fractions import Fraction

import lib
from lib import Prop, rat, unrat


def F(x):
    return Fraction(*float(x).as_integer_ratio())


def enc(p):
    if isinstance(p, str):
        return p
    return rat(p)


def dec(p):
    if p == "nan":
        return float("nan")
    if p == "inf":
        return float("inf")
    if p == "-inf":
        return float("-inf")
    f = unrat(p)
    return f.numerator / f.denominator


class P(Prop):
    id = "C17"
    quick_cases = 3000
    thorough_cases = 200000
    chunk = 1000
    rule = (
        "multisets of dyadic PEPs k/1024 in [0,1] (0-14 values, duplicates frequent) with NaN/inf entries at random "
        "positions, levels on and off the attained running means; non-trivial = at least 2 finite values and a cutoff "
        "decided by a crossing or by exhaustion with >= 2 values; distinct by sha1 of (peps, level)"
    )
    assumptions = [
        "float sums of the generated dyadic PEPs are exact; s/n is correctly rounded (IEEE division)",
        "Python's sorted() is a stable total sort on finite floats",
    ]

    def gen_case(self, rng, tier):
        n = rng.choice([0, 1, 2, 3, 3, 4, 5, 6, 8, 10, 14])
        grid = rng.choice([8, 16, 64, 1024])
        vals = [Fraction(rng.randint(0, grid), grid) for _ in range(n)]
        if rng.random() < 0.3 and vals:
            vals += [rng.choice(vals) for _ in range(rng.randint(1, 3))]
        peps = [enc(v) for v in vals]
        for _ in range(rng.choice([0, 0, 1, 1, 2, 3])):
            peps.insert(rng.randint(0, len(peps)), rng.choice(["nan", "nan", "inf"]))
        if rng.random() < 0.5:
            rng.shuffle(peps)
        # level: an attained running mean, just around it, or a grid value
        fin = sorted(v for v in vals)
        means = [sum(fin[: k + 1], Fraction(0)) / (k + 1) for k in range(len(fin))]
        r = rng.random()
        if means and r < 0.35:
            level = float(rng.choice(means))
        elif means and r < 0.5:
            level = float(rng.choice(means)) + rng.choice([-1, 1]) * 2.0**-12
        else:
            level = rng.choice([0.0, 0.001, 0.01, 0.05, 0.1, 0.25, 0.5, 0.9, 1.0])
        return {"peps": peps, "level": rat(level)}

    def exhaustive_cases(self, tier):
        # all multisets of <= 4 values from a 5-point grid + {nan, inf}, in sorted and reversed order, 4 levels
        import itertools

        grid = [rat(Fraction(k, 4)) for k in range(5)] + ["nan", "inf"]
        out = []
        for n in range(0, 5):
            for combo in itertools.combinations_with_replacement(range(len(grid)), n):
                for lv in (Fraction(1, 8), Fraction(1, 4), Fraction(1, 2), Fraction(3, 4)):
                    items = [grid[i] for i in combo]
                    out.append({"peps": items, "level": rat(lv)})
                    if n > 1:
                        out.append({"peps": items[::-1], "level": rat(lv)})
        return out

    def _near_tie(self, case):
        fin = sorted(unrat(p) for p in case["peps"] if not isinstance(p, str))
        level = unrat(case["level"])
        s = Fraction(0)
        for k, v in enumerate(fin):
            s += v
            m = s / (k + 1)
            if m != level and (m.numerator / m.denominator) == float(level):
                return True
        return False

    def run_impl(self, case):
        from picked_group_fdr import fdr

        peps = [dec(p) for p in case["peps"]]
        level = dec(case["level"])
        c = fdr.calc_post_err_prob_cutoff(peps, level)
        return {"cutoff": rat(float(c))}

    def model_request(self, case, impl_out):
        if self._near_tie(case):
            return None
        return {"op": "cutoff", "peps": case["peps"], "level": case["level"]}

    def model_view(self, case, resp, impl_out):
        if "cutoff" in resp:
            return {"cutoff": rat(unrat(resp["cutoff"]))}
        return resp

    def impl_view(self, case, impl_out):
        if isinstance(impl_out, dict) and "cutoff" in impl_out:
            return {"cutoff": rat(unrat(impl_out["cutoff"]))}
        return impl_out

    # the property, stated directly over exact fractions
    def oracle(self, case, impl_out):
        if "cutoff" not in impl_out:
            return "no cutoff returned: %r" % (impl_out,)
        if self._near_tie(case):
            return None
        fin = sorted(unrat(p) for p in case["peps"] if not isinstance(p, str))
        level = unrat(case["level"])
        want = Fraction(1)
        s = Fraction(0)
        for k, v in enumerate(fin):
            s += v
            if s / (k + 1) > level:
                want = v
                break
        got = unrat(impl_out["cutoff"])
        if got != want:
            return f"cutoff {float(got)} but the first finite PEP (ascending) whose running mean exceeds {float(level)} is {float(want)}"
        return None

    def nontrivial(self, case, impl_out):
        return sum(1 for p in case["peps"] if not isinstance(p, str)) >= 2

    def features(self, case, impl_out):
        f = []
        nfin = sum(1 for p in case["peps"] if not isinstance(p, str))
        f.append("n_finite=%s" % (nfin if nfin < 6 else "6+"))
        if any(p == "nan" for p in case["peps"]):
            f.append("has_nan")
        if any(p == "inf" for p in case["peps"]):
            f.append("has_inf")
        if isinstance(impl_out, dict) and impl_out.get("cutoff") == ["1", "1"]:
            f.append("cutoff=1")
        else:
            f.append("cutoff=crossing")
        if self._near_tie(case):
            f.append("near_tie_skipped")
        return f

    def shrink(self, case):
        peps = case["peps"]
        for i in range(len(peps)):
            yield {"peps": peps[:i] + peps[i + 1 :], "level": case["level"]}


# ---- pipeline-level cases: the value the CALLERS obtain (scoring_strategy.collect_peptide_scores_per_protein stores
# the cutoff on the strategy object; the rescue pass reports with it) against the composed Lean model and against an
# independent recomputation from the peptides handed to the second competition
import pipeline as _pl  # noqa: E402

_BaseP = P


class P(_pl.PipelineMixin, _BaseP):
    pipeline_share = 0.04
    pipeline_oracles = ("c17",)

    def gen_case(self, rng, tier):
        if rng.random() < self.pipeline_share:
            c = _pl.gen_case(rng, tier, methods=[m for m in _pl.method_names() if _pl.method_fields(m)["grouping"].startswith("rescued")])
            c["psm"] = rat(rng.choice([0.01, 0.05, 0.0011, 0.2]))
            return c
        return _BaseP.gen_case(self, rng, tier)


# ---- writer-level cases: the value the quantification WRITERS obtain.  writers.finalize_output ->
# ProteinGroupsWriter.append_quant_columns collects the non-MBR PEPs of the precursor records (post_err_probs, as
# quant.*.add_precursor_quants builds them), calls fdr.calc_post_err_prob_cutoff and hands the result to
# _retain_only_identified_precursors and to every column.append(results, cutoff).  Observed from outside with a spy
# column and a wrapped filter; compared EXACTLY (rational of float(value), and whether the value is a double) with
# PgFdr.C17.cutoff on those PEPs and with an independent Fraction recomputation.  Half of these cases draw the PEPs
# from clusters that differ only beyond the 7th significant digit (not representable in single precision).
_PipeP = P

WRITER_BASES = [0.1, 0.2, 0.01, 0.003, 0.05, 0.0123456789, 0.3333333333333333, 0.007, 0.7]


def _dyadic(v):
    d = v.denominator
    return d & (d - 1) == 0 and d <= 2**20


def _writer_fin(case):
    return sorted(unrat(pp) for pp, _ in case["rows"] if not isinstance(pp, str))


def _writer_near_tie(case):
    fin = _writer_fin(case)
    level = unrat(case["level"])
    exact_sums = all(_dyadic(v) for v in fin)
    s = Fraction(0)
    for k, v in enumerate(fin):
        s += v
        m = s / (k + 1)
        if m != level and (m.numerator / m.denominator) == float(level):
            return True
        if not exact_sums and k >= 1 and abs(m - level) <= Fraction(1, 2**40) * max(abs(level), abs(m)):
            return True  # the float running sums are rounded here: float scan and exact scan may differ
    return False


def _writer_kept(case, cutoff):
    """ids of the precursor records that survive _retain_only_identified_precursors: those whose (peptide, charge)
    has some record with PEP <= cutoff (match-between-runs records ride along)"""
    ident = {pid for pp, pid in case["rows"] if not isinstance(pp, str) and unrat(pp) <= cutoff}
    return [i for i, (pp, pid) in enumerate(case["rows"]) if pid in ident]


def gen_writer_case(rng):
    n = rng.choice([0, 1, 2, 3, 4, 5, 6, 8, 10])
    close = rng.random() < 0.5
    bases = rng.sample(WRITER_BASES, rng.choice([1, 2, 2, 3]))
    grid = rng.choice([16, 64, 1024])
    rows = []
    for _ in range(n):
        r = rng.random()
        if r < 0.2:
            pp = "nan"
        elif r < 0.24:
            pp = "inf"
        elif close:
            pp = rat(float(rng.choice(bases) + rng.choice([0, 0, 1, 1, 2, -1, 3]) * rng.choice([1e-10, 1e-10, 1e-9, 3e-12])))
        else:
            pp = rat(Fraction(rng.randint(0, grid), grid))
        rows.append([pp, rng.randint(0, 5)])
    fin = sorted(unrat(pp) for pp, _ in rows if not isinstance(pp, str))
    means = [sum(fin[: k + 1], Fraction(0)) / (k + 1) for k in range(len(fin))]
    r = rng.random()
    if means and r < 0.6:
        level = float(rng.choice(means)) + rng.choice([-1, 1]) * 2.0**-12
    elif means and r < 0.7 and not close:
        level = float(rng.choice(means))
    else:
        level = rng.choice([0.0, 0.001, 0.01, 0.05, 0.1, 0.25, 0.5])
    return {"kind": "writer", "rows": rows, "level": rat(level)}


def run_writer(case):
    from picked_group_fdr import writers
    from picked_group_fdr.precursor_quant import PrecursorQuant
    from picked_group_fdr.results import ProteinGroupResult, ProteinGroupResults
    from picked_group_fdr.writers import base as wbase

    groups = [ProteinGroupResult(proteinIds="P%d" % k, majorityProteinIds="P%d" % k, numberOfProteins=1) for k in range(3)]
    post_err_probs = []
    for i, (pp, pid) in enumerate(case["rows"]):
        pep = dec(pp)
        peptide = "PEPTIDE%dK" % pid
        groups[pid % 3].precursorQuants.append(PrecursorQuant(peptide, 2, "E1", -1, 1e6, pep, None, None, i))
        post_err_probs.append((pep, "raw1", "E1", peptide))
    results = ProteinGroupResults(groups)
    results.experiments = ["E1"]
    seen = []
    kept = []

    class SpyColumn:
        def append(self, *a, **k):  # the columns' interface: append(protein_group_results, post_err_prob_cutoff), any convention
            protein_group_results = k["protein_group_results"] if "protein_group_results" in k else a[0]
            seen.append(k["post_err_prob_cutoff"] if "post_err_prob_cutoff" in k else a[-1])
            kept.extend(int(q.evidence_id) for pgr in protein_group_results for q in pgr.precursorQuants)

    class SpyWriter(writers.ProteinGroupsWriter):
        def get_columns(self):
            return [SpyColumn()]

    # private helper: wrapped if it exists, for any calling convention (audit 3, X1); the column sees the cutoff in any case
    orig_retain = getattr(wbase, "_retain_only_identified_precursors", None)

    def spy_retain(*a, **kw):
        vals = _cl.bound_values(orig_retain, a, kw, 2)
        try:
            float(vals[1])
            seen.append(vals[1])
        except Exception:  # noqa: BLE001 - not readable: not observed here
            pass
        return orig_retain(*a, **kw)

    if orig_retain is not None:
        wbase._retain_only_identified_precursors = spy_retain
    try:
        writers.finalize_output(results, SpyWriter(), post_err_probs, "", dec(case["level"]), False, None)
    finally:
        if orig_retain is not None:
            wbase._retain_only_identified_precursors = orig_retain
    if not seen:
        return {"err": "column_not_called"}
    vals = []
    for v in seen:
        r = rat(float(v))  # float(): `np.float32(x) == python_float` compares in single precision under NumPy 2
        if r not in vals:
            vals.append(r)
    return {"cutoff": rat(float(seen[-1])), "seen": vals, "double": all(isinstance(v, float) for v in seen), "kept": sorted(kept)}


class P(_PipeP):
    writer_share = 0.08
    rule = _PipeP.rule + (
        "; 8 % of the cases run writers.finalize_output -> ProteinGroupsWriter.append_quant_columns on 0-10 precursor "
        "records (PEPs dyadic or from clusters differing beyond the 7th significant digit, NaN = match-between-runs, inf) "
        "with a spy column: the cutoff handed to the filter and the column, and the records kept"
    )

    @staticmethod
    def _w(case):
        return isinstance(case, dict) and case.get("kind") == "writer"

    def gen_case(self, rng, tier):
        if rng.random() < self.writer_share:
            return gen_writer_case(rng)
        return super().gen_case(rng, tier)

    def run_impl(self, case):
        return run_writer(case) if self._w(case) else super().run_impl(case)

    def model_request(self, case, impl_out):
        if not self._w(case):
            return super().model_request(case, impl_out)
        if _writer_near_tie(case):
            return None
        # append_quant_columns drops the match-between-runs (NaN) PEPs; everything else goes to the cutoff function
        return {"op": "cutoff", "peps": [pp for pp, _ in case["rows"] if pp != "nan"], "level": case["level"]}

    def model_view(self, case, resp, impl_out):
        if not self._w(case):
            return super().model_view(case, resp, impl_out)
        if "cutoff" not in resp:
            return resp
        c = unrat(resp["cutoff"])
        return {"cutoff": rat(c), "seen": [rat(c)], "double": True, "kept": _writer_kept(case, c)}

    def impl_view(self, case, impl_out):
        return impl_out if self._w(case) else super().impl_view(case, impl_out)

    def oracle(self, case, impl_out):
        if not self._w(case):
            return super().oracle(case, impl_out)
        if not isinstance(impl_out, dict) or "cutoff" not in impl_out:
            return "the writer handed no cutoff to its columns: %r" % (impl_out,)
        if _writer_near_tie(case):
            return None
        fin = _writer_fin(case)
        level = unrat(case["level"])
        want, s = Fraction(1), Fraction(0)
        for k, v in enumerate(fin):
            s += v
            if s / (k + 1) > level:
                want = v
                break
        for r in impl_out["seen"]:
            got = unrat(r)
            if got != 1 and got not in fin:
                return "writer: the cutoff handed to the precursor filter / the column is %r, which is neither 1.0 nor one of the PEPs %s" % (
                    float(got), [float(v) for v in fin])
            if got != want:
                return "writer: the cutoff handed to the precursor filter / the column is %r, but the first finite PEP (ascending) whose running mean exceeds %r is %r" % (
                    float(got), float(level), float(want))
            below = [v for v in fin if v < got]
            if below and sum(below, Fraction(0)) / len(below) > level:
                return "writer: the PEPs strictly below the cutoff %r have a mean above the level" % float(got)
        if impl_out["kept"] != _writer_kept(case, want):
            return "writer: precursor records kept for quantification %r, expected %r (cutoff %r)" % (
                impl_out["kept"], _writer_kept(case, want), float(want))
        return None

    def nontrivial(self, case, impl_out):
        if not self._w(case):
            return super().nontrivial(case, impl_out)
        return len(_writer_fin(case)) >= 2

    def features(self, case, impl_out):
        if not self._w(case):
            return super().features(case, impl_out)
        f = ["kind=writer"]
        fin = _writer_fin(case)
        f.append("n_finite=%s" % (len(fin) if len(fin) < 6 else "6+"))
        if any(not _dyadic(v) for v in fin):
            f.append("peps_beyond_float32")
        if any(pp == "nan" for pp, _ in case["rows"]):
            f.append("has_mbr")
        if isinstance(impl_out, dict) and "cutoff" in impl_out:
            f.append("cutoff=1" if impl_out["cutoff"] == ["1", "1"] else "cutoff=crossing")
            if len(impl_out["kept"]) < len(case["rows"]):
                f.append("record_dropped")
        if _writer_near_tie(case):
            f.append("near_tie_skipped")
        return f

    def shrink(self, case):
        if not self._w(case):
            yield from super().shrink(case)
            return
        rows = case["rows"]
        for i in range(len(rows)):
            yield dict(case, rows=rows[:i] + rows[i + 1 :])


# ---- which LIST the callers hand to the cutoff (round 5; harness/c17_lists.py, lean Model/C17Lists.lean):
#   collect / collect_pipeline: ProteinScoringStrategy.collect_peptide_scores_per_protein for every shared-peptide setting
#       (discard, razor, with_shared - built directly and from a custom method TOML, and inside get_protein_group_results);
#   quant: the multi-file quantification entry points (FragPipe, Sage, MaxQuant, DIA-NN) followed by
#       ProteinGroupsWriter.append_quant_columns, files in the given and in the reversed order.
import c17_lists as _cl  # noqa: E402

_WriterP = P


class P(_WriterP):
    collect_share = 0.10
    collect_pipeline_share = 0.025
    quant_share = 0.08
    rule = _WriterP.rule + (
        "; 10 % collect cases (3-7 proteins in groups, 2-9 peptides of which ~40 % are shared between 2-4 groups, dyadic PEPs, "
        "NaN/inf scores, unknown proteins, decoys; discard / razor / with_shared strategies built directly or from a custom "
        "method TOML; level chosen where one-copy-per-group would change the cutoff), 2.5 % whole get_protein_group_results runs "
        "with a custom with_shared TOML (every collect call recorded), 8 % multi-file quantification cases (1-4 FragPipe psm.tsv / "
        "Sage results / MaxQuant evidence / DIA-NN report files with disjoint PEP ranges, level chosen where a subset of the "
        "files would change the cutoff; files also in reversed order)"
    )
    assumptions = _WriterP.assumptions + [
        "the PEP of a FragPipe row is 1 - p + 1e-16 and of a Sage row 10**x in double arithmetic (format transforms, applied by "
        "the harness with the same operations; C10 validates the parsers)",
        "hashlib.md5 keys of the razor tie-break are supplied to the model by the harness",
    ]

    trusted_extra = list(getattr(_WriterP, "trusted_extra", [])) + [
        "harness/c17_lists.py (generators of groupings / peptide lists / input files, wrappers that observe the list reaching "
        "calc_post_err_prob_cutoff and the cutoff reaching the writer's columns, format transforms FragPipe 1-p+1e-16 and Sage 10**x, "
        "helpers.remove_decoy_proteins_from_target_peptides re-stated for MaxQuant / DIA-NN rows)",
    ]

    @staticmethod
    def _k(case):
        return case.get("kind") if isinstance(case, dict) and case.get("kind") in _cl.KINDS else None

    def gen_case(self, rng, tier):
        r = rng.random()
        if r < self.collect_share:
            return _cl.gen_collect_case(rng)
        if r < self.collect_share + self.collect_pipeline_share:
            return _cl.gen_collect_pipeline_case(rng, tier)
        if r < self.collect_share + self.collect_pipeline_share + self.quant_share:
            return _cl.gen_quant_case(rng)
        return super().gen_case(rng, tier)

    def run_impl(self, case):
        k = self._k(case)
        if k == "collect":
            return _cl.run_collect(case)
        if k == "collect_pipeline":
            return _cl.run_collect_pipeline(case)
        if k == "quant":
            return _cl.run_quant(case)
        return super().run_impl(case)

    def model_request(self, case, impl_out):
        k = self._k(case)
        if k is None:
            return super().model_request(case, impl_out)
        if k == "collect":
            return _cl.collect_request(case["groups"], case["pil"], case["razor"], case["suppress"], "with_shared" in case["desc"], case["level"])
        if k == "collect_pipeline":
            reqs = [_cl.collect_request(c["groups"], c["pil"], case["shared"] == "razor", c["suppress"], "with_shared" in case["desc"], c["level"])
                    for c in impl_out.get("calls", [])]
            return reqs or None
        return _cl.quant_request(case)

    def _collect_pairs(self, case, impl_out, resp):
        """[(impl view, model view)] of the recorded collect calls"""
        if self._k(case) == "collect":
            return [_cl.collect_views(case["groups"], case["pil"], impl_out, resp, unrat(case["level"]))]
        resps = resp if isinstance(resp, list) else [resp]
        return [_cl.collect_views(c["groups"], c["pil"], c, r, unrat(c["level"])) for c, r in zip(impl_out.get("calls", []), resps)]

    def model_view(self, case, resp, impl_out):
        k = self._k(case)
        if k is None:
            return super().model_view(case, resp, impl_out)
        if k == "quant":
            return _cl.quant_model_view(case, resp, impl_out)
        return [mv for _iv, mv in self._collect_pairs(case, impl_out, resp)]

    def impl_view(self, case, impl_out):
        k = self._k(case)
        if k is None:
            return super().impl_view(case, impl_out)
        if k == "quant":
            return _cl.quant_impl_view(case, impl_out)
        if k == "collect":
            return [_cl.collect_views(case["groups"], case["pil"], impl_out, None, unrat(case["level"]))[0]]
        views = [_cl.collect_views(c["groups"], c["pil"], c, None, unrat(c["level"]))[0] for c in impl_out.get("calls", [])]
        if impl_out.get("unseen_calls"):
            # collect calls whose arguments the wrapper could not read: "not observed", a matter of the correspondence
            views.append({"collect_calls_not_observed": impl_out["unseen_calls"]})
        return views

    def oracle(self, case, impl_out):
        k = self._k(case)
        if k is None:
            return super().oracle(case, impl_out)
        if not isinstance(impl_out, dict):
            return "no result: %r" % (impl_out,)
        if k == "quant":
            return _cl.quant_oracle(case, impl_out)
        if k == "collect":
            o = _cl.collect_oracle(impl_out, unrat(case["level"]), "%s%s (%s): " % (case["desc"], " razor" if case["razor"] else "", case["via"]))
            # the check's reading of "the callers' list" (notes/C17.md, extension sentence): shared peptides contribute iff the
            # score type says with_shared / razor.  A flag that cannot be read (None) is not judged.
            want_flags = ["with_shared" in case["desc"], bool(case["razor"])]
            if o is None and "err" not in impl_out and any(g is not None and g != w for g, w in zip(impl_out["flags"], want_flags)):
                return "strategy flags (use_shared_peptides, use_razor) = %r for score type %r" % (impl_out["flags"], case["desc"])
            return o
        for i, c in enumerate(impl_out.get("calls", [])):
            if unrat(c["level"]) != unrat(case["level"]):
                return "collect call %d was given the level %r, the PSM-level cutoff of the run is %r" % (i, float(unrat(c["level"])), float(unrat(case["level"])))
            o = _cl.collect_oracle(c, unrat(case["level"]), "%s/%s grouping=%s, collect call %d: " % (case["desc"], case["shared"], case["grouping"], i))
            if o:
                return o
        return None

    def nontrivial(self, case, impl_out):
        k = self._k(case)
        if k is None:
            return super().nontrivial(case, impl_out)
        if not isinstance(impl_out, dict):
            return False
        if k == "quant":
            return len(_cl.quant_expected(case)) >= 2
        calls = [impl_out] if k == "collect" else impl_out.get("calls", [])
        return any("evidence" in c and len(_cl.evidence_peps(c["evidence"])[0]) >= 2 for c in calls)

    def features(self, case, impl_out):
        k = self._k(case)
        if k is None:
            return super().features(case, impl_out)
        f = ["kind=" + k]
        if not isinstance(impl_out, dict):
            return f
        if k == "quant":
            f.append("quant:" + case["format"])
            f.append("quant:files=%d" % len(case["files"]))
            f.append("quant:discard_shared" if case["discard"] else "quant:use_shared")
            if case.get("second") and case["format"] in ("fragpipe", "sage"):
                f.append("quant:with_intensity_file")
            fin, level = _cl.quant_expected(case), unrat(case["level"])
            want = _cl.prop_cutoff(fin, level)
            subs = [_cl.quant_expected(case, [x]) for x in case["files"]]
            if len(subs) > 1 and any(_cl.prop_cutoff(s_, level) != want for s_ in subs):
                f.append("quant:some_single_file_differs")
            if len(subs) > 1 and _cl.prop_cutoff(subs[-1], level) != want:
                f.append("quant:last_file_alone_differs")
            if any("nan" in o for o in [impl_out.get("returned", [])]):
                f.append("quant:has_mbr")
            f.append("cutoff=1" if want == 1 else "cutoff=crossing")
            if _cl.near_tie(fin, level):
                f.append("near_tie_skipped")
            return f
        calls = [impl_out] if k == "collect" else impl_out.get("calls", [])
        f.append("collect:%s%s" % (case["desc"], " razor" if (case.get("razor") or case.get("shared") == "razor") else ""))
        if k == "collect":
            f.append("collect:via=" + case["via"])
        else:
            f.append("collect:calls=%d" % len(calls))
        if "err" in impl_out:
            f.append("collect:err=" + impl_out["err"])
        for c in calls:
            if "evidence" not in c:
                continue
            cnt = {}
            for ev in c["evidence"]:
                for s_, pep, pr in ev:
                    if not _cl.is_decoy(pr) and s_ != "nan":
                        cnt[pep] = cnt.get(pep, 0) + 1
            m = max(cnt.values(), default=0)
            if m > 1:
                f.append("collect:target_peptide_in_%s_groups" % (m if m < 4 else "4+"))
                fin, _o = _cl.evidence_peps(c["evidence"])
                lv = unrat(case["level"])
                per_group = [unrat(s_) for ev in c["evidence"] for s_, pep, pr in ev if not _cl.is_decoy(pr) and not isinstance(s_, str)]
                if _cl.prop_cutoff(fin, lv) != _cl.prop_cutoff(per_group, lv):
                    f.append("collect:per_group_copies_would_change_cutoff")
                break
        return f

    def shrink(self, case):
        k = self._k(case)
        if k is None:
            yield from super().shrink(case)
            return
        if k == "quant":
            fs = case["files"]
            for i in range(len(fs)):
                if len(fs) > 1:
                    yield dict(case, files=fs[:i] + fs[i + 1:])
            for i, f_ in enumerate(fs):
                for j in range(len(f_["rows"])):
                    yield dict(case, files=fs[:i] + [dict(f_, rows=f_["rows"][:j] + f_["rows"][j + 1:])] + fs[i + 1:])
            if case.get("second"):
                yield dict(case, second=False)
            return
        pil = case["pil"]
        for i in range(len(pil)):
            yield dict(case, pil=pil[:i] + pil[i + 1:])
        for i, (p, s_, pr) in enumerate(pil):
            if len(pr) > 1 and k == "collect_pipeline":
                for j in range(len(pr)):
                    yield dict(case, pil=pil[:i] + [[p, s_, pr[:j] + pr[j + 1:]]] + pil[i + 1:])
        if k == "collect":
            gs = case["groups"]
            for i in range(len(gs)):
                yield dict(case, groups=gs[:i] + gs[i + 1:])


# ------------------------------------------------------------------------------------------------------------------
# The level the command line hands to the cutoff: whole `main(argv)` runs against the composed command-line model
# (harness/cli_model.py, Model/Cli.lean), the C17 statement evaluated on every written table for the PSM level GIVEN ON
# THE COMMAND LINE (--psm_fdr_cutoff), which is drawn independently of --protein_group_fdr_threshold: the cutoff the
# rescue pass reported with is the first PEP whose running mean exceeds THAT level (pipeline.oracle_c17).
# ------------------------------------------------------------------------------------------------------------------
import cli_model as _cm  # noqa: E402

_ListsP = P


class P(_cm.CliMixin, _ListsP):
    cli_model_share = 0.02   # ~60 of the 3 000 quick cases
    cli_oracles = ("c17",)
    rule = _ListsP.rule + (
        "; 2 % of the cases run the whole command line in process (harness/cli_model.py: shipped methods, generated FASTA and "
        "evidence files, --psm_fdr_cutoff drawn independently of --protein_group_fdr_threshold) and state C17 on the cutoff "
        "the rescue pass of every method reported with, for the level given on the command line"
    )
