"""C17 — PEP cutoff is the first PEP at which the running mean exceeds the FDR level.

Correspondence: fdr.calc_post_err_prob_cutoff (real code) vs PgFdr.C17.cutoff (Lean model).
PEPs are dyadic rationals k/2^10 in [0,1] (and a few from the unit tests' grid), so every
running sum is exact in double precision; the running mean s/n is the correctly rounded
quotient, and a case is discarded (counted) only if some running mean rounds onto the level
without being equal to it, because there the float comparison and the exact one may differ.
"""
import math
import random
from fractions import Fraction

import lib
from lib import Prop, rat, unrat


def F(x):
    return Fraction(*float(x).as_integer_ratio())


def enc(p):
    if isinstance(p, str):
        return p
    return rat(p)


def dec(p):
    if p == "nan":
        return float("nan")
    if p == "inf":
        return float("inf")
    if p == "-inf":
        return float("-inf")
    f = unrat(p)
    return f.numerator / f.denominator


class P(Prop):
    id = "C17"
    quick_cases = 3000
    thorough_cases = 200000
    chunk = 1000
    rule = (
        "multisets of dyadic PEPs k/1024 in [0,1] (0-14 values, duplicates frequent) with NaN/inf entries at random "
        "positions, levels on and off the attained running means; non-trivial = at least 2 finite values and a cutoff "
        "decided by a crossing or by exhaustion with >= 2 values; distinct by sha1 of (peps, level)"
    )
    assumptions = [
        "float sums of the generated dyadic PEPs are exact; s/n is correctly rounded (IEEE division)",
        "Python's sorted() is a stable total sort on finite floats",
    ]

    def gen_case(self, rng, tier):
        n = rng.choice([0, 1, 2, 3, 3, 4, 5, 6, 8, 10, 14])
        grid = rng.choice([8, 16, 64, 1024])
        vals = [Fraction(rng.randint(0, grid), grid) for _ in range(n)]
        if rng.random() < 0.3 and vals:
            vals += [rng.choice(vals) for _ in range(rng.randint(1, 3))]
        peps = [enc(v) for v in vals]
        for _ in range(rng.choice([0, 0, 1, 1, 2, 3])):
            peps.insert(rng.randint(0, len(peps)), rng.choice(["nan", "nan", "inf"]))
        if rng.random() < 0.5:
            rng.shuffle(peps)
        # level: an attained running mean, just around it, or a grid value
        fin = sorted(v for v in vals)
        means = [sum(fin[: k + 1], Fraction(0)) / (k + 1) for k in range(len(fin))]
        r = rng.random()
        if means and r < 0.35:
            level = float(rng.choice(means))
        elif means and r < 0.5:
            level = float(rng.choice(means)) + rng.choice([-1, 1]) * 2.0**-12
        else:
            level = rng.choice([0.0, 0.001, 0.01, 0.05, 0.1, 0.25, 0.5, 0.9, 1.0])
        return {"peps": peps, "level": rat(level)}

    def exhaustive_cases(self, tier):
        # all multisets of <= 4 values from a 5-point grid + {nan, inf}, in sorted and reversed order, 4 levels
        import itertools

        grid = [rat(Fraction(k, 4)) for k in range(5)] + ["nan", "inf"]
        out = []
        for n in range(0, 5):
            for combo in itertools.combinations_with_replacement(range(len(grid)), n):
                for lv in (Fraction(1, 8), Fraction(1, 4), Fraction(1, 2), Fraction(3, 4)):
                    items = [grid[i] for i in combo]
                    out.append({"peps": items, "level": rat(lv)})
                    if n > 1:
                        out.append({"peps": items[::-1], "level": rat(lv)})
        return out

    def _near_tie(self, case):
        fin = sorted(unrat(p) for p in case["peps"] if not isinstance(p, str))
        level = unrat(case["level"])
        s = Fraction(0)
        for k, v in enumerate(fin):
            s += v
            m = s / (k + 1)
            if m != level and (m.numerator / m.denominator) == float(level):
                return True
        return False

    def run_impl(self, case):
        from picked_group_fdr import fdr

        peps = [dec(p) for p in case["peps"]]
        level = dec(case["level"])
        c = fdr.calc_post_err_prob_cutoff(peps, level)
        return {"cutoff": rat(float(c))}

    def model_request(self, case, impl_out):
        if self._near_tie(case):
            return None
        return {"op": "cutoff", "peps": case["peps"], "level": case["level"]}

    def model_view(self, case, resp, impl_out):
        if "cutoff" in resp:
            return {"cutoff": rat(unrat(resp["cutoff"]))}
        return resp

    def impl_view(self, case, impl_out):
        if isinstance(impl_out, dict) and "cutoff" in impl_out:
            return {"cutoff": rat(unrat(impl_out["cutoff"]))}
        return impl_out

    # the property, stated directly over exact fractions
    def oracle(self, case, impl_out):
        if "cutoff" not in impl_out:
            return "no cutoff returned: %r" % (impl_out,)
        if self._near_tie(case):
            return None
        fin = sorted(unrat(p) for p in case["peps"] if not isinstance(p, str))
        level = unrat(case["level"])
        want = Fraction(1)
        s = Fraction(0)
        for k, v in enumerate(fin):
            s += v
            if s / (k + 1) > level:
                want = v
                break
        got = unrat(impl_out["cutoff"])
        if got != want:
            return f"cutoff {float(got)} but the first finite PEP (ascending) whose running mean exceeds {float(level)} is {float(want)}"
        return None

    def nontrivial(self, case, impl_out):
        return sum(1 for p in case["peps"] if not isinstance(p, str)) >= 2

    def features(self, case, impl_out):
        f = []
        nfin = sum(1 for p in case["peps"] if not isinstance(p, str))
        f.append("n_finite=%s" % (nfin if nfin < 6 else "6+"))
        if any(p == "nan" for p in case["peps"]):
            f.append("has_nan")
        if any(p == "inf" for p in case["peps"]):
            f.append("has_inf")
        if isinstance(impl_out, dict) and impl_out.get("cutoff") == ["1", "1"]:
            f.append("cutoff=1")
        else:
            f.append("cutoff=crossing")
        if self._near_tie(case):
            f.append("near_tie_skipped")
        return f

    def shrink(self, case):
        peps = case["peps"]
        for i in range(len(peps)):
            yield {"peps": peps[:i] + peps[i + 1 :], "level": case["level"]}


# ---- pipeline-level cases: the value the CALLERS obtain (scoring_strategy.collect_peptide_scores_per_protein stores
# the cutoff on the strategy object; the rescue pass reports with it) against the composed Lean model and against an
# independent recomputation from the peptides handed to the second competition
import pipeline as _pl  # noqa: E402

_BaseP = P


class P(_pl.PipelineMixin, _BaseP):
    pipeline_share = 0.04
    pipeline_oracles = ("c17",)

    def gen_case(self, rng, tier):
        if rng.random() < self.pipeline_share:
            c = _pl.gen_case(rng, tier, methods=[m for m in _pl.method_names() if _pl.method_fields(m)["grouping"].startswith("rescued")])
            c["psm"] = rat(rng.choice([0.01, 0.05, 0.0011, 0.2]))
            return c
        return _BaseP.gen_case(self, rng, tier)
