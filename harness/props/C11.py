"""C11 — MaxLFQ intensities recover sample ratios and preserve the total intensity.

Correspondence: columns.lfq.LFQIntensityColumns.append_columns -> _getLFQIntensities (real code, with
recording wrappers around its own helper functions) vs PgFdr.C11.stageA / PgFdr.C11.lfq (Lean model).

  stage A (exact):   selected intensities per (peptide, charge) x sample, total intensity, valid pairs,
                     the linear system (dense matrix, rows compared as a multiset)
  stage A (1e-12):   log median ratios and the right-hand side after large-ratio stabilisation
                     (the model returns the exact rational median / weight / summed-intensity ratio;
                     the float logarithm is taken here)
  stage B:           certificate — the implementation's lsqr solution must satisfy the normal equations
                     of the MODEL's system to 1e-8; then the model applies zeroing + _scaleEqualSum to
                     exp(solution) exactly and the result is compared with the returned LFQ (1e-12)
  FastLFQ:           the pruned sample graph is RECORDED from the implementation and handed to the model
                     as the edge filter (build_graph / prune_graph are not modelled)

FastLFQ graph, not trusted (addendum): the oracle also states, WITHOUT the recorded graph, that on exactly
consistent data where every pair of samples shares >= minr peptides the LFQ intensities are total*g/sum(g)
(1e-3) whatever FastLFQ does, and that the graph prune_graph returns is connected whenever the unpruned one is
(for the recorded graph, for prune_graph(build_graph(.)) on every case's peptide sets, and on graph-only cases).

Oracle (independent statement, Fractions + numpy lstsq) and metamorphic runs of the implementation itself:
precursor order, x c scaling, renaming experiments, sample permutation (end to end, and — when FastLFQ is
active — with the recorded graph transported by the permutation).  Relative tolerance 1e-9 (DESIGN §4).

Intensities are integers (times a dyadic or small integer scale), so every float sum the implementation
forms before the logarithm is exact and stage A can be compared exactly.

Written table (kind = "table"): `picked_group_fdr.quantification.main(argv)` in-process with the same recording
wrappers (a share as a subprocess of `python -m picked_group_fdr.quantification`) on a generated MaxQuant
evidence.txt — Fraction column, SILAC channels, --experimental_design_file / --file_list_file — vs the model's
`lfqTable` (PgFdr.C11.tableStageA, experimentsOf, lfqHeaders, namedColumns): experiment list, LFQ header names
in order, stage A per protein group on the labelled samples e * C + c as above, and every LFQ cell of the
written file against the model's (header, value) pair ('%.0f': 0.5).  The oracle reads the written cells BY
HEADER NAME and states the property on them from the evidence rows of the case alone (own assignment of
experiment / fraction, own aggregation over fractions, own channel expansion).
"""
import contextlib
import itertools
import math
import random
from fractions import Fraction

import lib
from lib import Prop, rat, unrat

CUTOFF = Fraction(1, 100)
PEP_GRID = ["nan", Fraction(1, 10000), Fraction(1, 1000), Fraction(1, 200), Fraction(1, 100), Fraction(1, 50), Fraction(1, 2)]
MIN_SAMPLES = 10
TOL_META = 1e-9  # metamorphic relations that leave the linear system unchanged; sum preservation
TOL_A = 1e-12  # float log / product against the exact rational
# scipy's lsqr runs with its default atol = btol = 1e-6 (lfq.py passes none), i.e. it is SPECIFIED to stop
# when |A^T r| <= atol |A| |r| or |r| <= btol |b| + atol |A| |x|; measured accuracy of the log intensities
# reaches 1.2e-5 on sparse FastLFQ graphs (thorough tier), so comparisons ACROSS different lsqr runs / against
# the exact least-squares solution use the error bound that follows from those two rules (lsqr_error_bound,
# typically 1e-5 .. 5e-4); everything that does not pass through a different lsqr run is compared at 1e-9
LSQR_TOL = 1e-6
TOL_CERT = 1e-8


def lsqr_error_bound(A, b, y):
    """how far a vector accepted by lsqr's documented stopping rules (atol = btol = 1e-6, slack 4) can be
    from the exact least-squares solution y of A y = b, in the components orthogonal to the null space:
    rule 1  |r| <= btol |b| + atol |A| |x|   gives  |dy| <= |A^+| (btol |b| + atol |A| |y|)
    rule 2  |A^T r| <= atol |A| |r|           gives  |dy| <= |A^+|^2 atol |A| |r|"""
    import numpy as np

    sv = np.linalg.svd(A, compute_uv=False)
    smin = min((x for x in sv if x > 1e-9 * max(sv[0], 1.0)), default=1.0)
    pinv = 1.0 / smin
    nA = float(np.linalg.norm(A))
    r = A @ np.array(y) - b
    b1 = pinv * LSQR_TOL * (float(np.linalg.norm(b)) + nA * float(np.linalg.norm(y)))
    b2 = pinv * pinv * LSQR_TOL * nA * float(np.linalg.norm(r))
    return 4.0 * max(b1, b2)

NAME_SCHEMES = [
    lambda i: "s%02d" % i,
    lambda i: "exp_%d" % (i + 1),  # exp_10 sorts before exp_2: name order differs from index order
    lambda i: chr(65 + i) * 3,
    lambda i: "run" + "abcdefghijklmnopqrstuvwxyz"[(7 * i + 3) % 26] + str(i % 3),
    lambda i: "%dx" % ((i * 11) % 17),
]


def fl(r):
    """R or Fraction -> correctly rounded float"""
    f = r if isinstance(r, Fraction) else unrat(r)
    return f.numerator / f.denominator


def dec_pep(p):
    return float("nan") if p == "nan" else fl(p)


def close(a, b, tol):
    if a == b:
        return True
    if not (math.isfinite(a) and math.isfinite(b)):
        return False
    return abs(a - b) <= tol * max(abs(a), abs(b))


def close_abs(a, b, tol):
    if a == b:
        return True
    if not (math.isfinite(a) and math.isfinite(b)):
        return False
    return abs(a - b) <= tol * max(1.0, abs(a), abs(b))


# --------------------------------------------------------------------------------------------------
# running the implementation
# --------------------------------------------------------------------------------------------------
@contextlib.contextmanager
def _patched(mod, name, fn):
    """wrap mod.name for the duration of the block.  A helper that no longer exists (private function renamed,
    inlined, an import dropped) is simply NOT OBSERVED: nothing is wrapped, nothing raised (audit-3 X3); what
    the missing observation means is decided by the views (correspondence side)."""
    orig = getattr(mod, name, None)
    if orig is None or not callable(orig):
        yield
        return
    setattr(mod, name, fn(orig))
    try:
        yield
    finally:
        setattr(mod, name, orig)


@contextlib.contextmanager
def recording(rec):
    """recording wrappers around the helper functions of columns/lfq.py and fastlfq.prune_graph; fills
    rec["groups"] (one dict per _getLFQIntensities call, in call order) and rec["graph"]"""
    from picked_group_fdr.columns import fastlfq, lfq

    cur = {}

    def noting(note):
        """wrapper factory: forwards the call unchanged (any calling convention); `note(result)` writes into `cur`
        and may fail (another return shape) — then that item is simply not observed (audit-3 X3)"""
        def w(orig):
            def f(*a, **k):
                r = orig(*a, **k)
                try:
                    note(r)
                except Exception:
                    pass
                return r

            return f

        return w

    def w_top(orig):
        def f(*a, **k):
            cur.clear()
            out = orig(*a, **k)
            try:
                cur["out"] = [float(x) for x in out]
            except Exception:
                pass
            rec["groups"].append(dict(cur))
            return out

        return f

    def n_pi(r):
        d, tot = r
        cur["rows"] = {k2: [float(x) for x in v] for k2, v in d.items()}
        cur["total"] = float(tot)

    def n_ratios(d):
        cur["ratios"] = {k2: float(v) for k2, v in d.items()}

    def n_stab(d):
        cur["b"] = {k2: float(v) for k2, v in d.items()}

    def n_sys(r):
        m, v = r
        mat = [[int(x) if float(x).is_integer() else float(x) for x in row] for row in m.toarray().tolist()]
        vec = [float(x) for x in v]
        cur["matrix"], cur["vector"] = mat, vec

    def n_lsqr(r):
        cur["y"] = [float(x) for x in r[0]]

    def n_prune(g):
        rec["graph"] = sorted([min(u, v), max(u, v)] for u, v in g.edges())

    w_pi, w_ratios, w_stab, w_sys, w_lsqr, w_prune = (noting(n) for n in (n_pi, n_ratios, n_stab, n_sys, n_lsqr, n_prune))

    with contextlib.ExitStack() as st:
        st.enter_context(_patched(lfq, "_getLFQIntensities", w_top))
        st.enter_context(_patched(lfq, "_getPeptideIntensities", w_pi))
        st.enter_context(_patched(lfq, "_getLogMedianPeptideRatios", w_ratios))
        st.enter_context(_patched(lfq, "_applyLargeRatioStabilization", w_stab))
        st.enter_context(_patched(lfq, "_buildLinearSystem", w_sys))
        st.enter_context(_patched(lfq, "lsqr", w_lsqr))
        st.enter_context(_patched(fastlfq, "prune_graph", w_prune))
        yield rec


def run_append(n, groups, names, order, cutoff, minr, stab, fast, record=True):
    """LFQIntensityColumns(...).append on one ProteinGroupResults holding `groups`.
    names[s] = name of sample s;  order = list of samples in the order of `experiments`
    (column c of the output belongs to sample order[c]).  Returns (per-group outputs re-indexed by
    sample, recording)."""
    import numpy as np
    from picked_group_fdr.columns import fastlfq, lfq
    from picked_group_fdr.precursor_quant import PrecursorQuant
    from picked_group_fdr.results import ProteinGroupResult, ProteinGroupResults

    pgrs = []
    eid = 0
    for g in groups:
        pqs = []
        for (pep, ch, s, frac, inten, q) in g:
            pqs.append(PrecursorQuant(pep, ch, names[s], frac, fl(inten), dec_pep(q), None, None, eid))
            eid += 1
        pgrs.append(ProteinGroupResult(proteinIds="P%d" % len(pgrs), qValue=0.0, score=1.0, precursorQuants=pqs))
    res = ProteinGroupResults(pgrs)
    res.experiments = [names[s] for s in order]
    res.num_tmt_channels = 0
    res.num_silac_channels = 0

    rec = {"groups": [], "graph": None}

    col = lfq.LFQIntensityColumns(minr, stab, fast_lfq=fast)
    with contextlib.ExitStack() as st:
        if record:
            st.enter_context(recording(rec))
        col.append(res, fl(cutoff))
    outs = []
    for pgr in pgrs:
        o = [float(x) for x in pgr.extraColumns]
        if len(o) != n:
            raise AssertionError("LFQ column count %d for %d experiments" % (len(o), n))
        back = [0.0] * n
        for c, s in enumerate(order):
            back[s] = o[c]
        outs.append(back)
    return outs, rec


def run_direct(n, group, order, cutoff, minr, stab, graph_edges):
    """_getLFQIntensities itself with an explicit sample graph (node = column index)"""
    import networkx as nx
    from picked_group_fdr.columns import lfq
    from picked_group_fdr.precursor_quant import PrecursorQuant

    names = ["x%02d" % s for s in range(n)]
    pqs = [
        PrecursorQuant(pep, ch, names[s], frac, fl(inten), dec_pep(q), None, None, k)
        for k, (pep, ch, s, frac, inten, q) in enumerate(group)
    ]
    m = {names[s]: c for c, s in enumerate(order)}
    G = None
    if graph_edges is not None:
        G = nx.Graph()
        G.add_nodes_from(range(n))
        G.add_edges_from(graph_edges)
    o = [float(x) for x in lfq._getLFQIntensities(pqs, m, fl(cutoff), minr, stab, G, MIN_SAMPLES, 0)]
    back = [0.0] * n
    for c, s in enumerate(order):
        back[s] = o[c]
    return back


# --------------------------------------------------------------------------------------------------
# the property, stated independently (exact rationals; numpy lstsq for the least squares)
# --------------------------------------------------------------------------------------------------
def fmedian(xs):
    s = sorted(xs)
    k = len(s)
    if k % 2 == 1:
        return s[k // 2]
    return (s[k // 2 - 1] + s[k // 2]) / 2


def spec(n, group, cutoff, minr, stab, graph, stab_group=None):
    """what MaxLFQ is specified to compute for one protein group; graph = list of edges or None;
    stab_group = the precursors the summed intensities / peptide counts of the large-ratio stabilisation are
    taken from when they are not `group` itself (SILAC: all rows, not only the selected ones)"""
    cutoff = cutoff if isinstance(cutoff, Fraction) else unrat(cutoff)
    P = [(pep, ch, s, fr, unrat(i), (None if q == "nan" else unrat(q))) for (pep, ch, s, fr, i, q) in group]
    ident = [p for p in P if p[5] is None or p[5] <= cutoff]
    ident_stab = ident
    if stab_group is not None:
        PS = [(pep, ch, s, fr, unrat(i), (None if q == "nan" else unrat(q))) for (pep, ch, s, fr, i, q) in stab_group]
        ident_stab = [p for p in PS if p[5] is None or p[5] <= cutoff]
    best = {}
    for p in ident:
        if p[4] > 0:
            k = p[:4]
            if k not in best or p[4] > best[k]:
                best[k] = p[4]
    I = {}
    for (pep, ch, s, fr), v in best.items():
        I.setdefault((pep, ch), [Fraction(0)] * n)[s] += v
    total = sum(best.values(), Fraction(0))
    keys = sorted(I)
    nz = [sum(1 for k in keys if I[k][s] > 0) for s in range(n)]
    valid = [s for s in range(n) if nz[s] >= minr]
    active = graph is not None and len(valid) >= MIN_SAMPLES
    E = set()
    if graph is not None:
        for u, v in graph:
            E.add((u, v))
            E.add((v, u))
    si = [sum((p[4] for p in ident_stab if p[2] == s), Fraction(0)) for s in range(n)]
    pc = [len({p[0] for p in ident_stab if p[2] == s}) for s in range(n)]
    eqs = []
    for i, j in itertools.combinations(valid, 2):
        if active and (i, j) not in E:
            continue
        sh = [k for k in keys if I[k][i] > 0 and I[k][j] > 0]
        if len(sh) < minr or not sh:
            continue
        r = fmedian([I[k][i] / I[k][j] for k in sh])
        rinv = fmedian([I[k][j] / I[k][i] for k in sh])
        w = Fraction(0)
        if stab and pc[i] > 0 and pc[j] > 0:
            mr = Fraction(max(pc[i], pc[j]), min(pc[i], pc[j]))
            if mr > 5:
                w = Fraction(1)
            elif mr > Fraction(5, 2):
                w = (mr - Fraction(5, 2)) / Fraction(5, 2)
        eqs.append({"i": i, "j": j, "r": r, "rinv": rinv, "w": w, "sr": (si[i] / si[j]) if w > 0 else Fraction(1), "nshared": len(sh)})
    return {"I": I, "keys": keys, "total": total, "valid": valid, "active": active, "eqs": eqs}


def rhs(e):
    w = fl(e["w"])
    if e["w"] == 0:
        return math.log(fl(e["r"]))
    if e["w"] == 1:
        return math.log(fl(e["sr"]))
    return w * math.log(fl(e["sr"])) + (1 - w) * math.log(fl(e["r"]))


def components(n, eqs):
    par = list(range(n))

    def find(x):
        while par[x] != x:
            par[x] = par[par[x]]
            x = par[x]
        return x

    for e in eqs:
        par[find(e["i"])] = find(e["j"])
    comp = {}
    seen = {e["i"] for e in eqs} | {e["j"] for e in eqs}
    for s in sorted(seen):
        comp.setdefault(find(s), []).append(s)
    return list(comp.values())


def expected_log(n, sp):
    """least-squares solution (minimum norm) of the specified system, numpy lstsq"""
    import numpy as np

    eqs = sp["eqs"]
    seen = sorted({e["i"] for e in eqs} | {e["j"] for e in eqs})
    zero = [s for s in range(n) if s not in seen]
    A = np.zeros((len(eqs) + 1 + len(zero), n))
    b = np.zeros(len(eqs) + 1 + len(zero))
    for k, e in enumerate(eqs):
        A[k, e["i"]] = 1
        A[k, e["j"]] = -1
        b[k] = rhs(e)
    for s in seen:
        A[len(eqs), s] = 1
    for k, z in enumerate(zero):
        A[len(eqs) + 1 + k, z] = 1
    y = np.linalg.lstsq(A, b, rcond=None)[0]
    return [float(v) for v in y], seen, zero, lsqr_error_bound(A, b, y)


def ls_tolerance(n, group, cutoff, minr, stab, graph):
    """relative tolerance for LFQ intensities that went through lsqr on this group's system"""
    sp = spec(n, group, cutoff, minr, stab, graph)
    if not sp["eqs"]:
        return TOL_META
    return TOL_META + 2.0 * expected_log(n, sp)[3]


def check_group_direct(n, group, cutoff, minr, stab, graph, out, gfac=None, slack=0.0, stab_group=None, label=None):
    """the property on one group's LFQ output; returns None or a reason.  slack = absolute error of every
    entry of `out` (0.5 for values read back from a table written with '%.0f'); label(s) = how sample s is
    called in messages"""
    label = label or (lambda s: "%d" % s)
    sp = spec(n, group, cutoff, minr, stab, graph, stab_group)
    tot = fl(sp["total"])
    if len(out) != n:
        return "LFQ vector has %d entries for %d samples" % (len(out), n)
    if any((not math.isfinite(x)) or x < 0 for x in out):
        return "LFQ intensity negative or not finite: %r" % (out,)
    if not sp["eqs"]:
        if any(x != 0 for x in out):
            return "no valid sample pair, but LFQ intensities are not all 0: %r" % (out,)
        return None
    y, seen, zero, bound = expected_log(n, sp)
    tol_ls = TOL_META + 2.0 * bound
    for z in zero:
        if out[z] != 0:
            return "sample %s has no valid pairwise ratio but LFQ %r != 0" % (label(z), out[z])
    for s in seen:
        if not out[s] > 0:
            return "sample %s has valid ratios but LFQ %r" % (label(s), out[s])
    ssum = math.fsum(out)
    if not (close(ssum, tot, TOL_META) or abs(ssum - tot) <= TOL_META * tot + slack * n):
        return "LFQ intensities sum to %r, the summed intensity of the peptides used is %r" % (ssum, tot)
    for comp in components(n, sp["eqs"]):
        a = comp[0]
        for c in comp[1:]:
            got = math.log(out[c]) - math.log(out[a])
            want = y[c] - y[a]
            if not abs(got - want) <= tol_ls + 2.0 * slack / min(out[c], out[a]):
                return "log ratio of linked samples %s/%s is %r, least-squares solution of the median ratios gives %r" % (label(c), label(a), got, want)
    if gfac is not None and len(seen) == n and len(components(n, sp["eqs"])) == 1 and all(e["w"] == 0 for e in sp["eqs"]):
        g = [Fraction(x) for x in gfac]
        consistent = True
        for k in sp["keys"]:
            q = {sp["I"][k][s] / g[s] for s in range(n) if sp["I"][k][s] > 0}
            if len(q) > 1:
                consistent = False
        if consistent:
            G = sum(g)
            for s in range(n):
                want = fl(sp["total"] * g[s] / G)
                if not (close(out[s], want, tol_ls) or abs(out[s] - want) <= tol_ls * want + slack):
                    return "consistent data (I = f_p * g_s), connected: LFQ[%s] = %r, expected total*g/sum(g) = %r" % (label(s), out[s], want)
    return None


TOL_CONSISTENT = 1e-3  # relative; the statement below holds whatever sample graph FastLFQ uses


def check_consistent_all_pairs(n, group, cutoff, minr, stab, out, gfac, slack=0.0, stab_group=None, label=None):
    """The first sentence of the property, stated WITHOUT the sample graph the implementation used: if the
    selected intensities are exactly f_p * g_s, every sample is valid and EVERY pair of samples shares
    >= minr (>= 1) peptides (so the samples are connected by enough shared peptides whichever subset of the
    pairs FastLFQ keeps, provided it keeps them connected), and no pair falls under large-ratio stabilisation,
    then LFQ[s] = total * g_s / sum(g) (relative 1e-3).  Returns (hypotheses hold, None or a reason)."""
    if gfac is None or n < 2 or len(out) != n:
        return False, None
    label = label or (lambda s: "%d" % s)
    sp = spec(n, group, cutoff, minr, stab, None, stab_group)  # graph None: all pairs with enough shared peptides
    if len(sp["valid"]) != n or len(sp["eqs"]) != n * (n - 1) // 2:
        return False, None
    if any(e["w"] != 0 for e in sp["eqs"]):
        return False, None
    g = [Fraction(x) for x in gfac]
    for k in sp["keys"]:
        if len({sp["I"][k][s] / g[s] for s in range(n) if sp["I"][k][s] > 0}) > 1:
            return False, None
    G = sum(g)
    bad = [s for s in range(n) if not (close(out[s], fl(sp["total"] * g[s] / G), TOL_CONSISTENT)
                                       or abs(out[s] - fl(sp["total"] * g[s] / G)) <= TOL_CONSISTENT * fl(sp["total"] * g[s] / G) + slack)]
    if bad:
        s = bad[0]
        dev = [(out[x] / fl(sp["total"] * g[x] / G)) if out[x] > 0 else 0.0 for x in range(n)]
        t = max(range(n), key=lambda x: dev[x])  # the two samples whose ratio is most wrong
        u = min(range(n), key=lambda x: dev[x])
        return True, (
            "consistent data (I = f_p * g_s), every pair of the %d samples shares >= %d peptides: LFQ[%s] = %r, expected "
            "total*g/sum(g) = %r (%d of %d samples off by more than 1e-3; LFQ ratio of samples %s/%s is %r, sample factors give %r)"
            % (n, max(minr, 1), label(s), out[s], fl(sp["total"] * g[s] / G), len(bad), n, label(t), label(u),
               (out[t] / out[u]) if out[u] else float("inf"), fl(g[t] / g[u]))
        )
    return True, None


def is_connected(nodes, edges):
    """own breadth-first search (not networkx): do the edges connect all the nodes?"""
    nodes = list(nodes)
    if not nodes:
        return True
    adj = {v: [] for v in nodes}
    for u, v in edges:
        if u in adj and v in adj:
            adj[u].append(v)
            adj[v].append(u)
    seen, todo = {nodes[0]}, [nodes[0]]
    while todo:
        for w in adj[todo.pop()]:
            if w not in seen:
                seen.add(w)
                todo.append(w)
    return len(seen) == len(nodes)


def run_prune(samples, min_neighbors=3, avg_neighbors=6):
    """fastlfq.build_graph + prune_graph on peptide sets; returns (nodes, full edges, pruned nodes, pruned edges)"""
    from picked_group_fdr.columns import fastlfq

    G = fastlfq.build_graph([set(x) for x in samples])
    H = fastlfq.prune_graph(G, min_neighbors=min_neighbors, avg_neighbors=avg_neighbors)
    canon = lambda es: sorted([min(int(u), int(v)), max(int(u), int(v))] for u, v in es)
    return sorted(int(x) for x in G.nodes), canon(G.edges()), sorted(int(x) for x in H.nodes), canon(H.edges())


def check_graph_contract(nodes, full, pnodes, pruned):
    """fastlfq.prune_graph: 'Graph remains connected' — the pruned graph has the same nodes, only edges of the
    unpruned graph, and is connected whenever the unpruned graph is."""
    if pnodes != nodes:
        return "prune_graph changed the node set %r -> %r" % (nodes, pnodes)
    fs = {tuple(e) for e in full}
    extra = [e for e in pruned if tuple(e) not in fs]
    if extra:
        return "prune_graph returned an edge %r that the unpruned graph does not have" % (extra[0],)
    if is_connected(nodes, full) and not is_connected(nodes, pruned):
        return "the unpruned sample graph is connected but the graph returned by prune_graph is not (%d nodes, %d of %d edges kept)" % (
            len(nodes), len(pruned), len(full))
    return None


def vec_close(a, b, tol):
    return len(a) == len(b) and all(close(x, y, tol) or (abs(x - y) <= tol * 1e-6) for x, y in zip(a, b))


# --------------------------------------------------------------------------------------------------
# the WRITTEN table: python -m picked_group_fdr.quantification on generated evidence files
# (fractions, SILAC channels, experimental design / file list overrides), read back BY HEADER NAME
# --------------------------------------------------------------------------------------------------
SILAC_NAMES = {0: [], 2: ["L", "H"], 3: ["L", "M", "H"]}
TABLE_SLACK = 0.5  # '%.0f'
PG_HEADERS = ["Protein IDs", "Majority protein IDs", "Peptide counts (unique)", "Best peptide", "Number of proteins",
              "Q-value", "Score", "Reverse", "Potential contaminant"]


def lfq_header(exp, ch=None):
    return "LFQ Intensity " + (ch + " " if ch is not None else "") + exp


def num_text(r):
    """an exact rational as the text of an evidence cell (the generated values are integers or short decimals)"""
    f = unrat(r)
    if f.denominator == 1:
        return str(f.numerator)
    return repr(f.numerator / f.denominator)


def table_design(case):
    """the (experiment, fraction) of every raw file as the design defines it, and the experiments in the order
    pandas' unique() gives (first appearance); None without a design.  Independent of the implementation."""
    d = case.get("design")
    if not d:
        return None, None
    m, exps = {}, []
    for name, exp, frac in d["lines"]:
        stem = name[:-4] if name.endswith(".raw") else name
        m[stem] = (exp, -1 if frac is None else frac)
        if exp not in exps:
            exps.append(exp)
    return m, exps


def table_samples(case):
    """experiments in column order and the per-row (experiment, fraction) assignment, from the case alone"""
    m, exps = table_design(case)
    rows = [r for g in case["groups"] for r in g["rows"]]
    if m is None:
        exps = sorted({r[3] for r in rows})
        where = lambda r: (r[3], r[4] if case["fraction_col"] else -1)
    else:
        where = lambda r: m[r[2]]
    return exps, where


def table_cutoff(case):
    """fdr.calc_post_err_prob_cutoff on the finite PEPs of all rows (the subject of C17; replicated literally)"""
    peps = sorted(fl(r[7]) for g in case["groups"] for r in g["rows"] if r[7] != "nan")
    level = fl(case["psm_fdr"])
    tot, k = 0.0, 0
    for q in peps:
        tot += q
        k += 1
        if tot / k > level:
            return Fraction(*q.as_integer_ratio())
    return Fraction(1)


def table_cutoff_near_tie(case):
    """the running mean of the sorted PEPs comes within rounding of the PSM-level FDR at some element: another
    (equally correct) summation order may cross the level at a neighbouring element (c17_lists.near_tie, as in C17)"""
    import c17_lists

    peps = [Fraction(*fl(r[7]).as_integer_ratio()) for g in case["groups"] for r in g["rows"] if r[7] != "nan"]
    return c17_lists.near_tie(peps, Fraction(*fl(case["psm_fdr"]).as_integer_ratio()))


def table_cutoff_for_oracle(case, impl_out):
    """the cutoff the table oracle judges with: its own recomputation; at a near-tie of the scan (where the cutoff is
    C17's subject and not fixed to the ulp) the cutoff the run used, if it was observed, else None = not judged
    (audit-3 C11-10)"""
    if not table_cutoff_near_tie(case):
        return table_cutoff(case)
    c = (impl_out or {}).get("_rec", {}).get("cutoff") if isinstance(impl_out, dict) else None
    if isinstance(c, float) and math.isfinite(c):
        return Fraction(*c.as_integer_ratio())
    return None


def table_precursors(case, group, cutoff):
    """the oracle's own reading of one protein group's evidence rows: (selected per-sample precursors, all
    retained per-sample precursors) in the 6-field form of `spec`, samples numbered experiment-major with the
    channel inside.  Rows of a (peptide, charge) without any PEP <= cutoff are dropped first
    (writers/base._retain_only_identified_precursors); with SILAC the best row of a
    (peptide, charge, experiment, fraction) — highest Intensity — contributes its channel intensities."""
    C = case["channels"]
    exps, where = table_samples(case)
    ident = {(r[0], r[1]) for r in group["rows"] if r[7] != "nan" and unrat(r[7]) <= cutoff}
    rows = [r for r in group["rows"] if (r[0], r[1]) in ident]
    if C == 0:
        allp = [[r[0], r[1], exps.index(where(r)[0]), where(r)[1], r[5], r[7]] for r in rows]
        return allp, allp
    best = {}
    for r in rows:
        if unrat(r[5]) > 0 and (r[7] == "nan" or unrat(r[7]) <= cutoff):
            e, f = where(r)
            k = (r[0], r[1], e, f)
            if k not in best or unrat(r[5]) > unrat(best[k][5]):
                best[k] = r

    def expand(r):
        e, f = where(r)
        return [[r[0], r[1], exps.index(e) * C + c, f, r[6][c], r[7]] for c in range(C)]

    sel = [x for k in sorted(best) for x in expand(best[k])]
    allp = [x for r in rows for x in expand(r)]
    return sel, allp


def write_table_inputs(case, d):
    """evidence.txt, proteinGroups.txt, peptide map and (optionally) the design file of a table case; returns argv"""
    import csv
    import os

    C = case["channels"]
    ev, pg, mp, out = (os.path.join(d, x) for x in ("evidence.txt", "proteinGroups.txt", "map.txt", "out.txt"))
    cols = ["Modified sequence", "Leading proteins", "Leading razor protein", "PEP", "Score", "Experiment", "Charge",
            "Intensity", "Raw file", "id"] + ["Intensity " + c for c in SILAC_NAMES[C]]
    if case["fraction_col"]:
        cols.append("Fraction")
    cols = [cols[i] for i in case["col_order"]] if case.get("col_order") else cols
    recs = []
    for g in case["groups"]:
        for r in g["rows"]:
            rec = {"Modified sequence": "_" + r[0] + "_", "Leading proteins": g["id"], "Leading razor protein": g["id"],
                   "PEP": "" if r[7] == "nan" else repr(fl(r[7])), "Score": "100", "Experiment": r[3], "Charge": str(r[1]),
                   "Intensity": num_text(r[5]), "Raw file": r[2], "Fraction": str(r[4])}
            for c, name in enumerate(SILAC_NAMES[C]):
                rec["Intensity " + name] = "" if (case.get("empty_zero") and unrat(r[6][c]) == 0) else num_text(r[6][c])
            recs.append((r[8], rec))
    recs.sort(key=lambda x: x[0])  # r[8] = position of the row in the evidence file
    with open(ev, "w", newline="") as f:
        w = csv.writer(f, delimiter="\t")
        w.writerow(cols)
        for i, (_, rec) in enumerate(recs):
            rec["id"] = str(i)
            w.writerow([rec[c] for c in cols])
    with open(mp, "w", newline="") as f:
        w = csv.writer(f, delimiter="\t")
        for g in case["groups"]:
            for pep in sorted({r[0] for r in g["rows"]}):
                w.writerow([pep, g["id"]])
    with open(pg, "w", newline="") as f:
        w = csv.writer(f, delimiter="\t")
        w.writerow(PG_HEADERS)
        for g in case["groups"]:
            w.writerow([g["id"], g["id"], str(len({r[0] for r in g["rows"]})), "", 1, 0.001, 10.0, "", ""])
    argv = ["--mq_evidence", ev, "--mq_protein_groups", pg, "--peptide_protein_map", mp, "--protein_groups_out", out,
            "--lfq_min_peptide_ratios", str(case["minr"]), "--psm_fdr_cutoff", repr(fl(case["psm_fdr"]))]
    if not case["stab"]:
        argv.append("--lfq_stabilize_large_ratios")  # store_false: the flag switches the option OFF
    if not case["fast"]:
        argv.append("--fast_lfq")
    dz = case.get("design")
    if dz:
        df = os.path.join(d, "design.txt")
        with open(df, "w", newline="") as f:
            w = csv.writer(f, delimiter="\t")
            if dz["format"] == "design":
                w.writerow(["Name", "Fraction", "Experiment", "PTM"])
                for name, exp, frac in dz["lines"]:
                    w.writerow([name, "" if frac is None else frac, exp, "False"])
            else:
                for name, exp, frac in dz["lines"]:
                    w.writerow([name, "cond_" + exp, exp] + ([] if frac is None else [frac]))
        argv += ["--experimental_design_file" if dz["format"] == "design" else "--file_list_file", df]
    return argv, out


def read_table(path):
    import csv

    with open(path, newline="") as f:
        t = list(csv.reader(f, delimiter="\t"))
    return t[0], t[1:]


def run_table(case):
    """quantification.main(argv) in-process with the recording wrappers (via = "inproc"), or
    `python -m picked_group_fdr.quantification` as a subprocess (via = "cli"); the LFQ columns are read back
    from the written file BY HEADER NAME"""
    import shutil
    import subprocess
    import tempfile

    d = tempfile.mkdtemp(prefix="c11tab_")
    try:
        argv, out = write_table_inputs(case, d)
        rec = {"groups": [], "graph": None}
        seen = {}
        if case.get("via") == "cli":
            p = subprocess.run([lib.PY, "-m", "picked_group_fdr.quantification"] + argv, env=lib.impl_env(), cwd=d,
                               capture_output=True, text=True, timeout=600)
            if p.returncode != 0:
                raise AssertionError("quantification CLI exited with %d: %s" % (p.returncode, p.stderr[-400:]))
        else:
            from picked_group_fdr import quantification
            from picked_group_fdr.columns import lfq

            def w_append(orig):
                def f(*a, **k):
                    # any calling convention (audit-3 X1): bind by the signature of the real method, forward unchanged
                    try:
                        import inspect

                        ba = inspect.signature(orig).bind(*a, **k).arguments
                        vals = list(ba.values())
                        pgrs, cut = vals[1], vals[2]
                        seen["experiments"] = list(pgrs.experiments)
                        seen["channels"] = int(pgrs.num_silac_channels)
                        seen["cutoff"] = float(cut)
                        seen["ids"] = [pgr.proteinIds for pgr in pgrs]
                    except Exception:
                        seen.setdefault("unreadable", True)
                    return orig(*a, **k)

                return f

            def w_triqler(orig):
                # writers/factory.py hands the PATH given as --file_list_file to init_triqler_params, which expects the
                # parsed data frame (TypeError; observation recorded in notes/C12.md, outside C11): without a design
                # Triqler is skipped, which is also what happens for every design of these cases
                return lambda design: orig(None if isinstance(design, str) else design)

            from picked_group_fdr.writers import factory

            with recording(rec), _patched(lfq.LFQIntensityColumns, "append_columns", w_append), _patched(factory, "init_triqler_params", w_triqler):
                quantification.main(argv)
        header, body = read_table(out)
    finally:
        shutil.rmtree(d, ignore_errors=True)
    return header, body, rec, seen


def table_group_named(header, row):
    """the LFQ cells of one written row, in header order, as [[header, text]]"""
    return [[h, row[i]] for i, h in enumerate(header) if h.startswith("LFQ Intensity ")]


def impl_group_view(r, stab):
    """the recorded stage-A data of one _getLFQIntensities call in comparable form"""
    g = {}
    g["rows"] = sorted([k[0], k[1], [rat(x) for x in v]] for k, v in r.get("rows", {}).items())
    g["total"] = rat(r.get("total", 0.0))
    if "ratios" in r:
        g["ratios"] = sorted([int(i), int(j), v] for (i, j), v in r["ratios"].items())
        g["pairs"] = sorted([int(i), int(j)] for (i, j) in r["ratios"])
    else:
        g["ratios"], g["pairs"] = [], []
    bb = r.get("b", r.get("ratios", {})) if stab else r.get("ratios", {})
    g["b"] = sorted([int(i), int(j), v] for (i, j), v in bb.items())
    if "matrix" in r:
        g["matrix"] = sorted(r["matrix"])
        g["vector"] = r["vector"]
    else:
        g["matrix"] = None
    g["cert"] = True
    return g


# --------------------------------------------------------------------------------------------------
class P(Prop):
    id = "C11"
    level = "proof"
    quick_cases = 240
    thorough_cases = 5000
    chunk = 13
    rule = (
        "1-2 protein groups of 2-8 peptides x charges over 3-16 samples: multiplicative data I = f_p * g_s with integer factors, "
        "optionally log-normal noise (rounded to integers), missing values, several fractions, duplicate precursors with "
        "lower intensity / other PEP, PEPs on a grid around the cutoff incl. NaN (match between runs), zero intensities; "
        "min ratio count 1-3, stabilisation on/off, FastLFQ on/off (active from 10 valid samples); every case carries a "
        "precursor shuffle, a sample permutation, a scale factor and a second naming scheme for the metamorphic runs; "
        "6 % batch-structured cases (2-3 batches of 8-10 samples, factor 12 between batches, one background group of 6-12 "
        "peptides per batch, a probe group of 3 or 5 exactly consistent peptides over all 16-30 samples, every pair of samples "
        "sharing >= minr of them, FastLFQ on); 8 % graph-only cases (fastlfq.build_graph / prune_graph on 4-40 peptide sets in "
        "1-4 clusters, min neighbours 1-5, average 2-9; not modelled); "
        "16 % written-table cases: python -m picked_group_fdr.quantification (in-process main(argv) with the recording wrappers; "
        "12 % of those with < 10 samples as a subprocess) on a generated evidence.txt with 2-11 experiments, label-free or SILAC "
        "(2 / 3 channels), optional Fraction column with precursors split over 1-3 fractions of an experiment (splits differing per "
        "experiment), optional --experimental_design_file / --file_list_file overriding experiment and fraction by raw file (evidence "
        "cells then partly garbage, design order = column order, an unused experiment), shuffled column order, 1-3 protein groups of "
        "2-7 peptides, multiplicative integer data with optional noise, missing precursors, zeroed / empty channel cells, duplicates "
        "of lower intensity, PEPs around the cutoff, MBR rows; the LFQ cells are read back by header name; "
        "non-trivial = some group has a valid sample pair (graph-only: >= 8 samples and edges pruned); distinct by sha1 of the case"
    )
    assumptions = [
        "float sums of the generated integer intensities are exact, so the implementation's intensity matrix and total are the exact rationals",
        "the FastLFQ sample graph is recorded from the implementation (fastlfq.build_graph / prune_graph are not modelled)",
        "scipy lsqr, bottleneck nanmedian, numpy log/exp are exercised and checked by certificate / tolerance, not modelled",
        "written-table cases: the PEP cutoff of the run is recomputed in the harness (fdr.calc_post_err_prob_cutoff replicated literally; C17's subject); "
        "Fraction labels are the integers 1-9 (string order = integer order); every row of a file has as many SILAC cells as the file has channels",
        "NaN intensities and the multi-threaded JobPool path are not modelled",
    ]
    trusted_extra = [
        "numpy.linalg.lstsq (oracle's least-squares reference, used only to find/confirm failing inputs)",
        "recording wrappers around lfq._getPeptideIntensities/_getLogMedianPeptideRatios/_applyLargeRatioStabilization/_buildLinearSystem/lsqr and fastlfq.prune_graph",
        "written-table cases: rendering of the case into evidence.txt / proteinGroups.txt / peptide map / design file, csv reading of the written table, "
        "'%.0f' rounding slack 0.5 per cell; for --file_list_file runs writers.factory.init_triqler_params is wrapped to ignore the PATH it is handed "
        "(known crash of the glue outside C11, notes/C12.md)",
    ]

    # -- generation -----------------------------------------------------------------------------
    BATCH_SHARE = 0.06

    def gen_batch_case(self, rng):
        """2-3 batches of 8-10 samples.  One background protein group per batch (6-12 peptides seen only in
        that batch, so the peptide overlap is much higher inside a batch than between batches and the FastLFQ
        k-nearest-neighbour / average-degree edges all stay inside the batches) and a probe group with exactly
        consistent data (I = f_p * g_s) over ALL samples in which every pair of samples shares >= minr
        peptides; the sample factors differ by a factor 12 per batch.  FastLFQ on."""
        nb = rng.choice([2, 2, 3])
        sizes = [rng.choice([8, 8, 9, 10]) for _ in range(nb)]
        n = sum(sizes)
        batch_of = [b for b, k in enumerate(sizes) for _ in range(k)]
        if rng.random() < 0.5:
            rng.shuffle(batch_of)  # batches interleaved in the sample order
        g = [12 ** batch_of[s] * rng.randint(50, 200) for s in range(n)]
        npep = rng.choice([3, 3, 5])
        minr = rng.choice([1, 2, 2, 3])
        holes = npep == 5 and rng.random() < 0.5  # each sample may miss one probe peptide: pairs still share >= 3
        pid = 0

        def name():
            nonlocal pid
            pid += 1
            return "PEP%s" % "ABCDEFGHIJKLMNOPQRSTUVWXYZ"[(pid - 1) % 26] + ("" if pid <= 26 else str((pid - 1) // 26))

        q = rat(Fraction(1, 1000))
        groups = []
        for b in range(nb):
            precs = []
            noise = rng.random() < 0.5
            leak = rng.random() < 0.3
            for _p in range(rng.randint(6, 12)):
                pep, f = name(), rng.randint(1, 50)
                for s in range(n):
                    inb = batch_of[s] == b
                    if (inb and rng.random() < 0.05) or (not inb and not (leak and rng.random() < 0.03)):
                        continue
                    v = f * g[s]
                    if noise:
                        v = int(v * math.exp(rng.gauss(0, 0.3))) + 1
                    precs.append([pep, 2, s, -1, rat(v), q])
            rng.shuffle(precs)
            groups.append(precs)
        probe = []
        ppeps = [(name(), rng.randint(1, 50)) for _p in range(npep)]
        hole = {s: rng.randrange(npep) for s in range(n) if holes and rng.random() < 0.4}
        for k, (pep, f) in enumerate(ppeps):
            for s in range(n):
                if hole.get(s) != k:
                    probe.append([pep, 2, s, -1, rat(f * g[s]), q])
        rng.shuffle(probe)
        groups.insert(rng.randint(0, len(groups)), probe)
        perm = list(range(n))
        rng.shuffle(perm)
        sch = rng.sample([0, 1, 3], 2)  # the other two naming schemes repeat names beyond 17 / use odd characters beyond 26 samples
        return {
            "n": n,
            "groups": groups,
            "cutoff": rat(CUTOFF),
            "minr": minr,
            "stab": rng.random() < 0.5,
            "fast": True,
            "names": [NAME_SCHEMES[sch[0]](i) for i in range(n)],
            "g": g,
            "batches": batch_of,
            "meta": {
                "perm": perm,
                "scale": rat(rng.choice([Fraction(2), Fraction(3), Fraction(1, 2), Fraction(10), Fraction(1, 4)])),
                "names2": [NAME_SCHEMES[sch[1]](i) for i in range(n)],
                "shuffle": rng.randint(0, 10**9),
            },
        }

    GRAPH_SHARE = 0.08

    def gen_graph_case(self, rng):
        """fastlfq.build_graph / prune_graph alone: 4-40 samples in 1-4 clusters, every cluster with its own
        peptide pool (high overlap inside, little or none between), varying min / average neighbour counts"""
        nc = rng.choice([1, 2, 2, 3, 3, 4])
        sizes = [rng.choice([1, 2, 4, 7, 8, 8, 9, 10, 12]) for _ in range(nc)]
        cluster_of = [c for c, k in enumerate(sizes) for _ in range(k)]
        rng.shuffle(cluster_of)
        common = ["g%d" % i for i in range(rng.choice([0, 0, 1, 3, 6]))]
        pools = [["c%d_%d" % (c, i) for i in range(rng.randint(3, 25))] for c in range(nc)]
        samples = []
        for c in cluster_of:
            keep = rng.choice([0.6, 0.9, 1.0])
            x = [p for p in pools[c] if rng.random() < keep] + [p for p in common if rng.random() < 0.8]
            if rng.random() < 0.1 and nc > 1:
                x += rng.sample(pools[(c + 1) % nc], min(2, len(pools[(c + 1) % nc])))
            samples.append(sorted(set(x)))
        return {"kind": "graph", "samples": samples, "min_neighbors": rng.choice([1, 2, 3, 3, 3, 5]), "avg_neighbors": rng.choice([2, 4, 6, 6, 6, 9])}

    TABLE_SHARE = 0.16
    TABLE_NAMES = NAME_SCHEMES + [lambda i: "tissue %d" % (9 - i) if i < 10 else "tissue x%d" % i, lambda i: ["liver", "brain", "serum", "heart", "colon", "aorta", "ovary", "lung", "skin", "bone", "gut", "eye"][i % 12] + ("" if i < 12 else str(i))]

    def gen_table_case(self, rng):
        """one run of the quantification command line: evidence.txt with 2-11 experiments, label-free or SILAC
        (2 / 3 channels), optionally a Fraction column with precursors split over 1-3 fractions of an experiment
        (splits differing per experiment), optionally an experimental design / file list overriding experiment and
        fraction by raw file; multiplicative data (peptide factor x sample factor, exact integers) with optional
        noise, missing values, zeroed channels, duplicates of lower intensity, PEPs around the cutoff, MBR rows"""
        C = rng.choice([0, 0, 0, 2, 2, 3])
        use_frac = rng.random() < (0.7 if C == 0 else 0.35)
        nexp = rng.choice([2, 3, 3, 4, 5, 6] if C else [2, 3, 3, 4, 5, 6, 8, 11])
        scheme = rng.choice(self.TABLE_NAMES)
        exps = [scheme(i) for i in range(nexp)]
        nfr = rng.choice([2, 3, 3]) if use_frac else 0
        design = None
        if rng.random() < 0.4:
            design = {"format": rng.choice(["design", "filelist"]), "lines": []}
        garbage_exp = design is not None and rng.random() < 0.5
        garbage_frac = design is not None and use_frac and rng.random() < 0.5
        fraction_col = use_frac and (design is None or rng.random() < 0.6)
        noise = rng.random() < 0.4
        miss = rng.choice([0.0, 0.0, 0.1, 0.3])
        use_dups = rng.random() < 0.35
        AA = "ACDEFGHILMNQSTVWY"
        raws = {}

        def raw_of(ei, fr):
            if (ei, fr) not in raws:
                raws[(ei, fr)] = "r%dq%d" % (len(raws) + 1, rng.randint(10, 99))
            return raws[(ei, fr)]

        groups = []
        pid = 0
        pos = 0
        W = 12
        for gi in range(rng.choice([1, 2, 2, 3])):
            b = {e: [rng.randint(100, 1000) for _ in range(max(1, C))] for e in exps}
            rows = []
            npep = rng.randint(2, 7)
            for _p in range(npep):
                pep = "PEP%s%sK" % (AA[pid % 17], AA[(pid // 17) % 17])
                pid += 1
                for ch in ([2] if rng.random() < 0.75 else [2, 3]):
                    f = rng.randint(1, 50)
                    fracs = [-1] if not use_frac else sorted(rng.sample(range(1, nfr + 1), rng.randint(1, nfr)))
                    for ei, e in enumerate(exps):
                        if rng.random() < miss:
                            continue
                        # the split of the precursor over its fractions differs from experiment to experiment
                        cuts = sorted(rng.randint(1, W - 1) for _ in range(len(fracs) - 1))
                        ws = [hi - lo for lo, hi in zip([0] + cuts, cuts + [W])]
                        zero_ch = rng.randrange(C) if C and rng.random() < 0.15 else None
                        for fr, w in zip(fracs, ws):
                            if w == 0:
                                continue
                            vals = [f * b[e][c] * w * 10 for c in range(max(1, C))]
                            if noise:
                                vals = [int(v * math.exp(rng.gauss(0, 0.3))) + 1 for v in vals]
                            if zero_ch is not None:
                                vals[zero_ch] = 0
                            r = rng.random()
                            q = rng.choice([Fraction(1, 1000), Fraction(1, 10000)])
                            if r < 0.08:
                                q = rng.choice(PEP_GRID)
                            elif r < 0.11:
                                vals = [0] * len(vals)
                            todo = [(vals, q)]
                            if use_dups and rng.random() < 0.15 and sum(vals) > 100:
                                dd = rng.choice([2, 3, 7])
                                todo.append(([v // dd for v in vals], rng.choice(PEP_GRID)))
                            for vv, qq in todo:
                                rows.append([pep, ch, raw_of(ei, fr),
                                             ("X%d" % (ei % 2)) if garbage_exp else e,
                                             (1 if garbage_frac else fr) if fraction_col else -1,
                                             rat(sum(vv)), [rat(v) for v in vv] if C else [],
                                             "nan" if qq == "nan" else rat(qq), 0])
            if not rows:
                continue
            groups.append({"id": "P%d" % (gi + 1), "rows": rows, "b": b})
        if not groups:
            return self.gen_table_case(rng)
        allrows = [r for g in groups for r in g["rows"]]
        order = list(range(len(allrows)))
        rng.shuffle(order)
        for r, k in zip(allrows, order):
            r[8] = k
        if design is not None:
            lines = [[name + (".raw" if rng.random() < 0.3 else ""), exps[ei], (fr if use_frac else None)] for (ei, fr), name in raws.items()]
            if rng.random() < 0.25:
                lines.append(["unusedfile", "zz unused" if rng.random() < 0.5 else "a0", (1 if use_frac else None)])
            rng.shuffle(lines)
            design["lines"] = lines
        ncols = 10 + len(SILAC_NAMES[C]) + (1 if fraction_col else 0)
        col_order = list(range(ncols))
        if rng.random() < 0.6:
            rng.shuffle(col_order)
        nsamp = (nexp + 1) * max(1, C)
        return {
            "kind": "table",
            "channels": C,
            "exps": exps,
            "fraction_col": fraction_col,
            "design": design,
            "groups": groups,
            "minr": rng.choice([1, 2, 2, 3]),
            "stab": rng.random() < 0.5,
            "fast": rng.random() < 0.6,
            "psm_fdr": rat(rng.choice([Fraction(1, 100), Fraction(1, 100), Fraction(1, 20)])),
            "col_order": col_order,
            "empty_zero": rng.random() < 0.5,
            "via": "cli" if (nsamp < MIN_SAMPLES and rng.random() < 0.12 and not (design and design["format"] == "filelist")) else "inproc",
        }

    def gen_case(self, rng, tier):
        r = rng.random()
        if r < self.BATCH_SHARE:
            return self.gen_batch_case(rng)
        if r < self.BATCH_SHARE + self.GRAPH_SHARE:
            return self.gen_graph_case(rng)
        if r < self.BATCH_SHARE + self.GRAPH_SHARE + self.TABLE_SHARE:
            return self.gen_table_case(rng)
        n = rng.choice([3, 3, 4, 4, 5, 6, 7, 8, 9, 10, 10, 11, 12, 14, 16])
        fast = rng.random() < (0.6 if n >= 10 else 0.3)
        stab = rng.random() < 0.5
        minr = rng.choice([1, 2, 2, 2, 3])
        noise = rng.random() < 0.6
        miss = rng.choice([0.0, 0.1, 0.3, 0.3, 0.5])
        g = [rng.randint(100, 1000) for _ in range(n)]
        ngroups = rng.choice([1, 1, 2])
        use_frac = rng.random() < 0.3
        use_dups = rng.random() < 0.4
        odd_only = rng.random() < 0.35  # complete data with an odd peptide count: medians are antisymmetric
        groups = []
        pid = 0
        for _ in range(ngroups):
            if odd_only:
                npep = rng.choice([1, 3, 5, 7])
                miss_g = 0.0
            else:
                npep = rng.randint(1, 8) if not stab else rng.choice([2, 3, 6, 8, 12, 12, 14])
                miss_g = miss
            precs = []
            # under stabilisation give some samples few peptides (very unequal peptide counts)
            poor = set(rng.sample(range(n), rng.randint(0, n // 2))) if stab else set()
            # sometimes two blocks of samples with disjoint peptides: the pair graph has several components
            blocks = (not odd_only) and n >= 4 and rng.random() < 0.12
            cutb = rng.randint(2, n - 2) if blocks else n
            for _p in range(npep):
                pep = "PEP%s" % "ABCDEFGHIJKLMNOPQRSTUVWXYZ"[pid % 26] + ("" if pid < 26 else str(pid // 26))
                pid += 1
                charges = [2] if rng.random() < 0.7 or odd_only else [2, 3]
                for ch in charges:
                    f = rng.randint(1, 50)
                    fracs = [-1] if not use_frac else rng.sample([1, 2, 3], rng.randint(1, 2))
                    for s in range(n):
                        if rng.random() < miss_g:
                            continue
                        if s in poor and _p >= 2 and rng.random() < 0.85:
                            continue
                        if blocks and (s < cutb) != (_p % 2 == 0):
                            continue
                        for fr in fracs:
                            v = f * g[s] * (1 if fr in (-1, 1) else fr)
                            if noise:
                                v = int(v * math.exp(rng.gauss(0, 0.3))) + 1
                            r = rng.random()
                            q = Fraction(1, 1000)
                            if r < 0.08 and not odd_only:
                                q = rng.choice(PEP_GRID)
                            elif r < 0.12 and not odd_only:
                                v = 0
                            precs.append([pep, ch, s, fr, rat(v), "nan" if q == "nan" else rat(q)])
                            if use_dups and rng.random() < 0.15:
                                v2 = max(1, v // rng.choice([2, 3, 7])) if v else 5
                                q2 = rng.choice(PEP_GRID)
                                precs.append([pep, ch, s, fr, rat(v2), "nan" if q2 == "nan" else rat(q2)])
            rng.shuffle(precs)
            groups.append(precs)
        perm = list(range(n))
        rng.shuffle(perm)
        sch = rng.sample(range(len(NAME_SCHEMES)), 2)
        return {
            "n": n,
            "groups": groups,
            "cutoff": rat(CUTOFF),
            "minr": minr,
            "stab": stab,
            "fast": fast,
            "names": [NAME_SCHEMES[sch[0]](i) for i in range(n)],
            "g": g,
            "meta": {
                "perm": perm,
                "scale": rat(rng.choice([Fraction(2), Fraction(3), Fraction(1, 2), Fraction(10), Fraction(1, 4)])),
                "names2": [NAME_SCHEMES[sch[1]](i) for i in range(n)],
                "shuffle": rng.randint(0, 10**9),
            },
        }

    # -- the implementation ---------------------------------------------------------------------
    def _base(self, case, groups=None, names=None, order=None, record=True):
        n = case["n"]
        return run_append(
            n,
            case["groups"] if groups is None else groups,
            case["names"] if names is None else names,
            list(range(n)) if order is None else order,
            unrat(case["cutoff"]),
            case["minr"],
            case["stab"],
            case["fast"],
            record=record,
        )

    def run_impl(self, case):
        if case.get("kind") == "graph":
            nodes, full, pnodes, pruned = run_prune(case["samples"], case["min_neighbors"], case["avg_neighbors"])
            return {"nodes": nodes, "full": full, "pnodes": pnodes, "pruned": pruned}
        if case.get("kind") == "table":
            return self.run_impl_table(case)
        n = case["n"]
        outs, rec = self._base(case)
        recg = rec["groups"]
        observed = len(recg) == len(case["groups"])
        if not observed:
            # the observation point _getLFQIntensities is gone or is called another number of times: the stage-A
            # data are "not observed" (the views then differ: correspondence side); the LFQ values themselves come
            # from the result objects and are still judged by the oracle (audit-3 X3)
            recg = [{} for _ in case["groups"]]
        res = []
        ys = []
        for out, r in zip(outs, recg):
            g = impl_group_view(r, case["stab"])
            if not observed:
                g["observed"] = False
            g["lfq"] = out
            res.append(g)
            ys.append(r.get("y"))
        return {"groups": res, "_rec": {"graph": rec["graph"], "y": ys, "vector": [r.get("vector") for r in recg]}}

    def run_impl_table(self, case):
        header, body, rec, seen = run_table(case)
        ids = [row[header.index("Protein IDs")] for row in body]
        by_id = {row[header.index("Protein IDs")]: row for row in body}
        out = {"headers": [h for h in header if h.startswith("LFQ Intensity ")], "ids": ids, "groups": []}
        inproc = case.get("via") != "cli"
        if inproc and not seen and not out["headers"]:
            inproc = False  # LFQIntensityColumns.is_valid was false (a single experiment): no LFQ columns, nothing recorded
            out["no_lfq"] = True
        recof = {}
        if inproc:
            out["experiments"] = seen.get("experiments")
            # the k-th recorded _getLFQIntensities call belongs to the k-th protein group HANDED to append_columns
            # (pairing by identifier, never by the position of the written row: C11 is silent on the row order and
            # the cells are read by 'Protein IDs', audit-3 C11-7).  When the two do not line up (helper gone, another
            # number of calls, identifiers repeated) the stage-A data are "not observed": the views then differ
            # (correspondence side) and nothing is raised.
            sids = seen.get("ids")
            if isinstance(sids, list) and len(sids) == len(rec["groups"]) and len(set(sids)) == len(sids):
                recof = dict(zip(sids, rec["groups"]))
        used = []
        for pid in ids:
            if inproc:
                r = recof.get(pid)
                g = impl_group_view(r if r is not None else {}, case["stab"])
                if r is None:
                    g["observed"] = False
                    r = {}
                g["lfq"] = r.get("out")
                used.append(r)
            else:
                g = {}
            g["id"] = pid
            g["named"] = table_group_named(header, by_id[pid])
            out["groups"].append(g)
        out["_rec"] = {"graph": rec["graph"], "y": [r.get("y") for r in used], "vector": [r.get("vector") for r in used],
                       "cutoff": seen.get("cutoff"), "channels": seen.get("channels")}
        return out

    # -- the model --------------------------------------------------------------------------------
    def model_request_table(self, case, impl_out):
        import numpy as np

        if case.get("via") == "cli" or not isinstance(impl_out, dict) or "groups" not in impl_out or impl_out.get("no_lfq"):
            return None  # subprocess runs: nothing recorded, the oracle alone reads the written table
        m, _ = table_design(case)
        by_id = {g["id"]: g for g in case["groups"]}
        groups, sols = [], []
        for g, y in zip(impl_out["groups"], impl_out["_rec"]["y"]):
            rows = sorted(by_id[g["id"]]["rows"], key=lambda r: r[8])
            groups.append([[r[0], r[1], r[2], r[3], r[4], r[5], r[6], r[7]] for r in rows])
            sols.append(None if y is None else [rat(float(v)) for v in np.exp(np.array(y))])
        return {
            "op": "lfqTable",
            "channels": case["channels"],
            "tmt": 0,
            "design": None if m is None else [[k, v[0], v[1]] for k, v in m.items()],
            "groups": groups,
            "cutoff": rat(table_cutoff(case)),
            "minr": case["minr"],
            "stab": case["stab"],
            "graph": impl_out["_rec"]["graph"] if case["fast"] else None,
            "minSamples": MIN_SAMPLES,
            "solutions": sols,
        }

    def model_view_table(self, case, resp, impl_out):
        if "groups" not in resp:
            return resp
        ns = len(resp["experiments"]) * max(1, case["channels"])
        out = {"experiments": resp["experiments"], "headers": resp["headers"], "ids": impl_out["ids"], "groups": []}
        for r, y, g in zip(resp["groups"], impl_out["_rec"]["y"], impl_out["groups"]):
            v = self._model_group_view(r, y, ns)
            v["id"] = g["id"]
            v["named"] = None if r.get("named") is None else [[h, fl(x)] for h, x in r["named"]]
            out["groups"].append(v)
        return out

    def impl_view(self, case, impl_out):
        v = Prop.impl_view(self, case, impl_out)
        if case.get("kind") == "table" and isinstance(v, dict) and "groups" in v:
            v = dict(v)
            v["groups"] = [dict(g, named=[[h, float(t) if t != "" else float("nan")] for h, t in g["named"]]) for g in v["groups"]]
        return v

    def model_request(self, case, impl_out):
        import numpy as np

        if case.get("kind") == "graph":
            return None  # build_graph / prune_graph are not modelled: contract checked by the oracle
        if case.get("kind") == "table":
            return self.model_request_table(case, impl_out)
        n = case["n"]
        graph = impl_out["_rec"]["graph"] if case["fast"] else None
        reqs = []
        for g, y in zip(case["groups"], impl_out["_rec"]["y"]):
            sol = None
            if y is not None:
                sol = [rat(float(v)) for v in np.exp(np.array(y))]
            reqs.append(
                {
                    "op": "lfqA",
                    "n": n,
                    "precs": g,
                    "cutoff": case["cutoff"],
                    "minr": case["minr"],
                    "stab": case["stab"],
                    "graph": graph,
                    "minSamples": MIN_SAMPLES,
                    "solution": sol,
                }
            )
        return reqs

    def model_view(self, case, resp, impl_out):
        if case.get("kind") == "table":
            return self.model_view_table(case, resp, impl_out)
        n = case["n"]
        out = []
        for r, y in zip(resp, impl_out["_rec"]["y"]):
            out.append(self._model_group_view(r, y, n))
        return {"groups": out}

    def _model_group_view(self, r, y, n):
        import numpy as np

        if True:
            if "keys" not in r:
                return r
            g = {}
            g["rows"] = sorted(
                [k[0], k[1], [rat(unrat(r["cols"][s][ri])) for s in range(n)]] for ri, k in enumerate(r["keys"])
            )
            g["total"] = rat(unrat(r["total"]))
            eqs = r["eqs"]
            g["pairs"] = sorted([e["i"], e["j"]] for e in eqs)
            g["ratios"] = sorted([e["i"], e["j"], math.log(fl(e["ratio"]))] for e in eqs)
            bs = []
            for e in eqs:
                w = unrat(e["w"])
                bs.append([e["i"], e["j"], rhs({"w": w, "r": unrat(e["ratio"]), "sr": unrat(e["sratio"])})])
            g["b"] = sorted(bs)
            if eqs:
                g["matrix"] = sorted(r["matrix"])
                # certificate: the implementation's solution against the MODEL's system
                A = np.array(r["matrix"], dtype=float)
                b = np.array([x[2] for x in bs] + [0.0] * (len(r["matrix"]) - len(bs)))  # model order = eqs order
                g["vector"] = [float(x) for x in b]
                if y is None:
                    g["cert"] = "no lsqr solution recorded"
                else:
                    yy = np.array(y)
                    res = A @ yy - b
                    grad = A.T @ res
                    nA, nr, nb, ny = (float(np.linalg.norm(v)) for v in (A, res, b, yy))
                    ng = float(np.linalg.norm(grad))
                    # converged to rounding level, or one of lsqr's two documented stopping rules (slack 4)
                    ok = (
                        ng <= TOL_CERT * max(1.0, nb)
                        or ng <= 4 * LSQR_TOL * nA * nr
                        or nr <= 4 * LSQR_TOL * (nb + nA * ny)
                    )
                    g["cert"] = True if ok else "normal equations violated: |A^T(Ay-b)| = %g, |A| = %g, |r| = %g" % (ng, nA, nr)
            else:
                g["matrix"] = None
                g["cert"] = True
            g["lfq"] = None if r["lfq"] is None else [fl(x) for x in r["lfq"]]
            return g

    def equal(self, a, b):
        try:
            ga, gb = a["groups"], b["groups"]
            if len(ga) != len(gb):
                return False
            if "headers" in a or "headers" in b:  # written-table cases
                for k in ("experiments", "headers", "ids"):
                    if a[k] != b[k]:
                        return False
                for x, y in zip(ga, gb):
                    if x["id"] != y["id"] or x["named"] is None or y["named"] is None or len(x["named"]) != len(y["named"]):
                        return False
                    for (h1, v1), (h2, v2) in zip(x["named"], y["named"]):
                        # one side is the text written with '%.0f', the other the exact value
                        if h1 != h2 or not abs(v1 - v2) <= TABLE_SLACK + 1e-9 * max(abs(v1), abs(v2)):
                            return False
            for x, y in zip(ga, gb):
                if x.get("observed") is False or y.get("observed") is False:
                    return False  # an observation point of the recorder is gone: correspondence not shown
                for k in ("rows", "total", "pairs", "matrix"):
                    if x[k] != y[k]:
                        return False
                if x["cert"] is not True or y["cert"] is not True:
                    return False
                for k in ("ratios", "b"):
                    if len(x[k]) != len(y[k]):
                        return False
                    for u, v in zip(x[k], y[k]):
                        if u[:2] != v[:2] or not close_abs(u[2], v[2], TOL_A):
                            return False
                if x["matrix"] is not None:
                    if len(x["vector"]) != len(y["vector"]):
                        return False
                    # the right-hand side as a multiset paired with the rows is covered by "b"; tails are zeros
                    if any(t != 0.0 for t in x["vector"][len(x["b"]):]) or any(t != 0.0 for t in y["vector"][len(y["b"]):]):
                        return False
                if x["lfq"] is None or y["lfq"] is None or len(x["lfq"]) != len(y["lfq"]):
                    return False
                for u, v in zip(x["lfq"], y["lfq"]):
                    if not close(u, v, TOL_A):
                        return False
            return True
        except Exception:
            return False

    # -- the property -----------------------------------------------------------------------------
    def _graph_active(self, case, impl_out):
        if case.get("kind") == "graph" or not case["fast"]:
            return False
        graph = (impl_out or {}).get("_rec", {}).get("graph") if isinstance(impl_out, dict) else None
        for g in case["groups"]:
            sp = spec(case["n"], g, unrat(case["cutoff"]), case["minr"], case["stab"], graph or [])
            if len(sp["valid"]) >= MIN_SAMPLES:
                return True
        return False

    def _even_median_flip(self, case, impl_out):
        """some valid pair whose median is not antisymmetric (even number of shared peptides, unequal middle
        ratios, weight of the median > 0) has its orientation flipped by the case's sample permutation"""
        if case.get("kind") == "graph":
            return False
        perm = case["meta"]["perm"]
        graph = None
        if case["fast"] and isinstance(impl_out, dict):
            graph = impl_out.get("_rec", {}).get("graph")
        for g in case["groups"]:
            sp = spec(case["n"], g, unrat(case["cutoff"]), case["minr"], case["stab"], graph)
            for e in sp["eqs"]:
                if e["w"] < 1 and e["r"] * e["rinv"] != 1 and perm[e["i"]] > perm[e["j"]]:
                    return True
        return False

    def _failures(self, case, impl_out):
        """yields (category, reason) for every part of the property that fails, in a fixed order"""
        if case.get("kind") == "graph":
            if not isinstance(impl_out, dict) or "pruned" not in impl_out:
                yield "graph-contract", "graph-contract: no graph returned: %r" % (impl_out,)
                return
            why = check_graph_contract(impl_out["nodes"], impl_out["full"], impl_out["pnodes"], impl_out["pruned"])
            if why:
                yield "graph-contract", "graph-contract: %s (min_neighbors=%d, avg_neighbors=%d)" % (why, case["min_neighbors"], case["avg_neighbors"])
            return
        if case.get("kind") == "table":
            yield from self._table_failures(case, impl_out)
            return
        if not isinstance(impl_out, dict) or "groups" not in impl_out:
            if impl_out is not None:
                yield "direct", "no LFQ output: %r" % (impl_out,)
            return
        n = case["n"]
        cutoff = unrat(case["cutoff"])
        graph = impl_out["_rec"]["graph"] if case["fast"] else None
        base = [g["lfq"] for g in impl_out["groups"]]
        # 1. the statement itself, group by group
        for gi, (g, out) in enumerate(zip(case["groups"], base)):
            why = check_group_direct(n, g, cutoff, case["minr"], case["stab"], graph, out, case.get("g"))
            if why:
                yield "direct", "group %d: %s" % (gi, why)
        # 1b. consistent data, every pair of samples shares enough peptides: proportional to the sample factors
        #     whatever FastLFQ does (does not use the recorded graph)
        for gi, (g, out) in enumerate(zip(case["groups"], base)):
            _, why = check_consistent_all_pairs(n, g, cutoff, case["minr"], case["stab"], out, case.get("g"))
            if why:
                yield "consistent-all-pairs", "group %d: %s" % (gi, why)
        # 1c. graph level: the FastLFQ sample graph is connected whenever the unpruned one is — for the graph
        #     append_columns used (recorded) and for prune_graph(build_graph(.)) on this case's peptide sets
        if graph is not None and not is_connected(range(n), graph):
            yield "graph-contract", "graph-contract: the FastLFQ sample graph used by append_columns does not connect the %d samples (edges %r)" % (n, graph)
        sets = [sorted({p[0] for g in case["groups"] for p in g if p[2] == s}) for s in range(n)]
        why = check_graph_contract(*run_prune(sets))
        if why:
            yield "graph-contract", "graph-contract: %s; peptide sets per sample %r" % (why, sets)
        meta = case["meta"]
        # 2. precursor order
        rng = random.Random(meta["shuffle"])
        shuffled = []
        for g in case["groups"]:
            h = list(g)
            rng.shuffle(h)
            shuffled.append(h)
        o2, _ = self._base(case, groups=shuffled, record=False)
        for gi in range(len(base)):
            if not vec_close(base[gi], o2[gi], TOL_META):
                yield "precursor-order", "precursor-order: group %d LFQ %r became %r after shuffling the precursor list" % (gi, base[gi], o2[gi])
        # 3. scaling
        c = unrat(meta["scale"])
        scaled = [[[p[0], p[1], p[2], p[3], rat(unrat(p[4]) * c), p[5]] for p in g] for g in case["groups"]]
        o3, _ = self._base(case, groups=scaled, record=False)
        for gi in range(len(base)):
            if not vec_close([x * fl(c) for x in base[gi]], o3[gi], TOL_META):
                yield "scaling", "scaling: group %d LFQ x %s = %r but scaled input gives %r" % (gi, c, [x * fl(c) for x in base[gi]], o3[gi])
        # 4. renaming the experiments
        o4, _ = self._base(case, names=meta["names2"], record=False)
        for gi in range(len(base)):
            if not vec_close(base[gi], o4[gi], TOL_META):
                yield "renaming", "renaming: group %d LFQ %r became %r after renaming the experiments %r -> %r" % (
                    gi, base[gi], o4[gi], case["names"], meta["names2"])
        # 5. sample permutation; sample s moves to column perm[s]
        perm = meta["perm"]
        order = [0] * n
        for s, c2 in enumerate(perm):
            order[c2] = s
        even = self._even_median_flip(case, impl_out)
        if graph is not None:
            # 5a. FastLFQ: the recorded graph transported by the permutation (isolates prune_graph)
            tg = [[perm[u], perm[v]] for u, v in graph]
            for gi, g in enumerate(case["groups"]):
                ident = run_direct(n, g, list(range(n)), cutoff, case["minr"], case["stab"], graph)
                if not vec_close(base[gi], ident, TOL_META):
                    yield "direct-call", "direct-call: group %d _getLFQIntensities with the recorded graph gives %r, append_columns gave %r" % (gi, ident, base[gi])
                if not even:
                    o5 = run_direct(n, g, order, cutoff, case["minr"], case["stab"], tg)
                    tol5 = 2 * ls_tolerance(n, g, cutoff, case["minr"], case["stab"], graph)
                    if not vec_close(base[gi], o5, tol5):
                        yield "sample-permutation[graph-transported]", "sample-permutation[graph-transported]: group %d LFQ %r became %r under the sample permutation %r" % (gi, base[gi], o5, perm)
        o6, rec6 = self._base(case, order=order, record=True)
        # the statement itself on the permuted input (with the graph the implementation used there)
        g6 = rec6["graph"] if case["fast"] else None
        for gi, g in enumerate(case["groups"]):
            pg = [[p[0], p[1], perm[p[2]], p[3], p[4], p[5]] for p in g]
            pout = [0.0] * n
            for s in range(n):
                pout[perm[s]] = o6[gi][s]
            why = check_group_direct(n, pg, cutoff, case["minr"], case["stab"], g6, pout, None)
            if why:
                yield "direct-permuted", "group %d after sample permutation %r: %s" % (gi, perm, why)
        # 5b. sharp: the right-hand sides of the permuted run are the transported right-hand sides (sign by
        #     orientation) — this does not pass through lsqr, so 1e-9
        for gi in range(len(base)):
            if impl_out["groups"][gi].get("observed") is False or len(rec6["groups"]) != len(base) or not (
                    {"b", "ratios"} & set(rec6["groups"][gi])) and impl_out["groups"][gi]["b"]:
                continue  # right-hand sides not observed (helper renamed/inlined): 5c below still judges the values
            b0 = {(i, j): v for i, j, v in impl_out["groups"][gi]["b"]}
            r6 = rec6["groups"][gi]
            d6 = (r6.get("b", r6.get("ratios", {})) if case["stab"] else r6.get("ratios", {})) or {}
            b6 = {(int(i), int(j)): float(v) for (i, j), v in d6.items()}
            want = {}
            for (i, j), v in b0.items():
                pi, pj = perm[i], perm[j]
                want[(pi, pj) if pi < pj else (pj, pi)] = v if pi < pj else -v
            if set(want) != set(b6):
                yield "sample-permutation[e2e]", "sample-permutation[e2e]: group %d: the valid sample pairs %r became %r (expected %r) under the sample permutation %r" % (
                    gi, sorted(b0), sorted(b6), sorted(want), perm)
                continue
            bad = [(k, want[k], b6[k]) for k in sorted(want) if not abs(want[k] - b6[k]) <= TOL_META * max(1.0, abs(want[k]))]
            if bad:
                yield "sample-permutation[e2e]", "sample-permutation[e2e]: group %d: log ratio of pair %r should be %r after the sample permutation %r, is %r" % (
                    gi, bad[0][0], bad[0][1], perm, bad[0][2])
        # 5c. the LFQ intensities themselves (two different lsqr runs: tolerance from lsqr's stopping rules)
        for gi, g in enumerate(case["groups"]):
            pg = [[p[0], p[1], perm[p[2]], p[3], p[4], p[5]] for p in g]
            tol6 = ls_tolerance(n, g, cutoff, case["minr"], case["stab"], graph) + ls_tolerance(
                n, pg, cutoff, case["minr"], case["stab"], g6)
            if not vec_close(base[gi], o6[gi], tol6):
                yield "sample-permutation[e2e]", "sample-permutation[e2e]: group %d LFQ %r became %r (re-indexed) under the sample permutation %r" % (gi, base[gi], o6[gi], perm)

    def _table_failures(self, case, impl_out):
        """the property on the WRITTEN table: the value under the header 'LFQ Intensity [<channel> ]<experiment>' is
        taken as the LFQ intensity of that sample; expected values come from the evidence rows of the case alone
        (own aggregation over fractions, own channel expansion, Fractions + lstsq)"""
        if not isinstance(impl_out, dict) or "groups" not in impl_out:
            if impl_out is not None:
                yield "table-direct", "table: no written table: %r" % (impl_out,)
            return
        C = case["channels"]
        chans = SILAC_NAMES[C] or [None]
        exps, _where = table_samples(case)
        ns = len(exps) * len(chans)
        names = [lfq_header(e, ch) for e in exps for ch in chans]  # sample s = experiment index * C + channel index
        got = impl_out["headers"]
        if len(exps) > 1:
            miss = [h for h in names if got.count(h) != 1]
            extra = [h for h in got if h not in names]
            if miss or extra:
                yield "table-headers", "table: LFQ columns %r; expected one column for each of %r" % (got, names)
                return
        else:
            return
        cutoff = table_cutoff_for_oracle(case, impl_out)
        if cutoff is None:
            return  # near-tie of the PEP scan and the cutoff of the run was not observed: not judged
        graph = impl_out.get("_rec", {}).get("graph") if case["fast"] else None
        by_id = {g["id"]: g for g in impl_out["groups"]}
        # The samples are NUMBERED in the order in which their names appear in the written table: the orientation of a
        # pair (which sample is the numerator of the median ratio) follows the column order, and the medians of an even
        # number of ratios are not antisymmetric (known finding lfq-even-median-orientation) — the property does not
        # fix the column order, so the expectation must not depend on it.  Values are still taken by NAME.
        pos = [got.index(h) for h in names]  # oracle sample s -> number
        names = [h for h in got if h in set(names)]
        renum = lambda ps: [[p[0], p[1], pos[p[2]], p[3], p[4], p[5]] for p in ps]
        label = lambda s: "'%s'" % names[s]
        for g in case["groups"]:
            if g["id"] not in by_id:
                yield "table-direct", "table: protein group %s has evidence rows but no row in the written table" % g["id"]
                continue
            cells = dict((h, t) for h, t in by_id[g["id"]]["named"])
            try:
                out = [float(cells[h]) for h in names]
            except ValueError:
                yield "table-direct", "table: group %s: LFQ cells %r are not numbers" % (g["id"], cells)
                continue
            sel, allp = table_precursors(case, g, cutoff)
            sel, allp = renum(sel), renum(allp)
            gfac0 = [g["b"].get(e, [1] * len(chans))[c] for e in exps for c in range(len(chans))]
            gfac = [0] * ns
            for s0, t in enumerate(pos):
                gfac[t] = gfac0[s0]
            why = check_group_direct(ns, sel, cutoff, case["minr"], case["stab"], graph, out, gfac, TABLE_SLACK, allp, label)
            if why:
                yield "table-direct", "table: group %s (%d experiments x %d channels, read by header name): %s" % (g["id"], len(exps), C, why)
            _, why = check_consistent_all_pairs(ns, sel, cutoff, case["minr"], case["stab"], out, gfac, TABLE_SLACK, allp, label)
            if why:
                yield "table-consistent", "table: group %s (%d experiments x %d channels, read by header name): %s" % (g["id"], len(exps), C, why)
        if graph is not None and not is_connected(range(ns), graph):
            # only where the graph is used: some group has >= MIN_SAMPLES valid sample columns
            for g in case["groups"]:
                sel, allp = table_precursors(case, g, cutoff)
                sel, allp = renum(sel), renum(allp)
                if len(spec(ns, sel, cutoff, case["minr"], case["stab"], None, allp)["valid"]) >= MIN_SAMPLES:
                    yield "graph-contract", "graph-contract: the FastLFQ sample graph used by append_columns does not connect the %d samples (%d experiments x %d channels; edges %r)" % (
                        ns, len(exps), max(1, C), graph)
                    break

    def _table_applies(self, case, impl_out):
        """for how many groups the consistent-data statement applies (hypotheses hold)"""
        if not isinstance(impl_out, dict) or "groups" not in impl_out:
            return 0
        C = case["channels"]
        chans = SILAC_NAMES[C] or [None]
        exps, _ = table_samples(case)
        ns = len(exps) * len(chans)
        cutoff = table_cutoff(case)
        k = 0
        for g in case["groups"]:
            sel, allp = table_precursors(case, g, cutoff)
            gfac = [g["b"].get(e, [1] * len(chans))[c] for e in exps for c in range(len(chans))]
            if check_consistent_all_pairs(ns, sel, cutoff, case["minr"], case["stab"], [1.0] * ns, gfac, 0.0, allp)[0]:
                k += 1
        return k

    def _perm_region(self, case, impl_out, cat):
        """which known region a sample-permutation failure lies in: "even", "fastlfq" or None (strict)"""
        if self._even_median_flip(case, impl_out):
            return "even"
        if cat.endswith("[e2e]") and self._graph_active(case, impl_out):
            return "fastlfq"
        return None

    def oracle(self, case, impl_out):
        """first failing part of the property.  A case produced by `shrink` carries "_focus": then only a
        failure of that category counts (and, for the sample permutation, only in the same region: strict /
        "even" / "fastlfq", recorded as "_focus_known"), so that shrinking cannot drift from one defect into another."""
        focus = case.get("_focus")
        for cat, why in self._failures(case, impl_out):
            if focus is None:
                return why
            if cat != focus:
                continue
            if cat.startswith("sample-permutation") and self._perm_region(case, impl_out, cat) != case.get("_focus_known"):
                continue
            return why
        return None

    # -- known findings ---------------------------------------------------------------------------
    def kf_fastlfq_permutation(self, case, impl_out, rec):
        """sample-permutation failure of the end-to-end run while the FastLFQ edge filter is active
        (fast_lfq on and >= 10 valid samples in some group).  The finding is recognised by its own signature
        (category of the oracle failure + region of the case) whether or not the model also disagrees on this
        case (audit-3 C11-5: a change that only breaks the correspondence must not turn it into a fresh failing
        input; the broken correspondence is still reported from the cases outside the two known regions)."""
        o = rec.get("oracle")
        if not isinstance(o, str) or not o.startswith("sample-permutation[e2e]"):
            return False
        return self._graph_active(case, impl_out)

    def kf_even_median_orientation(self, case, impl_out, rec):
        """sample-permutation failure where the permutation flips the orientation of a valid pair whose
        median ratio is not antisymmetric (even shared-peptide count, unequal middle ratios); recognised by its
        own signature, independent of the correspondence (audit-3 C11-5)"""
        o = rec.get("oracle")
        if not isinstance(o, str) or not o.startswith("sample-permutation"):
            return False
        return self._even_median_flip(case, impl_out)

    # -- bookkeeping ------------------------------------------------------------------------------
    def nontrivial(self, case, impl_out):
        if case.get("kind") == "graph":  # pruning removed edges of a graph with at least 8 samples
            return isinstance(impl_out, dict) and len(impl_out.get("nodes", [])) >= 8 and len(impl_out.get("pruned", [])) < len(impl_out.get("full", []))
        if case.get("kind") == "table":  # some LFQ cell of the written table is positive
            return isinstance(impl_out, dict) and any(t not in ("", "0") for g in impl_out.get("groups", []) for _h, t in g.get("named", []))
        return isinstance(impl_out, dict) and any(g.get("pairs") for g in impl_out.get("groups", []))

    def features(self, case, impl_out):
        f = []
        if case.get("kind") == "graph":
            k = len(case["samples"])
            f = ["kind=graph-only", "graph-only:n=%s" % ("4-9" if k <= 9 else "10-19" if k <= 19 else "20-40")]
            if isinstance(impl_out, dict) and "pruned" in impl_out:
                zero_overlap = {tuple(e) for e in impl_out["full"] if not set(case["samples"][e[0]]) & set(case["samples"][e[1]])}
                if any(tuple(e) in zero_overlap for e in impl_out["pruned"]):
                    f.append("graph-only:bridge-without-shared-peptides-kept")
                if len(impl_out["pruned"]) < len(impl_out["full"]):
                    f.append("graph-only:pruned")
            return f
        if case.get("kind") == "table":
            C = case["channels"]
            exps, where = table_samples(case)
            rows = [r for g in case["groups"] for r in g["rows"]]
            f = ["kind=table", "table:via=%s" % case.get("via", "inproc"), "table:channels=%d" % C,
                 "table:samples=%s" % ("<10" if len(exps) * max(1, C) < 10 else ">=10"),
                 "table:design=%s" % (case["design"]["format"] if case.get("design") else "none"),
                 "table:fraction-column=%s" % case["fraction_col"], "table:stab=%s" % case["stab"], "table:fast=%s" % case["fast"]]
            cells = {}
            for r in rows:
                e, fr = where(r)
                cells.setdefault((r[0], r[1], e), set()).add(fr)
            if any(len(v) > 1 for v in cells.values()):
                f.append("table:precursor-split-over-fractions")
            if case.get("design") and any(where(r) != (r[3], r[4]) for r in rows):
                f.append("table:design-overrides-evidence-cells")
            if len(exps) > len({where(r)[0] for r in rows}):
                f.append("table:experiment-without-rows")
            if exps != sorted(exps):
                f.append("table:experiments-not-in-name-order")
            k = self._table_applies(case, impl_out)
            if k:
                f.append("table:consistent-statement-applies")
            return f
        n = case["n"]
        if "batches" in case:
            f.append("batch-structured")
        f.append("n=%s" % ("3-5" if n <= 5 else "6-9" if n <= 9 else "10-16"))
        f.append("minr=%d" % case["minr"])
        f.append("stab=%s" % case["stab"])
        f.append("fast=%s" % case["fast"])
        if not isinstance(impl_out, dict) or "groups" not in impl_out:
            return f + ["no-output"]
        if self._graph_active(case, impl_out):
            f.append("fastlfq-filter-active")
        if self._even_median_flip(case, impl_out):
            f.append("perm-flips-nonantisymmetric-median")
        else:
            f.append("perm-strict")
        graph = impl_out["_rec"]["graph"] if case["fast"] else None
        for g, io in zip(case["groups"], impl_out["groups"]):
            if check_consistent_all_pairs(n, g, unrat(case["cutoff"]), case["minr"], case["stab"], io["lfq"], case.get("g"))[0]:
                f.append("group:consistent-all-pairs-statement-applies" + ("[fastlfq-filter-active]" if case["fast"] and n >= MIN_SAMPLES else ""))
            sp = spec(n, g, unrat(case["cutoff"]), case["minr"], case["stab"], graph)
            if not sp["eqs"]:
                f.append("group:no-pairs")
                continue
            comps = components(n, sp["eqs"])
            f.append("group:connected" if len(comps) == 1 else "group:several-components")
            if sum(len(c) for c in comps) < n:
                f.append("group:has-zero-samples")
            if any(e["w"] == 1 for e in sp["eqs"]):
                f.append("group:stab-full")
            if any(0 < e["w"] < 1 for e in sp["eqs"]):
                f.append("group:stab-weighted")
            if any(e["nshared"] % 2 == 0 for e in sp["eqs"]):
                f.append("group:even-median")
        if any(p[3] != -1 for g in case["groups"] for p in g):
            f.append("fractions")
        if any(p[5] == "nan" for g in case["groups"] for p in g):
            f.append("mbr-nan-pep")
        return f

    def shrink(self, case):
        if case.get("kind") == "graph":
            sm = case["samples"]
            for i in range(len(sm)):
                if len(sm) > 2:
                    yield dict(case, samples=sm[:i] + sm[i + 1 :])
            for pep in sorted({p for x in sm for p in x}):
                yield dict(case, samples=[[p for p in x if p != pep] for x in sm])
            return
        if case.get("kind") == "table":
            yield from self._shrink_table(case)
            return
        n = case["n"]
        groups = case["groups"]
        focus = case.get("_focus")
        known = case.get("_focus_known")
        if focus is None:
            # category of the failure being minimised (first one the oracle reports)
            try:
                io = self.run_impl(case)
                first = next(iter(self._failures(case, io)), None)
            except Exception:
                first = None
            if first is not None:
                focus = first[0]
                if focus.startswith("sample-permutation"):
                    known = self._perm_region(case, io, focus)

        def mk(**kw):
            c = dict(case)
            c["meta"] = dict(case["meta"])
            c.update(kw)
            if focus is not None:
                c["_focus"] = focus
                if known:
                    c["_focus_known"] = known
            return c

        if len(groups) > 1:
            for i in range(len(groups)):
                yield mk(groups=groups[:i] + groups[i + 1 :])
        # drop the last sample
        if n > 2:
            s = n - 1
            perm = case["meta"]["perm"]
            ps = perm[s]
            np_ = [p - 1 if p > ps else p for p in perm[:s]]
            c = mk(n=n - 1, groups=[[p for p in g if p[2] != s] for g in groups], names=case["names"][:s], g=case["g"][:s])
            c["meta"]["perm"] = np_
            c["meta"]["names2"] = case["meta"]["names2"][:s]
            if "batches" in case:
                c["batches"] = case["batches"][:s]
            yield c
        # drop whole peptides, then single precursors
        for gi, g in enumerate(groups):
            for pep in sorted({p[0] for p in g}):
                yield mk(groups=groups[:gi] + [[p for p in g if p[0] != pep]] + groups[gi + 1 :])
        for gi, g in enumerate(groups):
            if len(g) <= 40:
                for i in range(len(g)):
                    yield mk(groups=groups[:gi] + [g[:i] + g[i + 1 :]] + groups[gi + 1 :])
        if case["minr"] > 1:
            yield mk(minr=case["minr"] - 1)
        if case["stab"]:
            yield mk(stab=False)
        if case["fast"]:
            yield mk(fast=False)

    def _shrink_table(self, case):
        focus = case.get("_focus")
        if focus is None:
            try:
                io = self.run_impl(case)
                first = next(iter(self._failures(case, io)), None)
            except Exception:
                first = None
            if first is not None:
                focus = first[0]

        def mk(**kw):
            c = dict(case)
            c.update(kw)
            if focus is not None:
                c["_focus"] = focus
            return c

        groups = case["groups"]
        if len(groups) > 1:
            for i in range(len(groups)):
                yield mk(groups=groups[:i] + groups[i + 1 :])
        # drop an experiment (by its evidence rows; design lines of unused raw files are harmless)
        _exps, where = table_samples(case)
        used = sorted({where(r)[0] for g in groups for r in g["rows"]})
        if len(used) > 2:
            for e in used:
                gs = [dict(g, rows=[r for r in g["rows"] if where(r)[0] != e]) for g in groups]
                if all(g["rows"] for g in gs):
                    c = mk(groups=gs)
                    if case.get("design"):
                        c["design"] = dict(case["design"], lines=[ln for ln in case["design"]["lines"] if ln[1] != e])
                    yield c
        for gi, g in enumerate(groups):
            for pep in sorted({r[0] for r in g["rows"]}):
                rows = [r for r in g["rows"] if r[0] != pep]
                if rows:
                    yield mk(groups=groups[:gi] + [dict(g, rows=rows)] + groups[gi + 1 :])
        for gi, g in enumerate(groups):
            if 1 < len(g["rows"]) <= 40:
                for i in range(len(g["rows"])):
                    yield mk(groups=groups[:gi] + [dict(g, rows=g["rows"][:i] + g["rows"][i + 1 :])] + groups[gi + 1 :])
        if case.get("col_order"):
            yield mk(col_order=None)
        if case["minr"] > 1:
            yield mk(minr=case["minr"] - 1)
        if case["stab"]:
            yield mk(stab=False)
        if case["fast"]:
            yield mk(fast=False)
