"""C13 — output tables are rectangular, uniquely headed, re-readable; the FDR filter tool is exact.

Correspondence (real code vs the Lean model PgFdr.C13, ops table / table_gen / table_write / csv /
parse_mq / fdrfilter):

  table    a generated ProteinGroupResults (identifiers with tabs, quotes, ';', experiments with
           awkward and colliding names) goes through the REAL writer (MaxQuant with and without
           LFQ, DIA-NN, minimal): every column generator's append_headers / append_columns is
           observed (names and number of headers, number of values per row) and compared with the
           model's header / value-shape function; the file the real writer produces is compared
           byte for byte with the model's `writeTable` applied to the real cells; the file is
           re-read with parse_mq_protein_groups_file and compared with the model's `parseMq`.
  csv      tsv.get_tsv_writer / get_tsv_reader vs formatRows / parseText, on field lists and on a
           malformed raw-text stream.
  filter   filter_fdr_maxquant.filterProteinGroupsAtFDR on files whose q-values sit on the cutoff.
  parsemq  parse_mq_protein_groups_file on hand-made files (missing / permuted base columns,
           additional headers, short rows, bad numbers).

`float()` / `int()` are parameters of the model: the harness sends Python's verdict for every cell of
the file (a cell the model looks at that is missing from the table is a protocol error, hence a
reported disagreement).  The oracle re-states the property on the written bytes with Python's own
csv module and never consults the model.
"""
import collections
import csv
import io
import itertools
import math
import os
import random
import shutil
import subprocess
import sys
import tempfile
from fractions import Fraction

import lib
from lib import Prop, rat, unrat

BASE = [
    "Protein IDs",
    "Majority protein IDs",
    "Peptide counts (unique)",
    "Best peptide",
    "Number of proteins",
    "Q-value",
    "Score",
    "Reverse",
    "Potential contaminant",
]

PROTEINS = ["P1", "P2", "REV__P3", "CON__P4", 'P"5', "P\t6", "P'7", "sp|Q8|X_HUMAN", "P 9", "Pé10", "P\r11", "P\n12", '"P13"']
EXP_NAMES = ["e1", "e2", "e3", "e4", "e5", "e 2", "L e1", "H e2", "Genes", "Protein.Group", "x\ty", 'q"r', "é", "N.Sequences", ""]
PEPTIDES = ["PEPA", "PEPB", "PEP(ox)C", "AAK", "_PEPD_", "CCR"]
QGRID = [0.0, 0.01, 0.010000000000000002, 0.009999999999999998, 1 / 3, 0.5, 1.0, 1e-300, 0.05]
SGRID = [3.0, 2.5, 0.1 + 0.2, 1e-300, -0.0, -1.5, 1e22, 123456.789, 100.0]
PEPGRID = [0.0001, 0.001, 0.01, 0.5, 0.002, "nan"]
INTGRID = [100.0, 250.5, 1000.0, 31.25, 0.0, 8.0, 64.0]


# non-round doubles used as FDR cutoffs (the rows of a filter case carry exactly these values and their neighbours)
EXACT_CUTOFFS = [1 / 7, 1 / 300, 1 / 150, 1 / 101, 2 / 173, 1 / 3, 2 / 3, 0.0099999999, 0.0100000001, 0.14285714, 0.14285715,
                 0.1 + 0.2, 1e-7, 1.0000001e-5, 123456.789e-8, 5e-324, 0.049999999999999996]


def fenc(x):
    """float -> protocol value"""
    if isinstance(x, float) and math.isnan(x):
        return "nan"
    if x == float("inf"):
        return "inf"
    if x == float("-inf"):
        return "-inf"
    return rat(float(x))


def fdec(v):
    if v == "nan":
        return float("nan")
    if v == "inf":
        return float("inf")
    if v == "-inf":
        return float("-inf")
    if isinstance(v, list):
        f = unrat(v)
        return f.numerator / f.denominator
    return float(v)


def float_table(cells):
    out = {}
    for c in cells:
        try:
            out[c] = fenc(float(c))
        except ValueError:
            out[c] = None
    return out


def int_table(cells):
    out = {}
    for c in cells:
        try:
            out[c] = str(int(c))
        except ValueError:
            out[c] = None
    return out


def py_rows(text):
    """Python's own reading of a file text (newline='' semantics of the repo's reader)"""
    return list(csv.reader(io.StringIO(text, newline=""), delimiter="\t"))


def body_cells(text):
    try:
        rows = py_rows(text)
    except csv.Error:
        return []
    return sorted({c for r in rows[1:] for c in r})


def strip_bom(text):
    # the repo opens its inputs with encoding="utf-8-sig"; the model sees the decoded text
    return text[1:] if text.startswith("﻿") else text


_TMP = [None]


def tmpdir():
    """the scratch directory of the case being run (created and removed by run_impl)"""
    return _TMP[0]


def map_exc(e):
    """expected exceptions of the code -> the model's error enum (None = unexpected)"""
    m = str(e)
    if isinstance(e, ValueError):
        if "duplicate column name" in m:
            return "dup_header"
        if "SILAC channels" in m:
            return "bad_silac"
        if "is not in list" in m:
            return "no_qvalue_column" if "'Q-value'" in m and getattr(e, "_c13_filter", False) else "missing_column"
        if "could not convert string to float" in m or "invalid literal for int" in m:
            return "bad_number"
        if "could not detect file extension" in m:
            return "not_txt"
    if isinstance(e, IndexError):
        return "short_row"
    if isinstance(e, StopIteration):
        return "empty_file"
    return None


class P(Prop):
    id = "C13"
    quick_cases = 1500
    thorough_cases = 300000
    chunk = 100
    rule = (
        "five case kinds from one seeded stream: table (38%: writer in {maxquant, maxquant --skip_lfq, dia-nn, minimal} x "
        "labelling in {label-free, SILAC 2/3, TMT 1-3, bad SILAC 1/4} x 1-5 experiments with awkward / colliding / duplicate "
        "names x 0-5 generated ProteinGroupResult rows with 0-6 precursors and identifiers containing tabs, quotes, CR/LF), "
        "history (10%: an arbitrary sequence of column generators, any order, repeats, interleaved with remove_column), csv (18%: field lists and raw malformed "
        "text over {a, b, space, tab, quote, CR, LF, CRLF}), filter (20%: 0-3 files with q-values on and one ulp around the "
        "cutoff, nan/inf/junk, blank and short lines, shuffled / duplicated / missing Q-value column, CRLF/LF/CR line ends), "
        "parsemq (14%: missing / permuted base columns, additional headers, short rows, bad numbers); plus in the extra stage "
        "the full writer x labelling x E grid (140 tables) and 4 (thorough: 8) end-to-end CLI runs with --do_quant; "
        "non-trivial = a table with >= 1 written row and > 12 columns, a csv case with a quoted field, a raw text of >= 2 "
        "characters, a filter case that keeps some and drops some rows, a parsed file with >= 1 row; distinct by sha1 of the case"
    )
    assumptions = [
        "float(repr(x)) == x and int(str(n)) == n in CPython (the q-value / score / count cells are written with str())",
        "the decoded text of a file is what the model reads: output encoding is the locale's (UTF-8 here), a leading BOM of an input is dropped by utf-8-sig before the model sees it",
        "file iteration with newline='' ends a physical line at \\n, \\r or \\r\\n (the stream machine parseText folds the line splitting and _csv's reader into one automaton; compared with the real reader on a malformed stream every run)",
        "the values of quantification cells are placeholders in the model (C12 covers them); only their number per row is modelled",
        "the Triqler generator is valid only with a --file_list_file naming >= 2 conditions; that configuration is an explicit model error (not_modelled)",
    ]
    trusted_extra = [
        "harness/props/C13.py converts cells with str() (None -> '') exactly as _csv.writer does before handing them to the model's writeTable",
        "Python's float()/int() verdicts are shipped to the model as lookup tables",
    ]

    # ------------------------------------------------------------------ generation
    def gen_case(self, rng, tier):
        r = rng.random()
        if r < 0.38:
            return self.gen_table(rng)
        if r < 0.48:
            return self.gen_history(rng)
        if r < 0.66:
            return self.gen_csv(rng)
        if r < 0.86:
            return self.gen_filter(rng)
        return self.gen_parsemq(rng)

    GEN_NAMES = [
        "ProteinAnnotationsColumns",
        "DiannProteinAnnotationsColumns",
        "UniquePeptideCountColumns",
        "IdentificationTypeColumns",
        "SummedIntensityAndIbaqColumns",
        "LFQIntensityColumns",
        "SequenceCoverageColumns",
        "TMTIntensityColumns",
        "TriqlerIntensityColumns",
        "EvidenceIdsColumns",
    ]

    def gen_history(self, rng):
        """an arbitrary sequence of column generators (any order, repeats) applied directly"""
        c = self.gen_table(rng)
        n = rng.choice([1, 2, 3, 4, 6])
        gens = [rng.choice(self.GEN_NAMES) for _ in range(n)]
        if rng.random() < 0.5:
            gens = rng.sample(self.GEN_NAMES, min(n, len(self.GEN_NAMES)))
        # remove_column steps: "-<header>" (extra headers, unknown headers, rarely a base header)
        removable = ["Evidence IDs", "Gene names", "Combined Total Peptides", "Intensity", "iBAQ", "Sequence coverage [%]",
                     "Unique peptides " + c["experiments"][0], "LFQ Intensity " + c["experiments"][-1], "No such column"]
        for _ in range(rng.choice([0, 0, 1, 1, 2])):
            h = rng.choice(removable) if rng.random() < 0.9 else rng.choice(["Score", "Protein IDs", "Potential contaminant"])
            gens.insert(rng.randint(1, len(gens)), "-" + h)
        c["kind"] = "history"
        c["gens"] = gens
        del c["writer"]
        return c

    def gen_ids(self, rng):
        k = rng.choice([1, 1, 1, 2, 2, 3])
        pool = PROTEINS[:9] if rng.random() < 0.8 else PROTEINS
        return rng.sample(pool, k)

    def gen_table(self, rng, writer=None, label=None, E=None):
        if writer is None:
            writer = rng.choice(
                [
                    {"name": "maxquant", "skip_lfq": False},
                    {"name": "maxquant", "skip_lfq": False},
                    {"name": "maxquant", "skip_lfq": True},
                    {"name": "diann", "skip_lfq": False},
                    {"name": "diann", "skip_lfq": False},
                    {"name": "minimal", "skip_lfq": False},
                ]
            )
        if label is None:
            label = rng.choice(["lf", "lf", "lf", "lf", "silac2", "silac3", "tmt1", "tmt2", "tmt3", "silac2", "tmt2"])
            if rng.random() < 0.04:
                label = rng.choice(["silac1", "silac4"])
        silac, tmt = -1, -1
        if label.startswith("silac"):
            silac = int(label[5:])
        if label.startswith("tmt"):
            tmt = int(label[3:])
        if E is None:
            E = rng.choice([1, 1, 2, 2, 2, 3, 3, 4, 5])
        u = rng.random()
        if u < 0.55:
            exps = EXP_NAMES[:E]
        else:
            exps = rng.sample(EXP_NAMES, E)
        if E >= 2 and rng.random() < 0.07:
            exps[rng.randrange(1, E)] = exps[0]  # a duplicated experiment name
        nrows = rng.choice([0, 1, 2, 2, 3, 4, 5])
        rows = []
        eid = 0
        for _ in range(nrows):
            ids = self.gen_ids(rng)
            prec = []
            for _ in range(rng.choice([0, 1, 2, 3, 4, 6])):
                e = rng.choice(exps)
                inten = rng.choice(INTGRID)
                p = {
                    "pep": rng.choice(PEPTIDES),
                    "z": rng.choice([2, 3]),
                    "exp": e,
                    "frac": rng.choice([1, 1, 2]),
                    "int": inten,
                    "pp": rng.choice(PEPGRID),
                    "id": eid,
                }
                eid += rng.choice([1, 1, 3])
                if silac > 0:
                    p["silac"] = [rng.choice(INTGRID) for _ in range(min(silac, 3))]
                if tmt > 0:
                    p["tmt"] = [float(rng.choice([0, 1, 5, 10, 100])) for _ in range(3 * tmt)]
                prec.append(p)
            rows.append(
                {
                    "ids": ids,
                    "q": rng.choice(QGRID),
                    "score": rng.choice(SGRID) if rng.random() < 0.95 else rng.choice(["nan", "inf"]),
                    "rev": rng.choice(["", "", "+"]),
                    "con": rng.choice(["", "", "+"]),
                    "best": rng.choice(PEPTIDES),
                    "prec": prec,
                }
            )
        fast = rng.random() < 0.5
        if not any(r["prec"] for r in rows) and rng.random() < 0.9:
            fast = False
        return {
            "kind": "table",
            "writer": writer,
            "experiments": exps,
            "silac": silac,
            "tmt": tmt,
            "rows": rows,
            "opts": {"min_ratios": rng.choice([1, 2]), "stabilize": rng.random() < 0.5, "fast_lfq": fast},
            "cutoff": rng.choice([0.01, 0.01, 0.05, 1.0]),
        }

    FIELD_ALPHABET = ["a", "b", " ", "\t", '"', "\r", "\n", ";", "", "é", "'", ",", "1", "."]

    def gen_field(self, rng):
        k = rng.choice([0, 1, 1, 2, 3, 5])
        return "".join(rng.choice(self.FIELD_ALPHABET) for _ in range(k))

    def gen_csv(self, rng):
        if rng.random() < 0.5:
            nrows = rng.choice([0, 1, 1, 2, 3])
            rows = [[self.gen_field(rng) for _ in range(rng.choice([0, 1, 1, 2, 3, 4]))] for _ in range(nrows)]
            return {"kind": "csv", "rows": rows}
        n = rng.choice([0, 1, 2, 4, 8, 14])
        text = "".join(rng.choice(["a", "b", " ", "\t", "\t", '"', '"', "\r", "\n", "\r\n"]) for _ in range(n))
        return {"kind": "csvtext", "text": text}

    def gen_filter(self, rng):
        cutoff = rng.choice([0.01, 0.01, 0.01, 0.05, 0.0, 1.0, "nan", "inf"])
        # the entry point through which the filter is reached: the function, the tool's own main(argv), or the packaged
        # caller pipeline.run_filter_fdr_maxquant that builds the tool's argv from a float
        entry = rng.choice(["function", "function", "main", "pipeline", "pipeline"])
        if rng.random() < 0.1:
            # the whole packaged pipeline (percolator input): inference, unfiltered table, then the filter driven with a
            # cutoff that is (or sits next to) one of the q-values of that very table; the cutoff is picked in run_impl
            import gen_cli

            db = gen_cli.gen_database(rng, n_prot=rng.randint(5, 12))
            psms = gen_cli.gen_psms(rng, db, 1)
            return {"kind": "filter", "entry": "run_all", "cutoff": "pick", "pick": [rng.randint(0, 20), rng.choice(["exact", "exact", "exact", "6g", "up", "down"])],
                    "pout": gen_cli.percolator_text(psms), "files": [{"name": "proteinGroups.txt", "rows": [], "lt": "\r\n"}]}
        clean = False
        if rng.random() < 0.5:
            clean = rng.random() < 0.7  # a well-formed file: what happens AT the cutoff is not masked by an input error
            # cutoffs that are q-values as the FDR computation produces them (ratios of small counts) and other doubles
            # whose shortest decimal form has more than a few digits: the rows of the file sit exactly ON the cutoff
            cutoff = rng.choice(EXACT_CUTOFFS + [rng.randint(1, 9) / rng.choice([3, 7, 11, 13, 97, 173, 300, 1009])] * 4)
        nfiles = rng.choice([1, 1, 1, 1, 2, 2, 3, 0])
        if entry != "function" and nfiles == 0:
            nfiles = 1  # the command line needs at least one input file
        files = []
        for fi in range(nfiles):
            extra = rng.choice([0, 1, 3])
            hdr = BASE + ["X%d" % i for i in range(extra)]
            u = rng.random()
            if u < 0.06 and not clean:
                hdr = [h for h in hdr if h != "Q-value"]
            elif u < 0.3:
                hdr = hdr[:]
                rng.shuffle(hdr)
            elif u < 0.36:
                hdr = hdr + ["Q-value"]  # a second Q-value column: index() takes the first
            qcol = hdr.index("Q-value") if "Q-value" in hdr else 0
            rows = []
            for _ in range(rng.choice([0, 1, 2, 3, 4, 6]) + (3 if clean else 0)):
                row = [self.gen_field(rng) if rng.random() < 0.3 else rng.choice(["P1", "x", "", "1"]) for _ in hdr]
                c = cutoff if isinstance(cutoff, float) else 0.01
                qv = rng.choice(
                    [
                        repr(c),
                        repr(c),
                        repr(math.nextafter(c, 2.0)),
                        repr(math.nextafter(c, -1.0)),
                        "0.0",
                        "1",
                        "0.5",
                        " 0.01 ",
                        "1e-2",
                        "nan",
                        "inf",
                        "-inf",
                        "0.010",
                        "0.01000000000000000000001",
                    ]
                )
                if clean:
                    qv = repr(rng.choice([c, c, c, math.nextafter(c, 2.0), math.nextafter(c, -1.0), 0.0, 1.0] + EXACT_CUTOFFS[:11]))
                elif rng.random() < 0.05:
                    qv = rng.choice(["", "abc", "0,01"])
                row[qcol] = qv
                if rng.random() < 0.015 and not clean:
                    row = row[: rng.randrange(0, len(row))]
                rows.append(row)
            if rng.random() < 0.03 and not clean:
                rows.insert(rng.randrange(0, len(rows) + 1), [])
            name = rng.choice(["pg.txt", "pg.txt", "pg.txt", "pg.txt", "pg.txt", "a.txt.bak", "pg.tsv"]) if not clean else "pg.txt"
            files.append({"name": "%d_%s" % (fi, name), "rows": [hdr] + rows if (clean or rng.random() < 0.97) else [], "lt": rng.choice(["\r\n", "\r\n", "\n", "\r"])})
        return {"kind": "filter", "cutoff": cutoff, "files": files, "entry": entry}

    def gen_parsemq(self, rng):
        hdr = BASE[:]
        u = rng.random()
        if u < 0.3:
            rng.shuffle(hdr)
        if u > 0.75:
            hdr.remove(rng.choice(BASE))
        addl_pool = ["X0", "X1", "Score", "Missing", "X0"]
        extra = rng.sample(["X0", "X1", "Y"], rng.choice([0, 1, 2]))
        hdr = hdr + extra
        additional = rng.sample(addl_pool, rng.choice([0, 0, 1, 2]))
        rows = []
        for _ in range(rng.choice([0, 1, 2, 3])):
            row = []
            for h in hdr:
                if h == "Number of proteins":
                    row.append(rng.choice(["1", "2", "10", " 3", "1.0", "", "x"] if rng.random() < 0.2 else ["1", "2", "3"]))
                elif h in ("Q-value", "Score"):
                    row.append(rng.choice(["0.01", "1e-3", "nan", "inf", "2.5", "-1", "", "abc", "0.1 "] if rng.random() < 0.25 else ["0.01", "0.5", "2.5", "1e-300"]))
                else:
                    row.append(self.gen_field(rng) if rng.random() < 0.4 else rng.choice(["P1;P2", "+", "", "PEPA"]))
            if rng.random() < 0.08:
                row = row[: rng.randrange(0, len(row))]
            rows.append(row)
        allrows = [hdr] + rows if rng.random() < 0.96 else []
        return {"kind": "parsemq", "rows": allrows, "additional": additional, "lt": rng.choice(["\r\n", "\n"])}

    def grid_cases(self):
        """every writer x labelling x 1..5 experiments with one fixed row set"""
        out = []
        for wi, w in enumerate(
            [
                {"name": "maxquant", "skip_lfq": False},
                {"name": "maxquant", "skip_lfq": True},
                {"name": "diann", "skip_lfq": False},
                {"name": "minimal", "skip_lfq": False},
            ]
        ):
            for li, label in enumerate(["lf", "silac2", "silac3", "tmt1", "tmt2", "tmt3", "silac1"]):
                for E in range(1, 6):
                    rng = random.Random(1000 * wi + 10 * li + E)
                    c = self.gen_table(rng, writer=w, label=label, E=E)
                    c["experiments"] = EXP_NAMES[:E]
                    for r in c["rows"]:
                        for p in r["prec"]:
                            if p["exp"] not in c["experiments"]:
                                p["exp"] = c["experiments"][0]
                    out.append(c)
        return out

    def exhaustive_cases(self, tier):
        """the table grid; every raw text of <= 5 characters over {a, tab, quote, CR, LF}; every record of one
        field of <= 3 and of two fields of <= 2 such characters"""
        out = self.grid_cases()
        alpha = ["a", "\t", '"', "\r", "\n"]
        for n in range(0, 6):
            for t in itertools.product(alpha, repeat=n):
                out.append({"kind": "csvtext", "text": "".join(t)})
        fields = ["".join(t) for n in range(0, 4) for t in itertools.product(alpha, repeat=n)]
        short = [f for f in fields if len(f) <= 2]
        for f in fields:
            out.append({"kind": "csv", "rows": [[f]]})
        for f in short:
            for g in short:
                out.append({"kind": "csv", "rows": [[f, g], [g]]})
        return out

    # ------------------------------------------------------------------ implementation
    def run_impl(self, case):
        _TMP[0] = tempfile.mkdtemp(prefix="c13_")
        try:
            return self.run_impl_in(case)
        finally:
            shutil.rmtree(_TMP[0], True)
            _TMP[0] = None

    def run_impl_in(self, case):
        k = case["kind"]
        if k == "table":
            return self.impl_table(case)
        if k == "history":
            return self.impl_history(case)
        if k == "csv":
            return self.impl_csv(case)
        if k == "csvtext":
            return self.impl_csvtext(case)
        if k == "filter":
            return self.impl_filter(case)
        if k == "parsemq":
            return self.impl_parsemq(case)
        raise ValueError(k)

    def build_results(self, case):
        import numpy as np
        from picked_group_fdr.results import ProteinGroupResult, ProteinGroupResults
        from picked_group_fdr.precursor_quant import PrecursorQuant

        T, S = case["tmt"], case["silac"]
        rows = []
        for r in case["rows"]:
            prec = []
            for p in r["prec"]:
                prec.append(
                    PrecursorQuant(
                        p["pep"],
                        p["z"],
                        p["exp"],
                        p["frac"],
                        float(p["int"]),
                        fdec(p["pp"]),
                        np.array(p["tmt"], dtype=float) if "tmt" in p else None,
                        np.array(p["silac"], dtype=float) if "silac" in p else None,
                        p["id"],
                    )
                )
            ids = ";".join(r["ids"])
            rows.append(
                ProteinGroupResult(
                    ids,
                    r["ids"][0],
                    ";".join("1" for _ in r["ids"]),
                    r["best"],
                    len(r["ids"]),
                    fdec(r["q"]),
                    fdec(r["score"]),
                    r["rev"],
                    r["con"],
                    prec,
                )
            )
        res = ProteinGroupResults(rows)
        res.experiments = list(case["experiments"])
        res.num_silac_channels = S
        res.num_tmt_channels = T
        return res

    def build_writer(self, case):
        from picked_group_fdr import writers
        from picked_group_fdr.protein_annotation import ProteinAnnotation

        ann = {}
        for i, p in enumerate(PROTEINS):
            if i % 3 == 2:
                continue
            ann[p] = ProteinAnnotation(
                id=p,
                fasta_header=p + ' desc\t"%d"' % i,
                uniprot_id=p.replace("sp|", ""),
                entry_name="N%d_HUMAN" % i,
                gene_name=None if i % 4 == 0 else "G%d" % (i % 5),
                description="d;%d" % i,
            )
        o = case["opts"]
        w = case["writer"]
        if w["name"] == "maxquant":
            seqs = {"P1": "MAAPEPAKAAKPEPBKCCR", "P2": "PEPAPEPB"}
            return writers.MaxQuantProteinGroupsWriter(
                collections.defaultdict(int, {"P1": 3, "P2": 0}),
                ann,
                seqs,
                w["skip_lfq"],
                o["min_ratios"],
                o["stabilize"],
                o["fast_lfq"],
                1,
                {"groups": [], "groupLabels": []},
            )
        if w["name"] == "diann":
            return writers.DiannProteinGroupsWriter(ann, o["min_ratios"], o["stabilize"], o["fast_lfq"], 1)
        return writers.MinimalProteinGroupsWriter(ann)

    def impl_table(self, case):
        import warnings

        import numpy as np
        from picked_group_fdr.parsers import maxquant

        res = self.build_results(case)
        writer = self.build_writer(case)
        originals = [(r.proteinIds, r.qValue, r.score, len(r.precursorQuants)) for r in res]
        cols = writer.get_columns()
        gens = []

        def wrap(c):
            name = type(c).__name__
            oh, oc = c.append_headers, c.append_columns
            entry = {"name": name, "valid": False}
            gens.append(entry)

            def ah(r):
                n0 = len(r.headers)
                entry["valid"] = True
                oh(r)
                entry["headers"] = list(r.headers[n0:])

            def ac(r, cutoff):
                n0 = [len(x.extraColumns) for x in r]
                oc(r, cutoff)
                ar = sorted({len(x.extraColumns) - a for x, a in zip(r, n0)})
                entry["arities"] = ar

            c.append_headers = ah
            c.append_columns = ac

        for c in cols:
            wrap(c)
        writer.get_columns = lambda: cols
        post = [(fdec(p["pp"]), "raw", p["exp"], p["pep"]) for r in case["rows"] for p in r["prec"]]
        out = {"columns": [g["name"] for g in gens]}
        with warnings.catch_warnings(), np.errstate(all="ignore"):
            warnings.simplefilter("ignore")
            try:
                writer.append_quant_columns(res, post, case["cutoff"])
            except ValueError as e:
                en = map_exc(e)
                if en is None:
                    raise
                out["err"] = en
                return out
            except Exception as e:
                # fastlfq.build_graph / prune_graph on a result set without any precursor: a crash inside the
                # LFQ numerics (C11's territory), no table is produced and the model does not cover it
                if type(e).__name__ == "NetworkXPointlessConcept":
                    out["err"] = "lfq_null_graph"
                    return out
                raise
        out["gens"] = gens
        out["headers"] = list(res.headers)
        out["rows"] = [[r.proteinIds, len(r.extraColumns)] for r in res]
        fmt = writer.get_extra_columns_formatter()
        out["cells"] = [["" if x is None else str(x) for x in r.to_list(fmt)] for r in res]
        path = os.path.join(tmpdir(), "pg_%d.txt" % os.getpid())
        try:
            writer.write(res, path)
        except (ValueError, IndexError) as e:
            en = map_exc(e)
            if en is None:
                raise
            out["write_err"] = en
            return out
        with open(path, "rb") as fh:
            out["text"] = fh.read().decode("utf-8")
        out["_rec"] = {"originals": [[a, fenc(b), fenc(c), d] for a, b, c, d in originals]}
        if case["writer"]["name"] != "diann":
            try:
                back = maxquant.parse_mq_protein_groups_file(path)
                out["reread"] = {"headers": list(back.headers), "rows": [self.enc_mqrow(b) for b in back]}
            except (ValueError, IndexError) as e:
                en = map_exc(e)
                if en is None:
                    raise
                out["reread"] = {"err": en}
        return out

    def impl_history(self, case):
        import warnings

        import numpy as np
        from picked_group_fdr import columns

        wcase = dict(case, writer={"name": "maxquant", "skip_lfq": False})
        mq = self.build_writer(wcase)
        o = case["opts"]

        def make(name):
            if name == "ProteinAnnotationsColumns":
                return columns.ProteinAnnotationsColumns(mq.protein_annotations)
            if name == "DiannProteinAnnotationsColumns":
                return columns.DiannProteinAnnotationsColumns(mq.protein_annotations)
            if name == "SummedIntensityAndIbaqColumns":
                return columns.SummedIntensityAndIbaqColumns(mq.num_ibaq_peptides_per_protein)
            if name == "LFQIntensityColumns":
                return columns.LFQIntensityColumns(o["min_ratios"], o["stabilize"], o["fast_lfq"], num_threads=1)
            if name == "SequenceCoverageColumns":
                return columns.SequenceCoverageColumns(mq.protein_sequences)
            if name == "TriqlerIntensityColumns":
                return columns.TriqlerIntensityColumns({"groups": [], "groupLabels": []})
            return getattr(columns, name)()

        def run(steps):
            res = self.build_results(case)
            with warnings.catch_warnings(), np.errstate(all="ignore"):
                warnings.simplefilter("ignore")
                for name in steps:
                    if name.startswith("-"):
                        try:
                            res.remove_column(name[1:])
                        except IndexError:
                            return {"err": "index_error"}
                        continue
                    c = make(name)
                    try:
                        c.append(res, case["cutoff"])
                    except ValueError as e:
                        en = map_exc(e)
                        if en is None:
                            raise
                        return {"err": en}
                    except Exception as e:
                        if type(e).__name__ == "NetworkXPointlessConcept":
                            return {"err": "lfq_null_graph"}
                        raise
            cols = {}
            if len(set(res.headers)) == len(res.headers) and all(len(r.extraColumns) + 9 == len(res.headers) for r in res):
                for j, h in enumerate(res.headers[9:]):
                    cols[h] = [str(r.extraColumns[j]) for r in res]
            return {"headers": list(res.headers), "rows": [[r.proteinIds, len(r.extraColumns)] for r in res], "_rec": {"cols": cols}}

        out = run(case["gens"])
        if "err" not in out and any(g.startswith("-") for g in case["gens"]):
            fresh = run([g for g in case["gens"] if not g.startswith("-")])
            if "err" not in fresh:
                out["_rec"]["fresh"] = fresh["_rec"]["cols"]
        return out

    @staticmethod
    def enc_mqrow(b):
        return [
            b.proteinIds,
            b.majorityProteinIds,
            b.peptideCountsUnique,
            int(b.numberOfProteins),
            fenc(b.qValue),
            fenc(b.score),
            b.reverse,
            b.potentialContaminant,
            list(b.extraColumns),
        ]

    def impl_csv(self, case):
        from picked_group_fdr.parsers import tsv

        path = os.path.join(tmpdir(), "csv_%d.txt" % os.getpid())
        with tsv.get_tsv_writer(path) as w:
            for r in case["rows"]:
                w.writerow(r)
        with open(path, "rb") as fh:
            text = fh.read().decode("utf-8")
        with tsv.get_tsv_reader(path) as rd:
            back = [list(r) for r in rd]
        return {"text": text, "back": back}

    def impl_csvtext(self, case):
        from picked_group_fdr.parsers import tsv

        path = os.path.join(tmpdir(), "csvt_%d.txt" % os.getpid())
        with open(path, "w", newline="", encoding="utf-8") as fh:
            fh.write(case["text"])
        try:
            with tsv.get_tsv_reader(path) as rd:
                back = [list(r) for r in rd]
        except csv.Error as e:
            return {"err": "csv_error"}
        return {"back": back}

    @staticmethod
    def render(rows, lt):
        s = io.StringIO(newline="")
        w = csv.writer(s, delimiter="\t", lineterminator=lt)
        for r in rows:
            w.writerow(r)
        return s.getvalue()

    @staticmethod
    def _cutoff(case, impl_out):
        """the cutoff of a filter case (run_all cases: the one run_impl picked from the unfiltered table)"""
        if case["cutoff"] == "pick":
            return fdec(impl_out["_rec"]["cutoff"])
        return fdec(case["cutoff"])

    def impl_run_all(self, case, d):
        """pipeline.run_picked_group_fdr_all on Percolator input: writes proteinGroups.txt and the filtered table"""
        import glob

        from picked_group_fdr.pipeline import pipeline as pipeline_callers

        pout = os.path.join(d, "pout.txt")
        with open(pout, "w") as fh:
            fh.write(case["pout"])

        def run(tag, cutoff):
            od = os.path.join(d, "out_" + tag)
            shutil.rmtree(od, True)
            pipeline_callers.run_picked_group_fdr_all([], [pout], [], od, [], "percolator", False, 1, cutoff)
            unf = os.path.join(od, "proteinGroups.txt")
            if not os.path.exists(unf):
                return None, None
            with open(unf, "rb") as fh:
                u = fh.read().decode("utf-8")
            fl = sorted(glob.glob(os.path.join(od, "proteinGroups.fdr*.txt")))
            t = None
            if fl:
                with open(fl[0], "rb") as fh:
                    t = fh.read().decode("utf-8")
            return u, t

        u0, _ = run("probe", 0.01)
        if u0 is None:
            return {"err": "no_table", "_rec": {"texts": [], "cutoff": fenc(0.01)}}
        rows = py_rows(u0)
        qc = rows[0].index("Q-value")
        qs = sorted({float(r[qc]) for r in rows[1:]}, key=lambda q: (-len(repr(q)), q))  # long decimal forms first
        k, variant = case["pick"]
        q = qs[k % len(qs)] if qs else 0.01
        c = {"exact": q, "6g": float("%.6g" % q), "up": math.nextafter(q, 2.0), "down": math.nextafter(q, -1.0)}[variant]
        u, t = run("final", c)
        return {"out": t, "_rec": {"texts": [u], "cutoff": fenc(c), "q_picked": repr(q)}}

    def impl_filter(self, case):
        from picked_group_fdr.pipeline import filter_fdr_maxquant as f

        d = os.path.join(tmpdir(), "filter_%d" % os.getpid())
        os.makedirs(d, exist_ok=True)
        if case.get("entry") == "run_all":
            return self.impl_run_all(case, d)
        paths, texts = [], []
        for fl in case["files"]:
            p = os.path.join(d, fl["name"])
            t = self.render(fl["rows"], fl["lt"])
            with open(p, "w", newline="", encoding="utf-8") as fh:
                fh.write(t)
            paths.append(p)
            texts.append(t)
        outp = os.path.join(d, "out.filtered")
        if os.path.exists(outp):
            os.remove(outp)
        entry = case.get("entry", "function")
        try:
            if entry == "main":
                f.main(["--mq_protein_groups", *paths, "--mq_protein_groups_out", outp, "--fdr_cutoff", repr(fdec(case["cutoff"]))])
            elif entry == "pipeline":
                from picked_group_fdr.pipeline import pipeline as pipeline_callers

                pipeline_callers.run_filter_fdr_maxquant(paths, outp, fdec(case["cutoff"]))
            else:
                f.filterProteinGroupsAtFDR(paths, outp, fdec(case["cutoff"]))
        except (ValueError, IndexError, StopIteration, RuntimeError) as e:
            if isinstance(e, RuntimeError) and isinstance(e.__cause__, StopIteration):
                e = e.__cause__
            if isinstance(e, ValueError) and "'Q-value' is not in list" in str(e):
                return {"err": "no_qvalue_column", "_rec": {"texts": texts}}
            en = map_exc(e)
            if en is None:
                raise
            return {"err": en, "_rec": {"texts": texts}}
        out = None
        if os.path.exists(outp):
            with open(outp, "rb") as fh:
                out = fh.read().decode("utf-8")
        return {"out": out, "_rec": {"texts": texts}}

    def impl_parsemq(self, case):
        from picked_group_fdr.parsers import maxquant

        path = os.path.join(tmpdir(), "mq_%d.txt" % os.getpid())
        text = self.render(case["rows"], case["lt"])
        with open(path, "w", newline="", encoding="utf-8") as fh:
            fh.write(text)
        try:
            back = maxquant.parse_mq_protein_groups_file(path, list(case["additional"]))
        except (ValueError, IndexError, StopIteration, RuntimeError) as e:
            if isinstance(e, RuntimeError) and isinstance(e.__cause__, StopIteration):
                e = e.__cause__
            en = map_exc(e)
            if en is None:
                raise
            return {"err": en, "_rec": {"text": text}}
        return {"headers": list(back.headers), "rows": [self.enc_mqrow(b) for b in back], "_rec": {"text": text}}

    # ------------------------------------------------------------------ model
    def model_ctx(self, case):
        return {"experiments": case["experiments"], "silac": case["silac"], "tmt": case["tmt"]}

    def model_rows(self, case):
        out = []
        for r in case["rows"]:
            ids = ";".join(r["ids"])
            out.append(
                {
                    "cells": [ids, r["ids"][0], "", r["best"], str(len(r["ids"])), repr(fdec(r["q"])), repr(fdec(r["score"])), r["rev"], r["con"]],
                    "nprec": len(r["prec"]),
                }
            )
        return out

    def model_request(self, case, impl_out):
        k = case["kind"]
        if isinstance(impl_out, dict) and "exc" in impl_out:
            return None
        if k == "table":
            if impl_out.get("err") == "lfq_null_graph":
                return None
            ctx = self.model_ctx(case)
            reqs = [{"op": "table", "ctx": ctx, "writer": case["writer"], "rows": self.model_rows(case)}]
            for name in impl_out.get("columns", []):
                reqs.append({"op": "table_gen", "ctx": ctx, "gen": name})
            if "cells" in impl_out:
                reqs.append(
                    {
                        "op": "table_write",
                        "headers": impl_out["headers"],
                        "rows": impl_out["cells"],
                        "writer": case["writer"],
                        "experiments": case["experiments"],
                    }
                )
            if "text" in impl_out and "reread" in impl_out:
                cells = body_cells(impl_out["text"])
                reqs.append(
                    {
                        "op": "parse_mq",
                        "text": impl_out["text"],
                        "additional": [],
                        "ints": int_table(cells),
                        "floats": float_table(cells),
                    }
                )
            return reqs
        if k == "history":
            if impl_out.get("err") == "lfq_null_graph":
                return None
            return [{"op": "table", "ctx": self.model_ctx(case), "history": case["gens"], "rows": self.model_rows(case)}]
        if k == "csv":
            return [{"op": "csv", "rows": case["rows"]}, {"op": "csv", "text": impl_out["text"]}]
        if k == "csvtext":
            return [{"op": "csv", "text": strip_bom(case["text"])}]
        if k == "filter":
            texts = impl_out["_rec"]["texts"]
            cells = sorted({c for t in texts for c in body_cells(strip_bom(t))})
            return [
                {
                    "op": "fdrfilter",
                    "files": [[fl["name"], strip_bom(t)] for fl, t in zip(case["files"], texts)],
                    "cutoff": fenc(self._cutoff(case, impl_out)),
                    "floats": float_table(cells),
                }
            ]
        if k == "parsemq":
            text = strip_bom(impl_out["_rec"]["text"])
            cells = body_cells(text)
            return [
                {
                    "op": "parse_mq",
                    "text": text,
                    "additional": case["additional"],
                    "ints": int_table(cells),
                    "floats": float_table(cells),
                }
            ]
        return None

    def model_view(self, case, resp, impl_out):
        k = case["kind"]
        for r in resp:
            if "proto_err" in r:
                return {"proto_err": r["proto_err"]}
        if k == "table":
            t = resp[0]
            ncol = len(impl_out.get("columns", []))
            out = {"columns": t.get("columns")}
            if "err" in t:
                out["err"] = t["err"]
                return out
            gens = []
            for name, g in zip(impl_out["columns"], resp[1 : 1 + ncol]):
                e = {"name": name, "valid": g["valid"]}
                if g["valid"]:
                    e["headers"] = g.get("headers")
                    e["arities"] = [g.get("arity")] if t["rows"] else []
                gens.append(e)
            out["gens"] = gens
            out["headers"] = t["headers"]
            out["rows"] = t["rows"]
            rest = resp[1 + ncol :]
            if "cells" in impl_out:
                w = rest[0]
                rest = rest[1:]
                if "err" in w:
                    out["write_err"] = w["err"]
                    return out
                out["text"] = w["text"]
            if rest:
                out["reread"] = rest[0]
            return out
        if k == "csv":
            return {"text": resp[0].get("text"), "back": resp[1].get("rows")}
        if k == "csvtext":
            return {"back": resp[0].get("rows")}
        if k in ("filter", "parsemq", "history"):
            return resp[0]
        return resp

    def impl_view(self, case, impl_out):
        if not isinstance(impl_out, dict):
            return impl_out
        out = {k: v for k, v in impl_out.items() if k not in ("_rec", "cells")}
        if case["kind"] == "table" and "gens" in out:
            gens = []
            for g in out["gens"]:
                e = {"name": g["name"], "valid": g["valid"]}
                if g["valid"]:
                    e["headers"] = g.get("headers")
                    e["arities"] = g.get("arities")
                gens.append(e)
            out["gens"] = gens
        return out

    # ------------------------------------------------------------------ oracle
    def oracle(self, case, impl_out):
        k = case["kind"]
        if not isinstance(impl_out, dict):
            return "no output"
        if k == "table":
            return self.oracle_table(case, impl_out)
        if k == "history":
            if any(g.startswith("-") and g[1:] in BASE for g in case["gens"]):
                return None  # remove_column of a base header: outside the property (no writer does it), see notes/C13.md
            if "headers" in impl_out:
                hs = impl_out["headers"]
                if len(set(hs)) != len(hs):
                    return "duplicate column headers in the result table"
                for ids, ar in impl_out["rows"]:
                    if 9 + ar != len(hs):
                        return "row %r has %d cells but the table has %d headers" % (ids, 9 + ar, len(hs))
                # remove_column removes exactly the named column: every column that is left holds what its
                # generator wrote (compared with the same history run without the removals)
                rec = impl_out.get("_rec", {})
                if "fresh" in rec:
                    for h, vals in rec["cols"].items():
                        if h in rec["fresh"] and rec["fresh"][h] != vals:
                            return "after remove_column the column %r holds %r, its generator wrote %r" % (h, vals[:3], rec["fresh"][h][:3])
            return None
        if k == "csv":
            if impl_out["back"] != [list(r) for r in case["rows"]]:
                return "fields written with get_tsv_writer are not the fields read back with get_tsv_reader: %r -> %r" % (case["rows"], impl_out["back"])
            return None
        if k == "filter":
            return self.oracle_filter(case, impl_out)
        return None

    def oracle_table(self, case, impl_out):
        # the two parallel structures (headers vs extraColumns) must be aligned after append_quant_columns:
        # with a header dict the written file is rectangular by construction, so a generator that adds a
        # header without a value (or the reverse) only shows here, as shifted columns or an IndexError
        if "headers" in impl_out:
            hs = impl_out["headers"]
            if len(set(hs)) != len(hs):
                dup = [h for h, n in collections.Counter(hs).items() if n > 1]
                return "duplicate column headers in the result table: %r" % dup[:3]
            for ids, ar in impl_out["rows"]:
                if 9 + ar != len(hs):
                    return "row %r has %d cells but the table has %d headers (columns are shifted)" % (ids, 9 + ar, len(hs))
            for g in impl_out.get("gens", []):
                if g["valid"] and impl_out["rows"] and g.get("arities") != [len(g.get("headers", []))]:
                    return "%s appended %d headers and %r values per row" % (g["name"], len(g.get("headers", [])), g.get("arities"))
        if "err" in impl_out or "write_err" in impl_out:
            return None  # no file is produced; the property speaks about files that are written
        text = impl_out["text"]
        rows = py_rows(text)
        if not rows:
            return "written file is empty"
        hdr, body = rows[0], rows[1:]
        if len(set(hdr)) != len(hdr):
            dup = [h for h, n in collections.Counter(hdr).items() if n > 1]
            return "duplicate column headers in the written file: %r" % dup[:3]
        for i, r in enumerate(body):
            if len(r) != len(hdr):
                return "row %d of the written file has %d fields, the header has %d" % (i, len(r), len(hdr))
        # plain split agrees wherever no field needs quoting
        if not any(ch in text for ch in '"'):
            lines = text.split("\r\n")
            if lines[-1] != "":
                return "file does not end with the line terminator"
            for ln in lines[:-1]:
                if len(ln.split("\t")) != len(hdr):
                    return "plain split of a line gives %d fields, the header has %d" % (len(ln.split("\t")), len(hdr))
        orig = impl_out["_rec"]["originals"]
        minimal = case["writer"]["name"] == "minimal"
        want = [o for o in orig if minimal or o[3] > 0]
        if len(body) != len(want):
            return "%d rows written, %d groups to report" % (len(body), len(want))
        if case["writer"]["name"] != "diann":
            rr = impl_out.get("reread")
            if rr is None or "err" in rr:
                return "the written file cannot be read back by parse_mq_protein_groups_file: %r" % (rr,)
            got = [[r[0], r[4], r[5]] for r in rr["rows"]]
            exp = [[o[0], o[1], o[2]] for o in want]
            if got != exp:
                return "re-read identifiers / q-values / scores differ: %r vs %r" % (got[:3], exp[:3])
        else:
            ne = len(case["experiments"])
            if len(hdr) != 6 + len([e for e in dict.fromkeys(case["experiments"]) if e not in ("Protein.Group", "Protein.Names", "Genes", "First.Protein.Description", "N.Sequences", "N.Proteotypic.Sequences")]):
                return "DIA-NN table has %d columns for %d experiments" % (len(hdr), ne)
        return None

    def oracle_filter(self, case, impl_out):
        if "err" in impl_out:
            return None
        texts = impl_out["_rec"]["texts"]
        if not texts:
            return None if impl_out["out"] is None else "output written without input"
        rows = py_rows(strip_bom(texts[-1]))
        hdr, body = rows[0], rows[1:]
        qc = hdr.index("Q-value")
        c = self._cutoff(case, impl_out)
        want = [hdr] + [r for r in body if float(r[qc]) <= c]
        got = py_rows(impl_out["out"])
        if got != want:
            return "filtered file (entry point: %s) is not header + rows with q <= %r in original order: got %d rows, want %d" % (
                {"function": "filterProteinGroupsAtFDR", "main": "filter_fdr_maxquant.main(argv)", "pipeline": "pipeline.run_filter_fdr_maxquant", "run_all": "pipeline.run_picked_group_fdr_all"}[case.get("entry", "function")],
                c, len(got) - 1, len(want) - 1)
        return None

    # ------------------------------------------------------------------ bookkeeping
    def nontrivial(self, case, impl_out):
        k = case["kind"]
        if not isinstance(impl_out, dict):
            return False
        if k in ("table", "history"):
            return bool(impl_out.get("rows")) and len(impl_out.get("headers", [])) > 12
        if k == "csv":
            return '"' in impl_out.get("text", "")
        if k == "csvtext":
            return len(case["text"]) >= 2
        if k == "filter":
            if impl_out.get("out") is None:
                return False
            n_in = len(py_rows(strip_bom(impl_out["_rec"]["texts"][-1]))) - 1
            n_out = len(py_rows(impl_out["out"])) - 1
            return 0 < n_out < n_in
        if k == "parsemq":
            return bool(impl_out.get("rows"))
        return False

    def features(self, case, impl_out):
        k = case["kind"]
        f = ["kind=" + k]
        err = impl_out.get("err") if isinstance(impl_out, dict) else "exc"
        if isinstance(impl_out, dict) and "write_err" in impl_out:
            err = "write:" + impl_out["write_err"]
        if err:
            f.append("%s:err=%s" % (k, err))
        if k == "history":
            f.append("history_len=%d" % len(case["gens"]))
            if any(g.startswith("-") for g in case["gens"]):
                f.append("history:remove_column" + (":base" if any(g[1:] in BASE for g in case["gens"] if g.startswith("-")) else ""))
        if k == "table":
            w = case["writer"]
            f.append("writer=%s%s" % (w["name"], "-skip_lfq" if w["skip_lfq"] else ""))
            lab = "silac%d" % case["silac"] if case["silac"] > 0 else ("tmt%d" % case["tmt"] if case["tmt"] > 0 else "lf")
            f.append("label=" + lab)
            f.append("E=%d" % len(case["experiments"]))
            if len(set(case["experiments"])) < len(case["experiments"]):
                f.append("dup_experiment")
            if isinstance(impl_out, dict) and "headers" in impl_out:
                n = len(impl_out["headers"])
                f.append("ncols=%s" % ("<=12" if n <= 12 else "13-30" if n <= 30 else "31-60" if n <= 60 else ">60"))
                f.append("rows_written=%d" % len(impl_out.get("rows", [])))
                if '"' in impl_out.get("text", ""):
                    f.append("table_has_quoted_field")
        if k == "filter" and isinstance(impl_out, dict) and impl_out.get("out") is not None:
            c = self._cutoff(case, impl_out)
            if case.get("entry") == "run_all":
                f.append("filter:run_all:cutoff=" + case["pick"][1])
                if case["pick"][1] == "exact":
                    f.append("filter:q_equals_cutoff")
                if len(impl_out["_rec"].get("q_picked", "")) > 8:
                    f.append("filter:cutoff_has_more_than_6_digits")
                    if case["pick"][1] == "exact":
                        f.append("filter:q_equals_long_cutoff:run_all")
            for fl in case["files"][-1:]:
                hdr = fl["rows"][0] if fl["rows"] else []
                if "Q-value" in hdr:
                    qc = hdr.index("Q-value")
                    try:
                        if any(len(r) > qc and float(r[qc]) == c for r in fl["rows"][1:]):
                            f.append("filter:q_equals_cutoff")
                    except ValueError:
                        pass
            if len(case["files"]) > 1:
                f.append("filter:multi_file")
        if k == "filter":
            f.append("filter:entry=" + case.get("entry", "function"))
            if isinstance(case["cutoff"], float) and len(repr(case["cutoff"])) > 8:
                f.append("filter:cutoff_has_more_than_6_digits")
                if "filter:q_equals_cutoff" in f:
                    f.append("filter:q_equals_long_cutoff:" + case.get("entry", "function"))
        return f

    def shrink(self, case):
        k = case["kind"]
        if k == "history":
            g = case["gens"]
            for i in range(len(g)):
                if len(g) > 1:
                    yield dict(case, gens=g[:i] + g[i + 1 :])
        if k in ("table", "history"):
            rows = case["rows"]
            if case["tmt"] > 0 or case["silac"] > 0:
                yield dict(case, tmt=-1, silac=-1, rows=[dict(r, prec=[{a: b for a, b in p.items() if a not in ("tmt", "silac")} for p in r["prec"]]) for r in rows])
            for i in range(len(rows)):
                yield dict(case, rows=rows[:i] + rows[i + 1 :])
            for i, r in enumerate(rows):
                for j in range(len(r["prec"])):
                    nr = dict(r, prec=r["prec"][:j] + r["prec"][j + 1 :])
                    yield dict(case, rows=rows[:i] + [nr] + rows[i + 1 :])
                if len(r["ids"]) > 1:
                    yield dict(case, rows=rows[:i] + [dict(r, ids=r["ids"][:1])] + rows[i + 1 :])
                if r["ids"] != ["P1"]:
                    yield dict(case, rows=rows[:i] + [dict(r, ids=["P1"])] + rows[i + 1 :])
            exps = case["experiments"]
            if len(exps) > 1:
                for i in range(len(exps)):
                    gone = exps[i]
                    ne = exps[:i] + exps[i + 1 :]
                    nrows = []
                    for r in rows:
                        nrows.append(dict(r, prec=[p for p in r["prec"] if p["exp"] in ne]))
                    if gone in ne:
                        nrows = rows
                    yield dict(case, experiments=ne, rows=nrows)
            for i, e in enumerate(exps):
                simple = "e%d" % (i + 1)
                if e != simple and simple not in exps:
                    nrows = [dict(r, prec=[dict(p, exp=simple) if p["exp"] == e else p for p in r["prec"]]) for r in rows]
                    yield dict(case, experiments=exps[:i] + [simple] + exps[i + 1 :], rows=nrows)
        elif k == "csv":
            rows = case["rows"]
            for i in range(len(rows)):
                yield {"kind": "csv", "rows": rows[:i] + rows[i + 1 :]}
            for i, r in enumerate(rows):
                for j in range(len(r)):
                    yield {"kind": "csv", "rows": rows[:i] + [r[:j] + r[j + 1 :]] + rows[i + 1 :]}
                    if len(r[j]) > 1:
                        for c in range(len(r[j])):
                            yield {"kind": "csv", "rows": rows[:i] + [r[:j] + [r[j][:c] + r[j][c + 1 :]] + r[j + 1 :]] + rows[i + 1 :]}
        elif k == "csvtext":
            t = case["text"]
            for i in range(len(t)):
                yield {"kind": "csvtext", "text": t[:i] + t[i + 1 :]}
        elif k == "filter" and case.get("entry") == "run_all":
            lines = case["pout"].splitlines(True)
            for i in range(1, len(lines)):
                yield dict(case, pout="".join(lines[:i] + lines[i + 1 :]))
        elif k == "filter":
            files = case["files"]
            for i in range(len(files)):
                if len(files) > 1:
                    yield dict(case, files=files[:i] + files[i + 1 :])
            for i, fl in enumerate(files):
                rows = fl["rows"]
                for j in range(1, len(rows)):
                    yield dict(case, files=files[:i] + [dict(fl, rows=rows[:j] + rows[j + 1 :])] + files[i + 1 :])
                if rows and len(rows[0]) > 1:
                    for c in range(len(rows[0])):
                        if rows[0][c] != "Q-value" and all(len(r) == len(rows[0]) for r in rows):
                            yield dict(case, files=files[:i] + [dict(fl, rows=[r[:c] + r[c + 1 :] for r in rows])] + files[i + 1 :])
        elif k == "parsemq":
            rows = case["rows"]
            for j in range(1, len(rows)):
                yield dict(case, rows=rows[:j] + rows[j + 1 :])
            for j in range(len(case["additional"])):
                yield dict(case, additional=case["additional"][:j] + case["additional"][j + 1 :])

    # ------------------------------------------------------------------ extra stage: grid + CLI
    def extra(self, ctx):
        if ctx.get("replay"):
            return None
        failures = []
        n = 0
        info = {}
        # (a) the full writer x labelling x E grid, in every tier
        grid = self.grid_cases()
        recs = lib.evaluate_cases(self, grid, ctx["model"])
        n += len(recs)
        info["grid_tables"] = len(recs)
        info["grid_written"] = sum(1 for r in recs if isinstance(r["impl"], dict) and "text" in r["impl"])
        for r in recs:
            if r["disagree"] is not None or r["oracle"] is not None:
                failures.append({"case": r["case"], "impl": r["impl"], "disagree": r["disagree"], "why": r["oracle"]})
        # (b) end-to-end CLI runs
        cli = self.cli_runs(ctx["tier"])
        n += cli["runs"]
        info["cli"] = cli["info"]
        failures.extend(cli["failures"])
        return {"evaluations": n, "failures": failures[:6], "info": info}

    def cli_runs(self, tier):
        d = tempfile.mkdtemp(prefix="c13cli_")
        failures, info, runs = [], [], 0
        try:
            prot = {"P1": "MAAAAAAKCCCCCCRGGGGGGK", "P2": "MCCCCCCREEEEEEKHHHHHHR", "P3": "MLLLLLLKNNNNNNR"}
            with open(os.path.join(d, "db.fasta"), "w") as fh:
                fh.write("".join(">%s\n%s\n" % kv for kv in prot.items()))
            psms = [
                ("AAAAAAK", ["P1"], 0.0001),
                ("CCCCCCR", ["P1", "P2"], 0.0002),
                ("GGGGGGK", ["P1"], 0.001),
                ("EEEEEEK", ["P2"], 0.002),
                ("HHHHHHR", ["P2"], 0.2),
                ("NNNNNNR", ["P3"], 0.003),
                ("RNNNNNNK", ["REV__P3"], 0.004),
            ]
            configs = [("lf", 2, []), ("silac", 2, []), ("tmt", 1, []), ("lf", 3, ["--skip_lfq"])]
            if tier == "thorough":
                configs += [("silac3", 3, []), ("tmt", 4, []), ("lf", 1, []), ("lf", 5, [])]
            for label, E, extra_args in configs:
                hdr = ["Modified sequence", "Leading proteins", "Leading razor protein", "PEP", "Score", "Experiment", "Charge", "Intensity", "Raw file", "id"]
                if label == "silac":
                    hdr += ["Intensity L", "Intensity H"]
                if label == "silac3":
                    hdr += ["Intensity L", "Intensity M", "Intensity H"]
                if label == "tmt":
                    hdr += ["Reporter intensity corrected 1", "Reporter intensity corrected 2", "Reporter intensity 1", "Reporter intensity 2", "Reporter intensity count 1", "Reporter intensity count 2"]
                rows = []
                i = 0
                for e in range(E):
                    for m, p, s in psms:
                        if (i + e) % 4 == 3:
                            i += 1
                            continue
                        row = ["_" + m + "_", ";".join(p), p[0], s, 10, "E%d" % (e + 1), 2, 1000.0 * (e + 1) + i, "r%d" % e, i]
                        if label == "silac":
                            row += [400.0, 600.0 + i]
                        if label == "silac3":
                            row += [300.0, 100.0, 600.0 + i]
                        if label == "tmt":
                            row += [10.0, 20.0, 11.0, 21.0, 1, 1]
                        rows.append(row)
                        i += 1
                ev = os.path.join(d, "ev_%s_%d.txt" % (label, E))
                with open(ev, "w", newline="") as fh:
                    w = csv.writer(fh, delimiter="\t")
                    w.writerow(hdr)
                    w.writerows(rows)
                out = os.path.join(d, "out_%s_%d%s.txt" % (label, E, "_skip" if extra_args else ""))
                cmd = [lib.PY, "-m", "picked_group_fdr", "--mq_evidence", ev, "--fasta", os.path.join(d, "db.fasta"), "--min-length", "6", "--protein_groups_out", out, "--do_quant", "--methods", "picked_protein_group_mq_input"] + extra_args
                p = subprocess.run(cmd, env=lib.impl_env(), capture_output=True, text=True, cwd=d, timeout=600)
                runs += 1
                case = {"kind": "cli", "label": label, "E": E, "args": extra_args}
                if p.returncode != 0 or not os.path.exists(out):
                    failures.append({"case": case, "why": "CLI run failed (rc=%d): %s" % (p.returncode, (p.stderr or p.stdout)[-300:])})
                    continue
                text = open(out, "rb").read().decode("utf-8")
                rws = py_rows(text)
                hdr_out, body = rws[0], rws[1:]
                why = None
                if len(set(hdr_out)) != len(hdr_out):
                    why = "CLI output has duplicate headers"
                elif any(len(r) != len(hdr_out) for r in body):
                    why = "CLI output is not rectangular"
                elif not body:
                    why = "CLI output has no rows"
                S = 2 if label == "silac" else 3 if label == "silac3" else 0
                T = 2 if label == "tmt" else 0
                lfq = 0 if (extra_args or E < 2 or T) else E * max(1, S)
                want = 9 + 3 + (1 + E) + E + (3 + 2 * E * (1 + S)) + lfq + (3 + E) + 3 * T * E + 1
                if why is None and len(hdr_out) != want:
                    why = "CLI output has %d columns, the data sheet says %d" % (len(hdr_out), want)
                info.append({"label": label, "E": E, "args": extra_args, "columns": len(hdr_out), "rows": len(body)})
                if why:
                    failures.append({"case": case, "why": why})
        finally:
            shutil.rmtree(d, True)
        return {"runs": runs, "info": info, "failures": failures}


# ---- cases marked "oracle_only" (a cell longer than the csv module's default field limit) are decided by the
# independent oracle alone: the Lean csv automaton is quadratic in the cell length
_BaseP13 = P


class P(_BaseP13):
    def model_request(self, case, impl_out):
        if isinstance(case, dict) and case.get("oracle_only"):
            return None
        return super().model_request(case, impl_out)
