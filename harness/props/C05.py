"""C05 — a peptide supports only the group holding all its proteins; score = best PEP.

Correspondence: scoring_strategy.ProteinScoringStrategy.collect_peptide_scores_per_protein (real code,
called directly on a ProteinGroups object built from the generated grouping) vs PgFdr.C05.collectEvidence:
exact equality of the evidence lists (order included), of the PEP list handed to
fdr.calc_post_err_prob_cutoff (observed by wrapping that function), of the error raised; per peptide
ProteinGroups.get_protein_group_idxs / helpers.is_missing_in_protein_groups / helpers.is_shared_peptide
vs groupIdxs / isMissing / isShared; razor: the dicts left by set_peptide_counts_per_protein and the
protein retained by filter_proteins vs peptideCount / bestPepOf / razorPick, with the md5 hex digests
RECORDED from the implementation (scoring_strategy.hashlib is wrapped) and handed to the model as the
abstract tie-break key; scores: BestPEPScore / MultPEPScore.calculate_score on every evidence list.

Floats.  PEPs cross as exact rationals.  The best-PEP score is compared exactly: the model returns the
smallest PEP q of the list and this module evaluates `-1 * np.log10(q + np.nextafter(0, 1))` itself (the
concrete instance of the abstract, antitone `negLog` of the theorems — on all doubles it is antitone but not
strictly); `extra` checks that this float function is strictly antitone on the PEP grid the generator draws from.  The multPEP score is compared
(a) exactly against the same float accumulation replayed over the model's term list (which PEPs enter the
sum, in which order, how many) and (b) in the oracle against the real-number formula
Σ -log10(PEP + 2^-1074) + n·log10(div) evaluated with 60-digit decimals, relative tolerance 1e-9 — one of the
two tolerance comparisons DESIGN.md §4 allows.

A case {"cli": method} (produced by `extra`, replayable) runs the real command line on a tiny consistent
data set; the razor methods must produce a protein-group table.
"""
import csv
import decimal
import hashlib
import os
import random
import shutil
import subprocess
import tempfile
from fractions import Fraction

import lib
from lib import Prop, rat, unrat

PREFIXES = ["", "", "", "REV__", "rev_", "CON__", "OBSOLETE__", "OBSOLETE__REV__"]
PEP_GRID = [0.0, 1e-5, 0.001, 0.001, 0.002, 0.01, 0.01, 0.05, 0.1, 0.25, 0.5, 1.0, 0.0009765625, 0.03125]
DIV_GRID = [1.0, 0.1, 0.5, 0.25, 0.3704, 0.9999]
RAZOR_METHODS = [  # the eight shipped methods with sharedPeptides = "razor" (five read evidence.txt, three Percolator output)
    "maxquant",
    "maxquant_mq_best",
    "maxquant_mq_best_picked",
    "maxquant_picked",
    "razor_picked_mq_input",
    "maxquant_perc_best",
    "maxquant_perc_best_picked",
    "razor_picked",
]
PIPE_METHODS = [  # run through picked_group_fdr.get_protein_group_results with collect_… wrapped
    "picked_protein_group_mq_input",  # bestPEP, rescued subset grouping (two passes), discard, picked group
    "picked_protein_group_mq_input",
    "maxquant",  # multPEP, subset grouping, razor, classic
    "maxquant_mq_best_picked",  # bestPEP, subset grouping, razor, picked group
    "razor_picked_mq_input",  # bestPEP, no grouping, razor
    "savitski_mq_mult",  # multPEP, no grouping, discard
]
PERC_METHODS = {"maxquant_perc_best", "maxquant_perc_best_picked", "razor_picked", "picked_protein_group"}


def fl(j):
    f = unrat(j)
    return f.numerator / f.denominator


def enc_ev(ev):
    return [[rat(float(s)), pep, list(ps)] for (s, pep, ps) in ev]


def dec_ev(evj):
    return [(fl(s), pep, list(ps)) for (s, pep, ps) in evj]


def neg_log(q):
    """the implementation's float expression for one PEP"""
    import numpy as np

    return float(-1 * np.log10(q + np.nextafter(0, 1)))


def mult_replay(terms, div):
    """MultPEPScore._get_score_and_num_peptides + calculate_score replayed over a given term list"""
    import numpy as np

    s = 0.0
    for q in terms:
        s -= np.log10(q + np.nextafter(0, 1))
    raw = float(s)
    s += np.log10(div) * len(terms)
    if len(terms) == 0 or np.isnan(s):
        s = -100.0
    return raw, float(s)


def real_multpep(terms, div):
    """Σ -log10(PEP + 2^-1074) + n log10(div) with 60 significant digits"""
    ctx = decimal.Context(prec=60)
    tiny = Fraction(1, 2**1074)
    tot = decimal.Decimal(0)
    for q in terms:
        f = q + tiny
        d = ctx.divide(decimal.Decimal(f.numerator), decimal.Decimal(f.denominator))
        tot = ctx.subtract(tot, ctx.log10(d))
    fd = Fraction(*float(div).as_integer_ratio())
    dd = ctx.divide(decimal.Decimal(fd.numerator), decimal.Decimal(fd.denominator))
    tot = ctx.add(tot, ctx.multiply(ctx.log10(dd), decimal.Decimal(len(terms))))
    return tot


class _HashlibProxy:
    """stands in for the `hashlib` module inside scoring_strategy: records name -> md5 hex digest"""

    def __init__(self, rec):
        self._rec = rec

    def md5(self, data=b"", **kw):
        h = hashlib.md5(data, **kw)
        try:
            self._rec[data.decode("utf-8")] = h.hexdigest()
        except Exception:
            pass
        return h

    def __getattr__(self, name):
        return getattr(hashlib, name)


class P(Prop):
    id = "C05"
    quick_cases = 2000
    thorough_cases = 200000
    chunk = 500
    rule = (
        "groupings = partitions of a subset of a 6-8 name universe (prefixes none/REV__/rev_/CON__/OBSOLETE__/"
        "OBSOLETE__REV__; rarely an empty group or a protein listed by two groups) x peptide dicts of 0-7 peptides "
        "whose protein lists lie inside one group / across two / contain unknown names / are all unknown / repeat a "
        "name / are empty, in any order; PEPs from a 12-value grid with ties; suppress on/off; discard or razor (counts "
        "from the same or from another peptide list); bestPEP or multPEP (div from a 6-value grid); extra evidence "
        "lists with repeated peptides for the scores. non-trivial = >= 2 groups and >= 2 peptides of which at least one "
        "is assigned and one is not; distinct by sha1 of the case"
    )
    assumptions = [
        "PEPs in the peptide list are finite (parsers/evidence.py drops NaN scores before the list is built)",
        "hashlib.md5 hex digests are injective on the protein names (the model takes them as an abstract key, "
        "recorded from the implementation)",
        "use_shared_peptides ('with_shared') is outside the model: no shipped method sets it",
        "np.log10 is evaluated by this module for the float identities; strict antitonicity of "
        "-log10(q + 5e-324) on the generator's PEP grid is checked in the extra stage",
    ]
    trusted_extra = [
        "float evaluation of -log10(q + nextafter(0,1)) and of the multPEP accumulation in harness/props/C05.py "
        "(the model supplies which PEPs enter, in which order)",
    ]

    # ------------------------------------------------------------------ generation
    def _universe(self, rng):
        n = rng.randint(6, 8)
        base = ["P%d" % i for i in range(1, n + 1)]
        names = []
        for b in base:
            names.append(rng.choice(PREFIXES) + b)
        # make target/decoy pairs likely
        if rng.random() < 0.5:
            names[-1] = "REV__" + base[0]
        return list(dict.fromkeys(names))

    def _pil(self, rng, groups, universe, unknown, npep):
        pil = []
        nonempty = [g for g in groups if g]
        for j in range(npep):
            r = rng.random()
            if r < 0.40 and nonempty:  # inside one group
                g = rng.choice(nonempty)
                ps = rng.sample(g, rng.randint(1, len(g)))
            elif r < 0.60 and len(nonempty) >= 2:  # across two groups
                g1, g2 = rng.sample(nonempty, 2)
                ps = rng.sample(g1, rng.randint(1, len(g1))) + rng.sample(g2, rng.randint(1, len(g2)))
            elif r < 0.72 and nonempty:  # known + unknown
                g = rng.choice(nonempty)
                ps = rng.sample(g, rng.randint(1, len(g))) + rng.sample(unknown, rng.randint(1, min(2, len(unknown))))
            elif r < 0.84:  # all unknown
                ps = rng.sample(unknown, rng.randint(1, min(2, len(unknown))))
            elif r < 0.87:
                ps = []
            else:
                ps = rng.sample(universe + unknown, rng.randint(1, 3))
            if ps and rng.random() < 0.15:  # duplicate listing
                ps = ps + [rng.choice(ps)]
            rng.shuffle(ps)
            pil.append(["PEP%s" % "ABCDEFGHIJ"[j], rat(rng.choice(PEP_GRID)), ps])
        return pil

    def gen_case(self, rng, tier):
        if rng.random() < 0.12:
            return self._gen_pipe(rng)
        universe = self._universe(rng)
        unknown = ["X1", "REV__X2", "X3"]
        members = universe[:]
        rng.shuffle(members)
        # some names of the universe stay outside every group (lost in the rescue step)
        keep = rng.randint(max(1, len(members) - 3), len(members))
        outside = members[keep:]
        members = members[:keep]
        k = rng.randint(1, min(5, len(members)))
        cuts = sorted(rng.sample(range(1, len(members)), k - 1)) if k > 1 else []
        groups = [members[a:b] for a, b in zip([0] + cuts, cuts + [len(members)])]
        r = rng.random()
        if r < 0.04:
            groups.insert(rng.randint(0, len(groups)), [])
        elif r < 0.08 and len(groups) >= 2:  # a protein listed by two groups: the later group owns it
            i, j = rng.sample(range(len(groups)), 2)
            if groups[i]:
                groups[j] = groups[j] + [rng.choice(groups[i])]
        unknown = unknown + outside
        npep = rng.choice([0, 1, 2, 3, 3, 4, 4, 5, 6, 7])
        pil = self._pil(rng, groups, universe, unknown, npep)
        mode = "razor" if rng.random() < 0.4 else "discard"
        counts_pil = None
        if mode == "razor" and rng.random() < 0.25:
            counts_pil = self._pil(rng, groups, universe, unknown, rng.randint(0, 5))
        score = "multPEP" if rng.random() < 0.4 else "bestPEP"
        extra_ev = []
        for _ in range(rng.choice([0, 1, 1, 2])):
            n = rng.randint(0, 5)
            ev = []
            for _ in range(n):
                ev.append([rat(rng.choice(PEP_GRID)), "PEP" + rng.choice("ABC"), rng.sample(universe, rng.randint(1, 2))])
            extra_ev.append(ev)
        suppress = rng.random() < 0.5
        known = {p for g in groups for p in g}
        if not suppress and any(all(q not in known for q in ps) for _, _, ps in pil) and rng.random() < 0.5:
            suppress = True  # keep the share of rejected calls moderate
        return {
            "groups": groups,
            "pil": pil,
            "mode": mode,
            "counts_pil": counts_pil,
            "suppress": suppress,
            "score": score,
            "div": rat(rng.choice(DIV_GRID)),
            "extra_ev": extra_ev,
        }

    def _gen_pipe(self, rng):
        """a peptide list for the whole pipeline: groupings then come from the real grouping / rescue code"""
        n = rng.randint(3, 7)
        targets = ["P%d" % i for i in range(1, n + 1)]
        universe = targets + ["REV__" + t for t in rng.sample(targets, rng.randint(1, n))]
        if rng.random() < 0.3:
            universe.append("CON__P9")
        singles = [[u] for u in universe]
        pil = [x for x in self._pil(rng, singles, universe, universe, rng.randint(2, 9)) if x[2]]
        return {"pipe": rng.choice(PIPE_METHODS), "pil": pil, "npseed": rng.randint(0, 10**6)}

    def exhaustive_cases(self, tier):
        # every way to list <= 2 proteins (with repetition, incl. an unknown one) for one peptide against a fixed
        # 3-group grouping, alone and next to a second peptide, both suppress settings, both modes
        import itertools

        groups = [["P1", "P2"], ["REV__P1"], ["P3"]]
        names = ["P1", "P2", "REV__P1", "P3", "X1"]
        lists = [[]] + [[a] for a in names] + [[a, b] for a in names for b in names]
        out = []
        for ps, sup, mode in itertools.product(lists, [False, True], ["discard", "razor"]):
            for second in ([], [["PEPB", rat(0.01), ["P2"]]], [["PEPB", rat(0.001), ["P3", "P1"]]]):
                out.append(
                    {
                        "groups": groups,
                        "pil": [["PEPA", rat(0.001), ps]] + second,
                        "mode": mode,
                        "counts_pil": None,
                        "suppress": sup,
                        "score": "bestPEP",
                        "div": rat(1.0),
                        "extra_ev": [],
                    }
                )
        return out

    # ------------------------------------------------------------------ the implementation
    def run_impl(self, case):
        if "cli" in case:
            return self._run_cli(case)
        if "pipe" in case:
            return self._run_pipe(case)
        import numpy as np
        from picked_group_fdr import fdr, helpers
        from picked_group_fdr import scoring_strategy as ss
        from picked_group_fdr.protein_groups import ProteinGroups

        groups = [list(g) for g in case["groups"]]
        pg = ProteinGroups.init_from_list(groups)
        pil = {p: (fl(s), list(ps)) for p, s, ps in case["pil"]}
        razor = case["mode"] == "razor"
        st = ss.ProteinScoringStrategy(case["score"] + (" razor" if razor else ""))
        if case["score"] == "multPEP":
            st.protein_score.div = fl(case["div"])
        out = {}
        rec = {"md5": {}}
        # per peptide: positions of its proteins and the two helper predicates
        idxs, missing, shared = [], [], []
        for p, s, ps in case["pil"]:
            s_ = pg.get_protein_group_idxs(list(ps))
            idxs.append(sorted(int(i) for i in s_))
            missing.append(bool(helpers.is_missing_in_protein_groups(s_)))
            shared.append(bool(helpers.is_shared_peptide(s_)))
        out["idxs"], out["missing"], out["shared"] = idxs, missing, shared

        old_hashlib = ss.hashlib
        old_cut = fdr.calc_post_err_prob_cutoff
        seen = {}

        def cut(peps, level):
            seen["peps"] = [float(x) for x in peps]
            return old_cut(peps, level)

        ss.hashlib = _HashlibProxy(rec["md5"])
        fdr.calc_post_err_prob_cutoff = cut
        try:
            if razor:
                cp = case["counts_pil"] if case["counts_pil"] is not None else case["pil"]
                st.set_peptide_counts_per_protein({p: (fl(s), list(ps)) for p, s, ps in cp})
                picks, counts, best = [], [], []
                for p, s, ps in case["pil"]:
                    try:
                        picks.append(st.filter_proteins(list(ps))[0])
                    except IndexError:
                        picks.append(None)
                    counts.append([int(st.peptide_counts_per_protein.get(q, 0)) for q in ps])
                    best.append([rat(float(st.best_peptide_score_per_protein.get(q, 1.0))) for q in ps])
                out["razor"] = {"picks": picks, "counts": counts, "best": best}
            try:
                ev = st.collect_peptide_scores_per_protein(pg, pil, 0.01, suppress_missing_protein_warning=case["suppress"])
                out["collect"] = {"evidence": [enc_ev(e) for e in ev], "peps": [rat(x) for x in seen.get("peps", [])]}
                rec["cutoff"] = rat(float(st.peptide_score_cutoff))
            except IndexError:
                if razor and any(len(ps) == 0 for _, _, ps in case["pil"]):
                    out["collect"] = {"err": "razor_no_proteins"}
                elif len(groups) == 0:
                    out["collect"] = {"err": "unknown_protein"}  # the message itself indexes group 0
                else:
                    raise
            except Exception as e:
                if "Could not find any of the proteins" in str(e):
                    out["collect"] = {"err": "unknown_protein"}
                else:
                    raise
        finally:
            ss.hashlib = old_hashlib
            fdr.calc_post_err_prob_cutoff = old_cut

        def score_of(ev):
            d = {"score": rat(float(st.calculate_score(ev)))}
            if case["score"] == "multPEP":
                raw, n = st.protein_score._get_score_and_num_peptides(ev)
                d["sum"], d["n"] = rat(float(raw)), int(n)
            return d

        if "evidence" in out["collect"]:
            out["scores"] = [score_of(e) for e in ev]
            # which groups take part in the ranking (classic competition: nothing but the evidence filter
            # and the contaminant skip)
            from picked_group_fdr.competition import ClassicStrategy

            np.random.seed(1)
            try:
                kept, _, _ = ClassicStrategy().do_competition(pg, ev, st)
                kept = list(kept)
                out["ranked"] = [
                    (None if helpers.is_contaminant(g) else any(k is g for k in kept)) for g in pg.protein_groups
                ]
            except ValueError as e:
                if "not enough values to unpack" in str(e):
                    out["ranked"] = {"err": "no_ranked_groups"}
                else:
                    raise
        out["extra_scores"] = [score_of(dec_ev(e)) for e in case["extra_ev"]]
        out["_rec"] = rec
        return out

    def _run_pipe(self, case):
        """the whole pipeline on a peptide list, every call of collect_peptide_scores_per_protein recorded"""
        import numpy as np
        from picked_group_fdr import fdr, methods
        from picked_group_fdr import picked_group_fdr as pgf
        from picked_group_fdr import scoring_strategy as ss

        cfg = methods.parse_method_toml(case["pipe"], False)
        st = cfg.score_type
        pil = {p: (fl(s), list(ps)) for p, s, ps in case["pil"]}
        calls, md5, seen = [], {}, {}
        orig = st.collect_peptide_scores_per_protein

        def wrapped(pg, pil_, cutoff, suppress_missing_protein_warning=False):
            rec = {
                "groups": [list(g) for g in pg.protein_groups],
                "pil": [[p, rat(float(sc)), list(ps)] for p, (sc, ps) in pil_.items()],
                "suppress": bool(suppress_missing_protein_warning),
            }
            seen.clear()
            try:
                ev = orig(pg, pil_, cutoff, suppress_missing_protein_warning=suppress_missing_protein_warning)
            except Exception as e:
                rec["collect"] = {"err": "unknown_protein" if "Could not find any of the proteins" in str(e) else type(e).__name__}
                calls.append(rec)
                raise
            rec["collect"] = {"evidence": [enc_ev(e) for e in ev], "peps": [rat(x) for x in seen.get("peps", [])]}
            calls.append(rec)
            return ev

        old_hashlib, old_cut = ss.hashlib, fdr.calc_post_err_prob_cutoff

        def cut(peps, level):
            seen["peps"] = [float(x) for x in peps]
            return old_cut(peps, level)

        st.collect_peptide_scores_per_protein = wrapped
        ss.hashlib = _HashlibProxy(md5)
        fdr.calc_post_err_prob_cutoff = cut
        np.random.seed(case["npseed"])
        end = "table"
        try:
            res = pgf.get_protein_group_results(pil, method_config=cfg)
            end = "rows=%d" % len(res)
        except ValueError as e:
            if "not enough values to unpack" not in str(e):
                raise
            end = "no_ranked_groups"
        except IndexError as e:
            # multPEP with no group holding evidence: optimize_hyperparameters indexes an empty array
            if "too many indices for array" not in str(e) or any(g for g in calls[-1]["collect"].get("evidence", [[1]])):
                raise
            end = "no_ranked_groups"
        except Exception as e:
            if not (calls and "err" in calls[-1]["collect"]):
                raise
            end = calls[-1]["collect"]["err"]
        finally:
            ss.hashlib, fdr.calc_post_err_prob_cutoff = old_hashlib, old_cut
        return {"calls": calls, "razor": bool(st.use_razor), "_rec": {"md5": md5, "end": end}}

    # ------------------------------------------------------------------ the model
    def _keys(self, case, impl_out):
        names = set()
        for src in (case["pil"], case.get("counts_pil") or []):
            for _, _, ps in src:
                names.update(ps)
        rec = (impl_out.get("_rec") or {}).get("md5", {}) if isinstance(impl_out, dict) else {}
        # digests recorded from the implementation; names the implementation never hashed get the same function
        return [[n, rec.get(n) or hashlib.md5(n.encode("utf-8")).hexdigest()] for n in sorted(names)]

    def _razor_arg(self, case, impl_out):
        if case["mode"] != "razor":
            return None
        cp = case["counts_pil"] if case["counts_pil"] is not None else case["pil"]
        return {"pil": cp, "keys": self._keys(case, impl_out)}

    def model_request(self, case, impl_out):
        if "cli" in case:
            return None
        if "pipe" in case:
            if not isinstance(impl_out, dict) or "calls" not in impl_out:
                return None
            rz = {"pil": case["pil"], "keys": self._keys(case, impl_out)} if impl_out["razor"] else None
            return [
                {"op": "c05_collect", "groups": c["groups"], "pil": c["pil"], "razor": rz, "suppress": c["suppress"]}
                for c in impl_out["calls"]
            ] or None
        rz = self._razor_arg(case, impl_out)
        reqs = [{"op": "c05_collect", "groups": case["groups"], "pil": case["pil"], "razor": rz, "suppress": case["suppress"]}]
        for p, s, ps in case["pil"]:
            reqs.append({"op": "c05_idxs", "groups": case["groups"], "proteins": ps})
        if rz is not None:
            for p, s, ps in case["pil"]:
                reqs.append({"op": "c05_razor_pick", "razor": rz, "proteins": ps})
        evs = []
        if isinstance(impl_out, dict) and "evidence" in impl_out.get("collect", {}):
            evs = list(impl_out["collect"]["evidence"])
        for e in evs + list(case["extra_ev"]):
            reqs.append({"op": "c05_score", "kind": case["score"], "evidence": e})
        return reqs

    def _score_view(self, case, resp):
        if "proto_err" in resp:
            return resp
        if case["score"] == "bestPEP":
            if resp["minpep"] is None:
                return {"score": rat(-100.0)}
            return {"score": rat(neg_log(fl(resp["minpep"])))}
        terms = [fl(t) for t in resp["terms"]]
        raw, sc = mult_replay(terms, fl(case["div"]))
        return {"score": rat(sc), "sum": rat(raw), "n": int(resp["n"])}

    def model_view(self, case, resp, impl_out):
        for r in resp:
            if "proto_err" in r:
                return {"proto_err": r["proto_err"]}
        if "pipe" in case:
            return [self._collect_view(r) for r in resp]
        n = len(case["pil"])
        out = {}
        c = resp[0]
        ix = resp[1 : 1 + n]
        out["idxs"] = [sorted(set(int(i) for i in r["idxs"])) for r in ix]
        out["missing"] = [bool(r["missing"]) for r in ix]
        out["shared"] = [bool(r["shared"]) for r in ix]
        pos = 1 + n
        if case["mode"] == "razor":
            rp = resp[pos : pos + n]
            pos += n
            out["razor"] = {
                "picks": [r["pick"] for r in rp],
                "counts": [[int(x) for x in r["counts"]] for r in rp],
                "best": [[rat(unrat(x)) for x in r["best"]] for r in rp],
            }
        if "err" in c:
            out["collect"] = {"err": c["err"]}
        else:
            out["collect"] = {
                "evidence": [[[rat(unrat(s)), p, ps] for s, p, ps in g] for g in c["evidence"]],
                "peps": [rat(unrat(x)) for x in c["peps"]],
            }
        srs = resp[pos:]
        impl_ok = isinstance(impl_out, dict) and "evidence" in impl_out.get("collect", {})
        ng = len(impl_out["collect"]["evidence"]) if impl_ok else 0
        if impl_ok:
            out["scores"] = [self._score_view(case, r) for r in srs[:ng]]
        if "err" not in c:
            flags = [bool(b) for b in c["rankable"]]
            view = [None if self._is_contaminant(g) else f for g, f in zip(case["groups"], flags)]
            out["ranked"] = view if any(v for v in view) else {"err": "no_ranked_groups"}
        out["extra_scores"] = [self._score_view(case, r) for r in srs[ng:]]
        return out

    @staticmethod
    def _collect_view(c):
        if "err" in c:
            return {"err": c["err"]}
        return {
            "evidence": [[[rat(unrat(s)), p, ps] for s, p, ps in g] for g in c["evidence"]],
            "peps": [rat(unrat(x)) for x in c["peps"]],
        }

    @staticmethod
    def _is_contaminant(g):
        return all("CON__" in x for x in g)

    @staticmethod
    def _is_decoy(g):
        return all("REV__" in x for x in g) or all("rev_" in x for x in g)

    def impl_view(self, case, impl_out):
        if "pipe" in case and isinstance(impl_out, dict) and "calls" in impl_out:
            return [c["collect"] for c in impl_out["calls"]]
        if isinstance(impl_out, dict) and "_rec" in impl_out:
            return {k: v for k, v in impl_out.items() if k != "_rec"}
        return impl_out

    # ------------------------------------------------------------------ the property, stated directly
    def oracle(self, case, impl_out):
        if "cli" in case:
            if impl_out.get("rc") != 0 or not impl_out.get("rows"):
                return "command line run of method %s produced no protein-group table: rc=%s %s" % (
                    case["cli"],
                    impl_out.get("rc"),
                    impl_out.get("last", ""),
                )
            return None
        if "pipe" in case:
            if not isinstance(impl_out, dict) or "calls" not in impl_out:
                return "no result: %r" % (impl_out,)
            for k, c in enumerate(impl_out["calls"]):
                why, _ = self._join_oracle(
                    c["groups"], c["pil"], impl_out["razor"], case["pil"], c["suppress"], c["collect"]
                )
                if why:
                    return "call %d of collect_peptide_scores_per_protein inside method %s (suppress=%s): %s" % (
                        k,
                        case["pipe"],
                        c["suppress"],
                        why,
                    )
            return None
        if not isinstance(impl_out, dict) or "collect" not in impl_out:
            return "no result: %r" % (impl_out,)
        groups = case["groups"]
        got = impl_out["collect"]
        cp = case["counts_pil"] if case["counts_pil"] is not None else case["pil"]
        why, done = self._join_oracle(groups, case["pil"], case["mode"] == "razor", cp, case["suppress"], got)
        if why or done:
            return why
        # scores
        for evj, sc in list(zip(got["evidence"], impl_out.get("scores", []))) + list(
            zip(case["extra_ev"], impl_out.get("extra_scores", []))
        ):
            why = self._score_oracle(case, evj, sc)
            if why:
                return why
        # a group without evidence is not ranked, every other (non-contaminant) group is
        rk = impl_out.get("ranked")
        want = [None if self._is_contaminant(g) else bool(e) for g, e in zip(groups, got["evidence"])]
        if not any(w for w in want):
            want = {"err": "no_ranked_groups"}
        if rk != want:
            return "ranked groups %r, expected %r (a group is ranked iff it has evidence)" % (rk, want)
        return None

    def _join_oracle(self, groups, pil, razor, counts_pil, suppress, got):
        """the join between `protein -> position` and `peptide -> proteins`, stated directly.
        Returns (reason or None, True if the call was (rightly) rejected)."""
        where = {}
        for i, g in enumerate(groups):
            for p in g:
                where[p] = i
        if razor:
            cnt, best = {}, {}
            for pep, s, ps in counts_pil:
                for q in set(ps):
                    cnt[q] = cnt.get(q, 0) + 1
                    best[q] = min(best.get(q, Fraction(2)), unrat(s))
        exp_ev = [[] for _ in groups]
        exp_peps = []
        exp_err = None
        for pep, s, ps in pil:
            if razor:
                if not ps:
                    exp_err = "razor_no_proteins"
                    break
                top = max(
                    ps,
                    key=lambda q: (cnt.get(q, 0), -best.get(q, Fraction(1)), hashlib.md5(q.encode("utf-8")).hexdigest(), q),
                )
                ps = [top]
            if all(q not in where for q in ps):  # none of its proteins is in a group
                if not suppress:
                    exp_err = "unknown_protein"
                    break
                continue  # "is ignored otherwise"
            tgt = {where.get(q, -1) for q in ps}
            if len(tgt) == 1:  # all proteins in one single group
                (i,) = tgt
                exp_ev[i].append([rat(unrat(s)), pep, ps])
                if not self._is_decoy(ps):
                    exp_peps.append(rat(unrat(s)))
        if exp_err is not None:
            if got.get("err") != exp_err:
                return "expected the call to be rejected (%s), got %r" % (exp_err, got if "err" in got else "a result"), True
            return None, True
        if "err" in got:
            return "unexpected rejection %r" % (got["err"],), True
        for i, g in enumerate(groups):
            if got["evidence"][i] != exp_ev[i]:
                extra = [e for e in got["evidence"][i] if e not in exp_ev[i]]
                lost = [e for e in exp_ev[i] if e not in got["evidence"][i]]
                if not extra and not lost:
                    return "group %d %r: evidence is not in peptide-list order (or repeats a peptide): %r" % (
                        i,
                        g,
                        [e[1] for e in got["evidence"][i]],
                    ), False
                return "group %d %r: evidence differs from 'all proteins of the peptide lie in this one group': unexpected %r, missing %r" % (
                    i,
                    g,
                    extra,
                    lost,
                ), False
        if "peps" in got and got["peps"] != exp_peps:  # (not observed at pipeline level: harness/pipeline_oracles.py)
            return "PEP list for the cutoff %r differs from the PEPs of the non-decoy evidence peptides %r" % (
                [float(unrat(x)) for x in got["peps"]],
                [float(unrat(x)) for x in exp_peps],
            ), False
        if razor:
            for e in (x for g in got["evidence"] for x in g):
                if len(e[2]) != 1:
                    return "razor evidence lists %d proteins" % len(e[2]), False
        return None, False

    def _score_oracle(self, case, evj, sc):
        got = fl(sc["score"])
        peps = [unrat(e[0]) for e in evj]
        if case["score"] == "bestPEP":
            want = neg_log(float(min(peps))) if peps else -100.0
            if got != want:
                return "bestPEP score %r, but -log10 of the smallest PEP %r is %r" % (got, float(min(peps)) if peps else None, want)
            # more evidence never lowers the score: every prefix scores at most the whole
            for k in range(len(peps)):
                pre = neg_log(float(min(peps[:k]))) if k else -100.0
                if pre > got:
                    return "bestPEP score dropped from %r to %r when evidence was added" % (pre, got)
            return None
        bestp = {}
        for e in evj:
            q = unrat(e[0])
            bestp[e[1]] = min(bestp.get(e[1], q), q)
        n = len(bestp)
        if sc["n"] != n:
            return "multPEP counted %d peptides, %d distinct" % (sc["n"], n)
        if n == 0:
            return None if got == -100.0 else "multPEP score of no evidence is %r" % got
        real = real_multpep(list(bestp.values()), fl(case["div"]))
        err = abs(decimal.Decimal(got) - real)
        if err > decimal.Decimal("1e-9") * max(decimal.Decimal(1), abs(real)):
            return "multPEP score %r differs from sum(-log10 PEP)+n*log10(div) = %s" % (got, str(real)[:20])
        return None

    # ------------------------------------------------------------------ bookkeeping
    def nontrivial(self, case, impl_out):
        if "cli" in case or not isinstance(impl_out, dict):
            return False
        if "pipe" in case:
            cs = [c["collect"] for c in impl_out.get("calls", []) if "evidence" in c["collect"]]
            return any(len(c["evidence"]) >= 2 and 0 < sum(len(g) for g in c["evidence"]) < len(case["pil"]) for c in cs)
        c = impl_out.get("collect", {})
        if "evidence" not in c:
            return len(case["pil"]) >= 2 and len(case["groups"]) >= 2
        assigned = sum(len(g) for g in c["evidence"])
        return len(case["groups"]) >= 2 and len(case["pil"]) >= 2 and 0 < assigned < len(case["pil"])

    def features(self, case, impl_out):
        if "cli" in case:
            return ["cli"]
        if "pipe" in case:
            f = ["pipe", "pipe:" + case["pipe"]]
            if isinstance(impl_out, dict) and "calls" in impl_out:
                cs = impl_out["calls"]
                f.append("pipe:calls=%d" % len(cs))
                f.append("pipe:end=" + ("table" if impl_out["_rec"]["end"].startswith("rows") else impl_out["_rec"]["end"]))
                if len(cs) == 2 and cs[0]["groups"] != cs[1]["groups"]:
                    f.append("pipe:rescue-regrouped")
                if any(len(g) > 1 for c in cs for g in c["groups"]):
                    f.append("pipe:multi-protein-group")
                if any(any(x.startswith("OBSOLETE__") for x in g) for c in cs for g in c["groups"]):
                    f.append("pipe:obsolete-placeholder")
            return f
        f = ["mode=" + case["mode"], "score=" + case["score"], "suppress=%s" % case["suppress"]]
        f.append("groups=%d" % len(case["groups"]))
        f.append("peptides=%s" % (len(case["pil"]) if len(case["pil"]) < 6 else "6+"))
        if isinstance(impl_out, dict):
            c = impl_out.get("collect", {})
            if "err" in c:
                f.append("err=" + c["err"])
            elif "evidence" in c:
                f.append("assigned=%d" % min(4, sum(len(g) for g in c["evidence"])))
                if isinstance(impl_out.get("ranked"), dict):
                    f.append("no_ranked_groups")
            for m, s, ix in zip(impl_out.get("missing", []), impl_out.get("shared", []), impl_out.get("idxs", [])):
                if m and ix:
                    f.append("peptide:all-unknown")
                elif not ix:
                    f.append("peptide:no-proteins")
                elif s and -1 in ix:
                    f.append("peptide:known+unknown")
                elif s:
                    f.append("peptide:across-groups")
                else:
                    f.append("peptide:one-group")
            if case["mode"] == "razor" and case["counts_pil"] is not None:
                f.append("razor:foreign-counts")
            rz = impl_out.get("razor")
            if rz:
                for (p, s, ps), cs, bs in zip(case["pil"], rz["counts"], rz["best"]):
                    if len(set(ps)) > 1:
                        top = max(cs)
                        tied = [i for i, c in enumerate(cs) if c == top and ps[i] not in ps[:i]]
                        if len(tied) > 1:
                            tb = min(unrat(bs[i]) for i in tied)
                            f.append("razor:count-tie" + ("+pep-tie" if sum(1 for i in tied if unrat(bs[i]) == tb) > 1 else ""))
        if any(len({e[1] for e in ev}) < len(ev) for ev in case["extra_ev"]):
            f.append("score:repeated-peptide")
        return f

    def shrink(self, case):
        if "cli" in case:
            return
        if "pipe" in case:
            pil = case["pil"]
            for i in range(len(pil)):
                yield {**case, "pil": pil[:i] + pil[i + 1 :]}
            for i, (p, s, ps) in enumerate(pil):
                for k in range(len(ps)):
                    if len(ps) > 1:
                        yield {**case, "pil": pil[:i] + [[p, s, ps[:k] + ps[k + 1 :]]] + pil[i + 1 :]}
            return
        base = dict(case)
        if case["extra_ev"]:
            yield {**base, "extra_ev": []}
            for i in range(len(case["extra_ev"])):
                yield {**base, "extra_ev": case["extra_ev"][:i] + case["extra_ev"][i + 1 :]}
            for i, ev in enumerate(case["extra_ev"]):
                for k in range(len(ev)):
                    yield {**base, "extra_ev": case["extra_ev"][:i] + [ev[:k] + ev[k + 1 :]] + case["extra_ev"][i + 1 :]}
        pil = case["pil"]
        for i in range(len(pil)):
            yield {**base, "pil": pil[:i] + pil[i + 1 :]}
        if case["counts_pil"] is not None:
            yield {**base, "counts_pil": None}
            cp = case["counts_pil"]
            for i in range(len(cp)):
                yield {**base, "counts_pil": cp[:i] + cp[i + 1 :]}
        if case["mode"] == "razor":
            yield {**base, "mode": "discard", "counts_pil": None}
        if case["score"] == "multPEP":
            yield {**base, "score": "bestPEP"}
        gs = case["groups"]
        for i in range(len(gs)):
            if len(gs) > 1:
                yield {**base, "groups": gs[:i] + gs[i + 1 :]}
        for i, g in enumerate(gs):
            for k in range(len(g)):
                if len(g) > 1:  # keep groups non-empty: an empty group is a case of its own
                    yield {**base, "groups": gs[:i] + [g[:k] + g[k + 1 :]] + gs[i + 1 :]}
        for i, (p, s, ps) in enumerate(pil):
            for k in range(len(ps)):
                yield {**base, "pil": pil[:i] + [[p, s, ps[:k] + ps[k + 1 :]]] + pil[i + 1 :]}

    # ------------------------------------------------------------------ the command line on a tiny data set
    def _run_cli(self, case):
        """`python -m picked_group_fdr --mq_evidence … --fasta … --methods <m>` on three proteins / six peptides"""
        method = case["cli"]
        prot = {"P1": "MAAAAAAKCCCCCCRGGGGGGK", "P2": "MCCCCCCREEEEEEKHHHHHHR", "P3": "MLLLLLLKNNNNNNR"}
        psms = [
            ("AAAAAAK", ["P1"], 0.0001),
            ("CCCCCCR", ["P1", "P2"], 0.0002),
            ("GGGGGGK", ["P1"], 0.001),
            ("EEEEEEK", ["P2"], 0.002),
            ("HHHHHHR", ["P2"], 0.2),
            ("NNNNNNR", ["P3"], 0.003),
            ("NNNNNK", ["REV__P3"], 0.004),  # tryptic peptide of the decoy of P3 (reversed, K/R swapped with the preceding residue)
        ]
        d = tempfile.mkdtemp(prefix="pgfdr_c05_")
        try:
            with open(os.path.join(d, "db.fasta"), "w") as f:
                f.write("".join(">%s\n%s\n" % kv for kv in prot.items()))
            with open(os.path.join(d, "evidence.txt"), "w", newline="") as f:
                w = csv.writer(f, delimiter="\t")
                w.writerow(
                    ["Modified sequence", "Leading proteins", "Leading razor protein", "PEP", "Score", "Experiment", "Charge", "Intensity", "Raw file", "id"]
                )
                for i, (m, p, s) in enumerate(psms):
                    w.writerow(["_" + m + "_", ";".join(p), p[0], s, 10, "E1", 2, 1000.0, "r1", i])
            with open(os.path.join(d, "perc.txt"), "w", newline="") as f:
                w = csv.writer(f, delimiter="\t")
                w.writerow(["PSMId", "score", "q-value", "posterior_error_prob", "peptide", "proteinIds"])
                for i, (m, p, s) in enumerate(psms):
                    w.writerow(["raw_%d_2_1" % i, 1.0, 0.01, s, "-." + m + ".-"] + p)
            outp = os.path.join(d, "out.txt")
            inp = ["--perc_evidence", os.path.join(d, "perc.txt")] if method in PERC_METHODS else ["--mq_evidence", os.path.join(d, "evidence.txt")]
            cmd = [
                lib.PY, "-m", "picked_group_fdr", "--methods", method, "--fasta", os.path.join(d, "db.fasta"),
                "--min-length", "6", "--protein_groups_out", outp,
            ] + inp  # fmt: skip
            p = subprocess.run(cmd, env=lib.impl_env(), capture_output=True, text=True, cwd=d, timeout=300)
            rows = None
            table = []
            if os.path.exists(outp):
                with open(outp) as f:
                    rd = list(csv.reader(f, delimiter="\t"))
                rows = len(rd) - 1
                if rd:
                    h = rd[0]
                    pi = h.index("Protein IDs") if "Protein IDs" in h else 0
                    table = sorted(r[pi] for r in rd[1:])
            last = [l for l in (p.stdout + p.stderr).splitlines() if "Error" in l or "Exception" in l]
            return {"rc": p.returncode, "rows": rows, "groups": table, "last": last[-1][:200] if last else ""}
        finally:
            shutil.rmtree(d, ignore_errors=True)

    def extra(self, ctx):
        if ctx.get("replay"):
            return None
        fails, info, n = [], {}, 0
        # 1. the float function standing behind `negLog` is strictly antitone on the generator's PEP grid
        grid = sorted(set(PEP_GRID))
        vals = [neg_log(q) for q in grid]
        n += 1
        info["neglog_strictly_antitone_on_grid"] = all(a > b for a, b in zip(vals, vals[1:]))
        if not info["neglog_strictly_antitone_on_grid"]:
            fails.append({"case": {"grid": grid}, "why": "-log10(q + 5e-324) is not strictly decreasing on the PEP grid", "kind": "assumption"})
        # 2. razor methods through the real command line (the premature razor filter of parsers/psm.py)
        # (corpus/C05/01-… runs `maxquant` first on every check; here another razor method, all eight when thorough)
        methods = ["razor_picked_mq_input"] if ctx["tier"] == "quick" else RAZOR_METHODS
        control = ["picked_protein_group_mq_input"] if ctx["tier"] == "quick" else ["picked_protein_group_mq_input", "savitski_mq_mult", "picked_protein_group"]
        info["cli"] = {}
        for m in methods + control:
            case = {"cli": m}
            out = self.run_impl(case)
            n += 1
            info["cli"][m] = {"rc": out["rc"], "rows": out["rows"], "groups": out.get("groups")}
            why = self.oracle(case, out)
            if why:
                fails.append({"case": case, "impl": out, "why": why, "kind": "cli"})
        return {"evaluations": n, "failures": fails, "info": info}


# ---- pipeline-level cases: the whole `get_protein_group_results` for every shipped method file against the composed Lean
# model PgFdr.Pipeline.run, with the C05 statement as the oracle (harness/pipeline_oracles.py:oracle_c05): in EVERY pass the
# evidence handed to the competition is the join (`_join_oracle`: discard / razor with md5) of that pass's groups with the
# FULL peptide list of the case, every best-PEP score is -log10 of the smallest PEP of the group's evidence, and the
# peptide dictionary the caller passed in is unchanged after the call.  (The "pipe" cases above wrap the collection
# function and take the list IT RECEIVED as given; here the list is the caller's.)
import pipeline_oracles as _po  # noqa: E402

_BaseP = P


class P(_po.PipelineMixin2, _BaseP):
    pipeline_share = 0.05      # ~100 of the 2 000 quick cases
    pipeline_oracles = ("c05",)
    rule = _BaseP.rule + (
        "; 5 % of the cases run the whole inference function (harness/pipeline.py: a shipped method file through "
        "methods.parse_method_toml, structured peptide lists of harness/gen_pil.py incl. rescue-merge inputs) and state C05 "
        "on the evidence and scores handed to the competition of every pass against the caller's full peptide list"
    )
