"""C06 — every reported row is consistent with its group's evidence peptides.

Correspondence: the REAL `ProteinGroupResults.from_protein_groups` (and, for the first position,
`ProteinGroupResult.from_protein_group` on its own) is called on generated
(groups, evidence per group, scores, q-values, cutoff, keep-all) and compared field by field (all nine
base fields of every row, or the error) with the Lean model `PgFdr.C06.fromProteinGroups` /
`fromProteinGroup` rendered by `PgFdr.C06.render`.

The model counts a peptide ONCE per protein even if the protein is listed repeatedly for it (that is
the property text); the pinned code iterated the protein list with repetitions
(fixes/C06-count-once-per-listed-protein.diff).

Numbers: PEPs, scores, q-values and the cutoff are exact images of doubles and only compared, copied
and ordered — never combined arithmetically — so the rational model is exact with no near-tie class.
`max(counts) / 2` is an exact double for every count below 2^53.
"""
from fractions import Fraction

from lib import Prop, rat, unrat

NAMES = ["G1", "G2", "G3", "G4", "P5", "P6"]
PEPS = [0.001, 0.01, 0.05, 0.2]
FIELDS = [
    "proteinIds", "majorityProteinIds", "peptideCountsUnique", "bestPeptide", "numberOfProteins",
    "qValue", "score", "reverse", "potentialContaminant",
]


def fl(j):
    if j == "inf":
        return float("inf")
    f = unrat(j)
    return f.numerator / f.denominator


def o_all(group, marker):
    for x in group:
        if x.find(marker) < 0:
            return False
    return True


def row_of(r):
    return {
        "proteinIds": r.proteinIds,
        "majorityProteinIds": r.majorityProteinIds,
        "peptideCountsUnique": r.peptideCountsUnique,
        "bestPeptide": r.bestPeptide,
        "numberOfProteins": int(r.numberOfProteins),
        "qValue": rat(float(r.qValue)),
        "score": rat(float(r.score)),
        "reverse": r.reverse,
        "potentialContaminant": r.potentialContaminant,
    }


def canon_row(x):
    if x is None:
        return None
    y = {k: x[k] for k in FIELDS}
    y["qValue"] = rat(unrat(x["qValue"]))
    y["score"] = rat(unrat(x["score"]))
    return y


def guarded(fn):
    try:
        return fn()
    except IndexError:
        return {"err": "no_evidence"}
    except ValueError as e:
        if "not enough values to unpack" not in str(e):
            raise
        return {"err": "empty_group"}


class P(Prop):
    id = "C06"
    quick_cases = 3000
    thorough_cases = 500000
    chunk = 500
    rule = (
        "0-5 groups of 1-4 identifiers (prefix per group: none / REV__ / rev_ / CON__ / OBSOLETE__ / OBSOLETE__REV__ / "
        "mixed; empty groups), 0-5 evidence peptides per group with PEPs on a 4-point grid (ties frequent), protein "
        "lists = sub-multisets of the group with repeated identifiers in gene-level cases and rarely a foreign "
        "protein, rarely a repeated peptide; cutoff on and between the grid values and inf; keep-all on/off; scores "
        "non-increasing with ties (sometimes arbitrary), lists of unequal length; non-trivial = at least one row "
        "reported from a group with >= 2 members and >= 2 evidence peptides; distinct by sha1 of the case"
    )
    assumptions = [
        "Python compares (float, str, list[str]) tuples lexicographically by code point; sorted() is a total stable sort on them",
        "evidence PEPs are finite (NaN PEPs never reach a group's evidence: they are dropped at ingestion)",
    ]

    # ------------------------------------------------------------------ generation
    def gen_case(self, rng, tier):
        k = rng.choice([0, 1, 1, 2, 2, 3, 4, 5])
        gene = rng.random() < 0.45
        keep_all = rng.random() < 0.35
        groups, infos = [], []
        pool = list(NAMES)
        disjoint = rng.random() < 0.7
        for gi in range(k):
            r = rng.random()
            if r < 0.04:
                g = []
            else:
                m = rng.choice([1, 2, 2, 3, 4])
                if disjoint:
                    base = [f"{n}_{gi}" for n in rng.sample(NAMES, m)]
                else:
                    base = rng.sample(pool, m)
                pk = rng.random()
                if pk < 0.5:
                    g = base
                elif pk < 0.62:
                    g = ["REV__" + b for b in base]
                elif pk < 0.68:
                    g = ["rev_" + b for b in base]
                elif pk < 0.76:
                    g = ["CON__" + b for b in base]
                elif pk < 0.84:
                    g = ["OBSOLETE__" + b for b in base[:1]]
                elif pk < 0.88:
                    g = ["OBSOLETE__REV__" + b for b in base[:1]]
                elif pk < 0.94:
                    g = [rng.choice(["", "REV__", "rev_", "CON__"]) + b for b in base]
                else:
                    g = [rng.choice(["CON__REV__", "REV__", "CON__"]) + b for b in base]
            ev = []
            npep = rng.choice([0, 1, 2, 3, 3, 4, 5]) if not keep_all else rng.choice([1, 2, 3, 3, 4, 5, 0] if rng.random() < 0.1 else [1, 2, 3, 4, 5])
            if not g:
                npep = rng.choice([0, 1])
            for t in range(npep):
                src = g if g else ["X"]
                ps = [p for p in src if rng.random() < 0.6] or [rng.choice(src)]
                if gene and rng.random() < 0.6:
                    ps = ps + [rng.choice(ps) for _ in range(rng.randint(1, 2))]
                    if rng.random() < 0.5:
                        rng.shuffle(ps)
                if rng.random() < 0.04:
                    ps = ps + ["FOREIGN"]
                ev.append([rat(rng.choice(PEPS)), "PEP" + "ABCDEFGH"[rng.randrange(8)] + str(t), ps])
            if ev and rng.random() < 0.06:  # the same peptide twice (cannot happen inside the pipeline)
                e = rng.choice(ev)
                e2 = [rat(rng.choice(PEPS)), e[1], list(e[2]) if rng.random() < 0.5 else [rng.choice(g or ["X"])]]
                ev.insert(rng.randint(0, len(ev)), e2)
            rng.shuffle(ev)
            groups.append(g)
            infos.append(ev)
        mode = rng.random()
        if mode < 0.8:
            sc = sorted((rng.choice([4.0, 3.0, 2.5, 2.0, 1.0, 0.0]) for _ in range(k)), reverse=True)
        else:
            sc = [rng.choice([4.0, 3.0, 2.0, -1.0]) for _ in range(k)]
        qv = sorted(rng.choice([0.0, 0.125, 0.25, 1 / 3, 0.5, 1.0, 1.5]) for _ in range(k))
        scores, qvals = [rat(x) for x in sc], [rat(x) for x in qv]
        r = rng.random()
        if k and r < 0.05:
            qvals = qvals[: rng.randint(0, k - 1)]
        elif k and r < 0.1:
            scores = scores[: rng.randint(0, k - 1)]
        elif k and r < 0.14:
            infos = infos[: rng.randint(0, k - 1)]
        elif r < 0.18:
            qvals = qvals + [rat(1.0)]
            scores = scores + [rat(0.0)]
        c = rng.random()
        if c < 0.3:
            cutoff = "inf"
        elif c < 0.8:
            cutoff = rat(rng.choice(PEPS))
        else:
            cutoff = rat(rng.choice([0.0005, 0.005, 0.02, 0.1, 0.5, 0.0]))
        return {"groups": groups, "infos": infos, "scores": scores, "qvals": qvals, "cutoff": cutoff, "keepAll": keep_all}

    def exhaustive_cases(self, tier):
        # one group [G1, G2], all multisets of <= 3 peptides over 6 protein-list shapes x 2 PEPs, 3 cutoffs, both keep-all
        import itertools

        shapes = [["G1"], ["G2"], ["G1", "G2"], ["G1", "G1"], ["G1", "G1", "G2"], ["G2", "G1", "G2"]]
        peps = [rat(0.01), rat(0.05)]
        items = [(s, p) for s in shapes for p in peps]
        out = []
        for n in range(0, 4):
            for combo in itertools.combinations_with_replacement(range(len(items)), n):
                ev = [[items[i][1], "PEP%d" % t, list(items[i][0])] for t, i in enumerate(combo)]
                for cutoff in ("inf", rat(0.01), rat(0.001)):
                    for keep in (False, True):
                        out.append({"groups": [["G1", "G2"]], "infos": [ev], "scores": [rat(2.0)], "qvals": [rat(0.25)],
                                    "cutoff": cutoff, "keepAll": keep})
        return out

    # ------------------------------------------------------------------ implementation
    def run_impl(self, case):
        from picked_group_fdr.results import ProteinGroupResult, ProteinGroupResults

        groups = [list(g) for g in case["groups"]]
        infos = [[(fl(e[0]), e[1], list(e[2])) for e in ev] for ev in case["infos"]]
        scores = [fl(s) for s in case["scores"]]
        qvals = [fl(q) for q in case["qvals"]]
        cutoff = fl(case["cutoff"])
        keep = bool(case["keepAll"])

        def all_rows():
            res = ProteinGroupResults.from_protein_groups(groups, infos, scores, qvals, cutoff, keep)
            return {"rows": [row_of(r) for r in res]}

        out = guarded(all_rows)
        if min(len(groups), len(infos), len(scores), len(qvals)) > 0:

            def one():
                r = ProteinGroupResult.from_protein_group(groups[0], infos[0], qvals[0], scores[0], cutoff, keep)
                return {"row": None if r is None else row_of(r)}

            out["one"] = guarded(one)
        return out

    # ------------------------------------------------------------------ model
    def model_request(self, case, impl_out):
        reqs = [dict(case, op="report")]
        if min(len(case["groups"]), len(case["infos"]), len(case["scores"]), len(case["qvals"])) > 0:
            reqs.append({"op": "report_one", "group": case["groups"][0], "info": case["infos"][0], "score": case["scores"][0],
                         "qval": case["qvals"][0], "cutoff": case["cutoff"], "keepAll": case["keepAll"]})
        return reqs

    def model_view(self, case, resp, impl_out):
        for x in resp:
            if "proto_err" in x:
                return x
        a = resp[0]
        out = {"err": a["err"]} if "err" in a else {"rows": [canon_row(x) for x in a["rows"]]}
        if len(resp) > 1:
            b = resp[1]
            out["one"] = {"err": b["err"]} if "err" in b else {"row": canon_row(b["row"])}
        return out

    def impl_view(self, case, impl_out):
        if not isinstance(impl_out, dict) or "exc" in impl_out:
            return impl_out
        out = {"err": impl_out["err"]} if "err" in impl_out else {"rows": [canon_row(x) for x in impl_out["rows"]]}
        if "one" in impl_out:
            b = impl_out["one"]
            out["one"] = {"err": b["err"]} if "err" in b else {"row": canon_row(b["row"])}
        return out

    # ------------------------------------------------------------------ the property, stated directly
    @staticmethod
    def _consistent(ev):
        seen = {}
        for e in ev:
            s = frozenset(e[2])
            if seen.setdefault(e[1], s) != s:
                return False
        return True

    def _expect(self, case, per_listing=False):
        """rows the property text demands (None where it does not decide), in report order.
        per_listing=True: the counts of the pinned defect instead (one per LISTING of a protein)"""
        cutoff = None if case["cutoff"] == "inf" else unrat(case["cutoff"])
        keep = case["keepAll"]
        n = min(len(case["groups"]), len(case["infos"]), len(case["scores"]), len(case["qvals"]))
        want = []
        for i in range(n):
            g, ev = case["groups"][i], case["infos"][i]
            if o_all(g, "OBSOLETE__"):
                continue  # placeholders are withheld
            if not self._consistent(ev):
                return "skip"
            within = [e for e in ev if cutoff is None or unrat(e[0]) <= cutoff]
            cnt = [len({e[1] for e in within if p in e[2]}) for p in g]  # distinct peptides, once per peptide
            if per_listing:
                first = {}
                for e in within:
                    first.setdefault(e[1], e)
                cnt = [sum(e[2].count(p) for e in first.values()) for p in g]
            listed = [(p, c) for p, c in zip(g, cnt) if c > 0 or keep]
            if not listed:
                continue
            if not ev:
                return {"err": "no_evidence"}
            mx = max(c for _, c in listed)
            lowest = min(unrat(e[0]) for e in ev)
            want.append({
                "proteinIds": ";".join(p for p, _ in listed),
                "majorityProteinIds": ";".join(p for p, c in listed if 2 * c >= mx),
                "peptideCountsUnique": ";".join(str(c) for _, c in listed),
                "bestPeptide": {e[1] for e in ev if unrat(e[0]) == lowest},
                "numberOfProteins": len(listed),
                "qValue": rat(unrat(case["qvals"][i])),
                "score": rat(unrat(case["scores"][i])),
                "reverse": "+" if (o_all([p for p, _ in listed], "REV__") or o_all([p for p, _ in listed], "rev_")) else "",
                "potentialContaminant": "+" if o_all([p for p, _ in listed], "CON__") else "",
            })
        return {"rows": want}

    def repeated_listing_counted_per_listing(self, case, impl_out, rec=None):
        """signature of the defect fixed by fixes/C06-count-once-per-listed-protein.diff (for a
        known_findings.json entry, should the repair not be committed): some peptide lists a protein
        repeatedly, the property fails, and the rows are exactly what counting per listing gives"""
        if not any(len(set(e[2])) < len(e[2]) for ev in case["infos"] for e in ev):
            return False
        if any(len({e[1] for e in ev}) < len(ev) for ev in case["infos"]):
            return False
        return self.oracle(case, impl_out) is not None and self.oracle(case, impl_out, per_listing=True) is None

    def oracle(self, case, impl_out, per_listing=False):
        if not isinstance(impl_out, dict) or ("rows" not in impl_out and "err" not in impl_out):
            return "no output: %r" % (impl_out,)
        want = self._expect(case, per_listing)
        if want == "skip":
            return None
        if "err" in want:
            # a listed keep-all group without any evidence peptide / an empty group: the property does not decide this
            # input (the pinned code fails loudly, which the model reproduces and the correspondence compares); the
            # oracle does not demand the failure
            return None
        if "err" in impl_out:
            return f"report failed with {impl_out['err']} although every listed group has evidence"
        rows = impl_out["rows"]
        if len(rows) != len(want["rows"]):
            return f"{len(rows)} rows reported, {len(want['rows'])} groups have a protein to list"
        for k, (r, w) in enumerate(zip(rows, want["rows"])):
            for f in FIELDS:
                if f == "bestPeptide":
                    if r[f] not in w[f]:
                        return f"row {k}: best peptide {r[f]} is not an evidence peptide with the lowest PEP {sorted(w[f])}"
                elif f in ("qValue", "score"):
                    if unrat(r[f]) != unrat(w[f]):
                        return f"row {k}: {f} {fl(r[f])} but the group's is {fl(w[f])}"
                elif r[f] != w[f]:
                    return f"row {k}: {f} = {r[f]!r}, recomputed from the evidence: {w[f]!r}"
        sc = [unrat(s) for s in case["scores"]]
        if all(a >= b for a, b in zip(sc, sc[1:])):
            rs = [unrat(r["score"]) for r in rows]
            if any(a < b for a, b in zip(rs, rs[1:])):
                return "rows are not in non-increasing score order"
        flat = [p for g in case["groups"] for p in g]
        if len(flat) == len(set(flat)):
            seen = set()
            for r in rows:
                for p in r["proteinIds"].split(";"):
                    if p in seen:
                        return f"protein {p} occurs in two rows"
                    seen.add(p)
        return None

    # ------------------------------------------------------------------ bookkeeping
    def nontrivial(self, case, impl_out):
        if not isinstance(impl_out, dict) or not impl_out.get("rows"):
            return False
        n = min(len(case["groups"]), len(case["infos"]))
        return any(len(case["groups"][i]) >= 2 and len(case["infos"][i]) >= 2 and not o_all(case["groups"][i], "OBSOLETE__")
                   for i in range(n))

    def features(self, case, impl_out):
        f = ["groups=%d" % len(case["groups"])]
        f.append("cutoff=inf" if case["cutoff"] == "inf" else "cutoff=finite")
        if case["keepAll"]:
            f.append("keep_all")
        if any(len(set(e[2])) < len(e[2]) for ev in case["infos"] for e in ev):
            f.append("repeated_protein_per_peptide")
        if any(len({e[1] for e in ev}) < len(ev) for ev in case["infos"]):
            f.append("repeated_peptide" + ("" if all(self._consistent(ev) for ev in case["infos"]) else "_inconsistent(oracle_skipped)"))
        if any(g and o_all(g, "OBSOLETE__") for g in case["groups"]):
            f.append("placeholder_group")
        if any(not g for g in case["groups"]):
            f.append("empty_group")
        if len({len(case["groups"]), len(case["infos"]), len(case["scores"]), len(case["qvals"])}) > 1:
            f.append("length_mismatch")
        if isinstance(impl_out, dict):
            if "err" in impl_out:
                f.append("err=" + impl_out["err"])
            elif "rows" in impl_out:
                n = min(len(case["groups"]), len(case["infos"]), len(case["scores"]), len(case["qvals"]))
                f.append("rows=%d" % len(impl_out["rows"]))
                if len(impl_out["rows"]) < n:
                    f.append("some_group_omitted")
                for r in impl_out["rows"]:
                    if r["majorityProteinIds"] != r["proteinIds"]:
                        f.append("majority_strict_subset")
                        break
                for r in impl_out["rows"]:
                    if r["reverse"]:
                        f.append("row_reverse")
                        break
                for r in impl_out["rows"]:
                    if r["potentialContaminant"]:
                        f.append("row_contaminant")
                        break
            one = impl_out.get("one")
            if isinstance(one, dict) and "err" in one:
                f.append("one_err=" + one["err"])
        return f

    def shrink(self, case):
        g, inf, s, q = case["groups"], case["infos"], case["scores"], case["qvals"]
        for i in range(max(len(g), len(inf), len(s), len(q))):
            yield dict(case, groups=g[:i] + g[i + 1 :], infos=inf[:i] + inf[i + 1 :], scores=s[:i] + s[i + 1 :], qvals=q[:i] + q[i + 1 :])
        for i, ev in enumerate(inf):
            for j in range(len(ev)):
                yield dict(case, infos=inf[:i] + [ev[:j] + ev[j + 1 :]] + inf[i + 1 :])
        for i, ev in enumerate(inf):
            for j, e in enumerate(ev):
                if len(e[2]) > 1:
                    for t in range(len(e[2])):
                        ne = [e[0], e[1], e[2][:t] + e[2][t + 1 :]]
                        yield dict(case, infos=inf[:i] + [ev[:j] + [ne] + ev[j + 1 :]] + inf[i + 1 :])
        for i, grp in enumerate(g):
            if len(grp) > 1:
                for j in range(len(grp)):
                    yield dict(case, groups=g[:i] + [grp[:j] + grp[j + 1 :]] + g[i + 1 :])
        if case["cutoff"] != "inf":
            yield dict(case, cutoff="inf")
        if case["keepAll"]:
            yield dict(case, keepAll=False)


# ---- pipeline-level cases (DESIGN.md §5 C06 K): rows of get_protein_group_results for every shipped method
# against the composed Lean model PgFdr.Pipeline.run, with the C06 statement (this module's oracle on the
# arguments observed at the last from_protein_groups call) as the oracle
import pipeline as _pl  # noqa: E402

_BaseP = P


class P(_pl.PipelineMixin, _BaseP):
    pipeline_share = 0.1
    pipeline_oracles = ("c06",)


# ---- command-line cases (the property's third observation point, "written proteinGroups.txt"): the real
# `picked_group_fdr.main(argv)` in-process against the composed Lean model PgFdr.Cli.cliOutcome (harness/cli_model.py).
# Oracle = the C06 statement only, on the rows READ BACK FROM THE WRITTEN TABLE of every method: consistent with the
# groups / evidence of the last ranking at the peptide-level cutoff, and that cutoff recomputed independently
# (pipeline.expected_pep_cutoff) for the PSM level GIVEN ON THE COMMAND LINE (--psm_fdr_cutoff), with the command line's
# --keep_all_proteins; --psm_fdr_cutoff, --protein_group_fdr_threshold and --keep_all_proteins vary independently
import cli_model as _cm  # noqa: E402

_PipeP = P


class P(_cm.CliMixin, _PipeP):
    cli_model_share = 0.015   # ~45 of the 3 000 quick cases
    cli_oracles = ("c06",)
    rule = _PipeP.rule + (
        "; 1.5 % of the cases run the whole command line in process (harness/cli_model.py: 1-3 shipped MaxQuant / Percolator "
        "methods, generated FASTA and evidence files under random names in random order, --psm_fdr_cutoff from "
        "{0.01, 0.05, 0.0011, 0.2}, --protein_group_fdr_threshold from pipeline.THRESHOLDS and --keep_all_proteins drawn "
        "independently) and state C06 on the written table"
    )
