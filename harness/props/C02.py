"""C02 — picked competition keeps only the better of a target group and its decoy twin.

Correspondence: ProteinCompetitionStrategy.do_competition (real code, the three shipped strategy
classes, called directly) vs PgFdr.C02.runCalls (Lean model, op "compete").

* numpy.random.shuffle is wrapped from outside so that the permutation actually applied is
  RECORDED (an index list of equal length is shuffled under the same generator state; that this
  consumes the generator identically and yields the same arrangement is asserted at start-up).
  The two recorded permutations of every call are fed to the model.
* score keys are the exact rationals of the floats `score_type.calculate_score` returned (recorded
  by a thin wrapper around the real BestPEPScore, or a table scorer returning grid values), so the
  model never computes -log10.
* a case is 1 or 2 successive calls on ONE strategy object (the seen-set must be reset in between).
* compared exactly: the three returned lists of every call (groups, evidence, scores), the error
  `no_ranked_groups` (the code dies in zip(*[])), and the seen-set left on the object.

Oracle: the property text, stated over the returned lists with its own computation of leading /
majority proteins (losslessness, soundness, placeholder rule, classic, survivors unchanged,
ranked, reset).
"""
import random
from fractions import Fraction

import lib
from lib import Prop, rat, unrat

BASES = ["A", "B", "C", "D"]
PREFIXES = ["", "REV__", "rev_", "OBSOLETE__", "OBSOLETE__REV__", "CON__"]
PEP_GRID = [0.001, 0.01, 0.05]
PEPTIDES = ["PEPA", "PEPB", "PEPC", "PEPD", "PEPE", "PEPF"]
SCORE_GRID = [2.0, 1.0, 1.0, 0.5, -100.0]
WEIRD = ["REREV__V__A", "rev_REV__A", "A_rev_B", "OBSOLETE__rev_A", "CON__REV__A", "", "rerev_v_B", "OBSOLETEOBSOLETE____A",
         "REV__CON__B", "A;B", "rev_", "OBSOLETE__CON__A"]
STRATS = [
    ("picked", None),
    ("picked_group", "all"),
    ("picked_group", "majority"),
    ("picked_group", "leading"),
    ("picked_group", "leading"),
    ("classic", None),
]

_WRAP_OK = {}


def fl(r):
    f = unrat(r)
    return f.numerator / f.denominator


def clean(p):
    return p.replace("REV__", "").replace("OBSOLETE__", "").replace("rev_", "")


def all_contain(g, m):
    return all(m in p for p in g)


def assert_wrap_transparent(np):
    """shuffling an index list of equal length consumes the generator identically and gives the same arrangement"""
    key = id(np.random.shuffle)
    if _WRAP_OK.get("done"):
        return
    saved = np.random.get_state()
    try:
        for n in (0, 1, 2, 3, 5, 8, 13):
            for seed in (0, 1, 7):
                objs = [([f"P{i}"], [(0.1 * i, "x", ["y"])], float(i), i % 2 == 0) for i in range(n)]
                np.random.seed(seed)
                a = list(objs)
                np.random.shuffle(a)
                s1 = np.random.get_state()
                np.random.seed(seed)
                idx = list(range(n))
                np.random.shuffle(idx)
                s2 = np.random.get_state()
                assert a == [objs[i] for i in idx], "index shuffle gives another arrangement"
                assert s1[0] == s2[0] and (s1[1] == s2[1]).all() and s1[2:] == s2[2:], "generator consumed differently"
    finally:
        np.random.set_state(saved)
    _WRAP_OK["done"] = key


class TableScorer:
    """a tiny score_type: calculate_score returns the next value of a table (call order = group order)"""

    def __init__(self, table):
        self.table = list(table)
        self.k = 0
        self.returned = []

    def calculate_score(self, pairs):
        v = self.table[self.k]
        self.k += 1
        self.returned.append(float(v))
        return v


class RecordingScorer:
    """the real ProteinScoringStrategy("bestPEP"), with the returned floats recorded"""

    def __init__(self, inner):
        self.inner = inner
        self.returned = []

    def calculate_score(self, pairs):
        v = self.inner.calculate_score(pairs)
        self.returned.append(float(v))
        return v


def canon_infos(infos):
    return [[[rat(float(e[0])), e[1], list(e[2])] for e in ev] for ev in infos]


def run_competition(case, seed_override=None, record=True):
    """runs the real code on a case; returns impl_out (with _rec)"""
    import numpy as np
    from picked_group_fdr import competition
    from picked_group_fdr.protein_groups import ProteinGroups

    assert_wrap_transparent(np)
    strat, picking = case["strategy"], case.get("picking")
    if strat == "picked_group":
        st = competition.PickedGroupStrategy(picking) if picking else competition.PickedGroupStrategy()
    else:
        st = competition.ProteinCompetitionStrategyFactory(strat)

    orig_shuffle = np.random.shuffle
    cur = {"shuffles": None, "gid": None, "gcontent": None, "pass": None}

    def lookup(g):
        """input position of a group object: by identity, else by content if the content is unique in the input"""
        i = cur["gid"].get(id(g))
        if i is None:
            try:
                i = cur["gcontent"].get(tuple(g))
            except TypeError:
                i = None
        return i

    def ident(t):
        try:
            return lookup(t[0])
        except Exception:
            return None

    def wrapped(x):
        n = len(x)
        idx = list(range(n))
        orig_shuffle(idx)
        before = list(x)
        x[:] = [before[i] for i in idx]
        if cur["shuffles"] is not None:
            cur["shuffles"].append({"n": n, "perm": idx, "before": [ident(t) for t in before]})

    inner_seen = st._is_protein_seen

    def seen_wrapper(proteins):
        if cur["pass"] is not None:
            cur["pass"].append(lookup(proteins))
        return inner_seen(proteins)

    st._is_protein_seen = seen_wrapper
    np.random.seed(case["np_seed"] if seed_override is None else seed_override)
    np.random.shuffle = wrapped
    results, recs = [], []
    try:
        for call in case["calls"]:
            groups = [list(g) for g in call["groups"]]
            infos = [[(fl(e[0]), e[1], list(e[2])) for e in ev] for ev in call["infos"]]
            if case.get("scorer") == "table":
                scorer = TableScorer([fl(s) for s in call["table_scores"]])
            else:
                from picked_group_fdr.scoring_strategy import ProteinScoringStrategy

                scorer = RecordingScorer(ProteinScoringStrategy("bestPEP"))
            cur["gid"] = {id(g): i for i, g in enumerate(groups)}
            content = {}
            for i, g in enumerate(groups):
                content.setdefault(tuple(g), []).append(i)
            cur["gcontent"] = {k: v[0] for k, v in content.items() if len(v) == 1}
            cur["shuffles"], cur["pass"] = [], []
            try:
                pg, out_infos, out_scores = st.do_competition(ProteinGroups(groups), infos, scorer)
                out_groups = list(pg.protein_groups)
                res = {
                    "groups": [list(g) for g in out_groups],
                    "infos": canon_infos(out_infos),
                    "scores": [rat(float(s)) for s in out_scores],
                }
                out_idx = [lookup(g) for g in out_groups]
            except ValueError as e:
                if "not enough values to unpack" not in str(e):
                    raise
                res = {"err": "no_ranked_groups"}
                out_idx = []
            results.append(res)
            recs.append(
                {
                    "scores": [rat(s) for s in scorer.returned],
                    "shuffles": cur["shuffles"],
                    "pass": cur["pass"],
                    "out_idx": out_idx,
                }
            )
    finally:
        np.random.shuffle = orig_shuffle
        try:
            del st._is_protein_seen
        except AttributeError:
            pass
    seen_after = sorted(getattr(st, "seen_proteins", set()))
    return {"results": results, "seen_after": seen_after, "_rec": recs}


# ---------------------------------------------------------------------------------------------
# the property, stated independently over plain Python data
# ---------------------------------------------------------------------------------------------
def peptide_counts(evidence, cutoff=Fraction(101, 100)):
    """distinct peptides per protein among the tuples with PEP <= cutoff; a peptide listed by several tuples
    is read at its smallest (pep, peptide, proteins) tuple"""
    first = {}
    for e in evidence:
        t = (unrat(e[0]), e[1], list(e[2]))
        if t[0] > cutoff:
            continue
        if e[1] not in first or t < first[e[1]]:
            first[e[1]] = t
    counts = {}
    for t in first.values():
        for p in set(t[2]):
            counts[p] = counts.get(p, 0) + 1
    return counts


def selected(picking, group, evidence):
    if picking == "all":
        return list(group)
    c = peptide_counts(evidence)
    m = max(list(c.values()) + [0])
    if picking == "majority":
        return [p for p in group if 2 * c.get(p, 0) >= m]
    return [p for p in group if c.get(p, 0) == m]


def match_output(call, rec, res):
    """match every returned triple to a distinct input position with equal content; None if impossible"""
    scores = rec["scores"]
    used, out = set(), []
    for g, ev, s in zip(res["groups"], res["infos"], res["scores"]):
        hit = None
        for i in range(min(len(call["groups"]), len(scores))):
            if i in used:
                continue
            if call["groups"][i] == g and call["infos"][i] == ev and unrat(scores[i]) == unrat(s):
                hit = i
                break
        if hit is None:
            return None
        used.add(hit)
        out.append(hit)
    return out


def check_call(strategy, picking, call, rec, res):
    groups, infos = call["groups"], call["infos"]
    scores = [unrat(s) for s in rec["scores"]]
    n = len(groups)
    if len(scores) < n:
        return "calculate_score was called for %d of %d groups" % (len(scores), n)
    eligible = [i for i in range(n) if len(infos[i]) > 0 and not all_contain(groups[i], "CON__")]
    if "err" in res:
        if eligible and strategy == "classic":
            return "classic: error although groups %r are eligible" % (eligible,)
        if eligible:
            # some eligible group must survive: the best-ranked one is never seen on a fresh object
            return "no ranked group although groups %r have evidence and are not contaminants" % (eligible,)
        return None
    if not (len(res["groups"]) == len(res["infos"]) == len(res["scores"])):
        return "returned lists differ in length"
    out = match_output(call, rec, res)
    if out is None:
        return "a returned (group, peptides, score) triple is not an input triple (survivors must be unchanged)"
    for i in out:
        if len(infos[i]) == 0:
            return "group %r without supporting peptide is ranked" % (groups[i],)
        if all_contain(groups[i], "CON__"):
            return "contaminant group %r is ranked" % (groups[i],)
    sc = [scores[i] for i in out]
    if any(sc[k] < sc[k + 1] for k in range(len(sc) - 1)):
        return "ranking is not by non-increasing score: %r" % ([float(x) for x in sc],)
    removed = [i for i in eligible if i not in out]
    if strategy == "classic":
        if removed:
            return "classic strategy removed %r" % ([groups[i] for i in removed],)
        return None
    obs = [all_contain(g, "OBSOLETE__") for g in groups]

    def key(i):
        if strategy == "picked":
            return {";".join(clean(p) for p in groups[i])}
        return {clean(p) for p in groups[i]}

    def marks(i):
        if strategy == "picked":
            return {";".join(clean(p) for p in groups[i])}
        return {clean(p) for p in selected(picking or "leading", groups[i], infos[i])}

    for i in removed:
        ok = False
        for s in out:
            if not (key(i) & marks(s)):
                continue
            if scores[s] > scores[i] or (scores[s] == scores[i] and not (obs[s] and not obs[i])):
                ok = True
                break
        if not ok:
            shares = [groups[s] for s in out if key(i) & marks(s)]
            return (
                "group %r (score %s) was removed without a surviving competitor that scores at least as high, is not an "
                "equally scoring placeholder, and has a selected protein with the same stripped identifier "
                "(survivors sharing an identifier: %r)" % (groups[i], float(scores[i]), shares)
            )
    for a in out:
        for b in out:
            if scores[a] > scores[b] and (marks(a) & key(b)):
                return "survivors %r (score %s) and %r (score %s) share a stripped identifier of the former's selected proteins" % (
                    groups[a],
                    float(scores[a]),
                    groups[b],
                    float(scores[b]),
                )
    return None


class P(Prop):
    id = "C02"
    quick_cases = 4000
    thorough_cases = 300000
    chunk = 250
    rule = (
        "1-2 successive do_competition calls on one strategy object; 1-8 groups of 1-3 proteins over the names A-D with "
        "prefixes none/REV__/rev_/OBSOLETE__/OBSOLETE__REV__/CON__ (mostly uniform per group, sometimes mixed, sometimes "
        "repeated groups, 6 % malformed identifiers with nested/inner markers or empty names), 0-3 evidence tuples each with PEPs from {0.001, 0.01, 0.05} (rarely 1.5, above the 1.01 cutoff), "
        "peptide names from a 6-name pool (repeats inside a group occur), protein lists inside or partly outside the group, 5 % with a protein listed twice; "
        "scores from the real BestPEPScore or a 4-value table; strategies picked / picked_group(all|majority|leading) / classic; "
        "non-trivial = at least two groups with evidence and (a tie of scores or a group removed by competition); "
        "distinct by sha1 of the case"
    )
    assumptions = [
        "numpy's legacy shuffle applies the same transposition sequence to any Python list of a given length (asserted at start-up on lengths 0-13)",
        "Python's sorted(reverse=True) is stable (List.mergeSort with le a b := key a >= key b); exercised by tie-heavy inputs",
        "score keys enter the model as the exact rationals of the floats calculate_score returned",
    ]
    trusted_extra = ["wrapper recording numpy.random.shuffle permutations (harness/props/C02.py:run_competition)"]

    # -- generation ------------------------------------------------------------------------
    def gen_group(self, rng):
        k = rng.choice([1, 1, 1, 2, 2, 3])
        names = rng.sample(BASES, k)
        pre = rng.choice(PREFIXES + ["", "REV__"])
        if rng.random() < 0.12:
            return [rng.choice(PREFIXES) + b for b in names]
        if rng.random() < 0.06:  # markers inside / nested / overlapping: exercises str.replace order and `in`
            return [rng.choice(WEIRD) for _ in names]
        return [pre + b for b in names]

    def gen_evidence(self, rng, group):
        ev = []
        n = rng.choice([0, 1, 1, 2, 2, 3])
        for _ in range(n):
            pep = rng.choice(PEP_GRID) if rng.random() > 0.04 else 1.5
            peptide = rng.choice(PEPTIDES)
            r = rng.random()
            if r < 0.55:
                prots = list(group)
            elif r < 0.8:
                prots = rng.sample(group, rng.randint(1, len(group)))
            elif r < 0.9:
                # the dict of a placeholder group is keyed by the original names
                prots = [p.replace("OBSOLETE__", "") for p in group]
            else:
                extra = rng.choice(PREFIXES[:3]) + rng.choice(BASES)
                prots = rng.sample(group, rng.randint(1, len(group)))
                if extra not in prots:
                    prots.append(extra)
            seen, uniq = set(), []
            for p in prots:
                if p not in seen:
                    seen.add(p)
                    uniq.append(p)
            if rng.random() < 0.3:
                rng.shuffle(uniq)
            if uniq and rng.random() < 0.05:
                # gene-level shape: a protein listed twice by one peptide still counts once (distinct-peptide count;
                # repaired in /repo by 084ff29 "count a peptide once per protein in _get_peptide_counts", finding of C06)
                uniq.insert(rng.randint(0, len(uniq)), rng.choice(uniq))
            ev.append([rat(pep), peptide, uniq])
        return ev

    def gen_call(self, rng, scorer):
        n = rng.choice([1, 2, 3, 3, 4, 4, 5, 6, 7, 8])
        groups = []
        for _ in range(n):
            if groups and rng.random() < 0.08:
                groups.append(list(rng.choice(groups)))
            else:
                groups.append(self.gen_group(rng))
        infos = [self.gen_evidence(rng, g) for g in groups]
        # "any sizes": a group of size zero (what merge_groups leaves behind until remove_empty_groups runs) with an empty
        # evidence list at the same position, before / between / after the other groups: positions must stay aligned
        if rng.random() < 0.06:
            k = rng.randint(0, len(groups))
            groups.insert(k, [])
            infos.insert(k, [])
        call = {"groups": groups, "infos": infos}
        if scorer == "table":
            call["table_scores"] = [rat(rng.choice(SCORE_GRID)) for _ in groups]
        return call

    def gen_case(self, rng, tier):
        strat, picking = rng.choice(STRATS)
        scorer = rng.choice(["bestPEP", "bestPEP", "table"])
        ncalls = 2 if rng.random() < 0.3 else 1
        case = {
            "strategy": strat,
            "scorer": scorer,
            "np_seed": rng.randrange(2**31),
            "calls": [self.gen_call(rng, scorer) for _ in range(ncalls)],
        }
        if picking:
            case["picking"] = picking
        return case

    def exhaustive_cases(self, tier):
        import itertools

        opts = []
        for g in (["A"], ["REV__A"], ["OBSOLETE__A"], ["B"], ["REV__B"], ["CON__A"], ["A", "B"], ["REV__A", "REV__B"]):
            for pep in (0.001, 0.01):
                opts.append((g, pep))
        out = []
        for n in (1, 2, 3, 4):
            for combo in itertools.combinations_with_replacement(range(len(opts)), n):
                groups = [list(opts[i][0]) for i in combo]
                infos = [[[rat(opts[i][1]), "PEP%d" % k, list(opts[i][0])]] for k, i in enumerate(combo)]
                for strat, picking in (("picked", None), ("picked_group", "leading"), ("picked_group", "all"), ("classic", None)):
                    case = {
                        "strategy": strat,
                        "scorer": "bestPEP",
                        "np_seed": len(out),
                        "calls": [{"groups": groups, "infos": infos}],
                    }
                    if picking:
                        case["picking"] = picking
                    out.append(case)
        return out

    # -- implementation, model -----------------------------------------------------------------
    def run_impl(self, case):
        return run_competition(case)

    def model_request(self, case, impl_out):
        if not isinstance(impl_out, dict) or "_rec" not in impl_out:
            return None
        calls = []
        for call, rec in zip(case["calls"], impl_out["_rec"]):
            calls.append(
                {
                    "groups": call["groups"],
                    "infos": call["infos"],
                    "scores": rec["scores"],
                    "shuffles": [s["perm"] for s in rec["shuffles"]],
                }
            )
        req = {"op": "compete", "strategy": case["strategy"], "calls": calls}
        if case.get("picking"):
            req["picking"] = case["picking"]
        return req

    @staticmethod
    def _canon_results(results):
        out = []
        for r in results:
            if "err" in r:
                out.append({"err": r["err"]})
            else:
                out.append(
                    {
                        "groups": r["groups"],
                        "infos": [[[rat(unrat(e[0])), e[1], e[2]] for e in ev] for ev in r["infos"]],
                        "scores": [rat(unrat(s)) for s in r["scores"]],
                    }
                )
        return out

    def model_view(self, case, resp, impl_out):
        if "results" not in resp:
            return resp
        return {"results": self._canon_results(resp["results"]), "seen_after": resp["seen_after"]}

    def impl_view(self, case, impl_out):
        if not isinstance(impl_out, dict) or "results" not in impl_out:
            return impl_out
        return {"results": self._canon_results(impl_out["results"]), "seen_after": impl_out["seen_after"]}

    # -- oracle ---------------------------------------------------------------------------------
    def oracle(self, case, impl_out):
        if "results" not in impl_out:
            return "no result: %r" % (impl_out,)
        for k, (call, rec, res) in enumerate(zip(case["calls"], impl_out["_rec"], impl_out["results"])):
            why = check_call(case["strategy"], case.get("picking"), call, rec, res)
            if why:
                return "call %d: %s" % (k + 1, why)
        if impl_out["seen_after"]:
            return "seen-set not reset after the call: %r" % (impl_out["seen_after"],)
        return None

    # -- bookkeeping ------------------------------------------------------------------------------
    def _stats(self, case, impl_out):
        st = {"with_ev": 0, "removed": 0, "tie": False, "err": False}
        if not isinstance(impl_out, dict) or "_rec" not in impl_out:
            return st
        for call, rec, res in zip(case["calls"], impl_out["_rec"], impl_out["results"]):
            idx = [i for i in range(len(call["groups"])) if call["infos"][i]]
            st["with_ev"] = max(st["with_ev"], len(idx))
            sc = [tuple(rec["scores"][i]) for i in idx if i < len(rec["scores"])]
            if len(set(sc)) < len(sc):
                st["tie"] = True
            if "err" in res:
                st["err"] = True
            else:
                elig = [i for i in idx if not all_contain(call["groups"][i], "CON__")]
                st["removed"] += len(elig) - len(res["groups"])
        return st

    def nontrivial(self, case, impl_out):
        s = self._stats(case, impl_out)
        return s["with_ev"] >= 2 and (s["tie"] or s["removed"] > 0)

    def features(self, case, impl_out):
        s = self._stats(case, impl_out)
        f = ["strategy=%s%s" % (case["strategy"], ("/" + case["picking"]) if case.get("picking") else "")]
        f.append("scorer=%s" % case.get("scorer"))
        f.append("calls=%d" % len(case["calls"]))
        f.append("groups_with_evidence=%s" % (s["with_ev"] if s["with_ev"] < 6 else "6+"))
        f.append("removed_by_competition=%s" % (s["removed"] if s["removed"] < 3 else "3+"))
        if s["tie"]:
            f.append("tied_scores")
        if s["err"]:
            f.append("no_ranked_groups")
        if any(all_contain(g, "OBSOLETE__") for c in case["calls"] for g in c["groups"]):
            f.append("has_placeholder")
        return f

    def shrink(self, case):
        calls = case["calls"]
        if len(calls) > 1:
            for k in range(len(calls)):
                yield dict(case, calls=calls[:k] + calls[k + 1 :])
        for k, call in enumerate(calls):
            n = len(call["groups"])
            for i in range(n):
                c2 = {key: (v[:i] + v[i + 1 :]) if key in ("groups", "infos", "table_scores") else v for key, v in call.items()}
                yield dict(case, calls=calls[:k] + [c2] + calls[k + 1 :])
            for i in range(n):
                for j in range(len(call["infos"][i])):
                    infos = [list(ev) for ev in call["infos"]]
                    del infos[i][j]
                    yield dict(case, calls=calls[:k] + [dict(call, infos=infos)] + calls[k + 1 :])
            for i in range(n):
                if len(call["groups"][i]) > 1:
                    for j in range(len(call["groups"][i])):
                        groups = [list(g) for g in call["groups"]]
                        del groups[i][j]
                        yield dict(case, calls=calls[:k] + [dict(call, groups=groups)] + calls[k + 1 :])


# ---- pipeline-level cases: the whole `get_protein_group_results` for every shipped method file (configuration objects
# from `methods.parse_method_toml`, as the command line builds them) against the composed Lean model PgFdr.Pipeline.run,
# with the C02 statement as the oracle: every competition observed in the run (groups / evidence / float scores handed in,
# ranking that came out; the rescue pass on the SAME strategy object included) must satisfy `check_call` for the strategy the
# METHOD FILE names — picked_group => the LEADING proteins mark (harness/pipeline_oracles.py:oracle_c02)
import pipeline_oracles as _po  # noqa: E402

_BaseP = P


class P(_po.PipelineMixin2, _BaseP):
    pipeline_share = 0.05      # ~200 of the 4 000 quick cases
    pipeline_oracles = ("c02",)
    rule = _BaseP.rule + (
        "; 5 % of the cases run the whole inference function (harness/pipeline.py: a shipped method file through "
        "methods.parse_method_toml, structured peptide lists of harness/gen_pil.py, 30 % preceded by a request of the same "
        "method with the other pseudo-gene switch) and state C02 on every competition of the run for the strategy the "
        "method file declares"
    )
