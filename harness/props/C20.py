"""C20 — protein-group lookups never return stale or foreign groups.

Correspondence: the real `picked_group_fdr.protein_groups.ProteinGroups` (and the two helpers
`helpers.is_missing_in_protein_groups` / `helpers.is_shared_peptide` applied to its lookups as the
callers do) vs the state machine `PgFdr.C20.step` (lean/PgFdr/Model/C20.lean).  A case is a whole
operation history; after EVERY call the harness records what the caller saw (return value or the kind
of exception) and the complete object state (`protein_groups`, `valid_idx`,
`protein_to_group_idx_map`) and diffs all of it against the model, step by step.

Python sets are canonicalised by sorting on both sides.  Groups returned by `get_protein_groups` are
identified by object identity with the entries of `.protein_groups` and reported as
`[position, members]`, sorted by position.

The model implements the REPAIRED `get_protein_groups` (the −1 marker of an unknown protein is dropped
instead of being used as a Python position): on the unrepaired code the correspondence disagrees
exactly there and the oracle (`membership recomputed from .protein_groups`) confirms it.
"""
import itertools
import random

import lib
from lib import Prop

INSIDE = ["A", "B", "REV__A", "CON__B", "P4", "P5"]
OUTSIDE = ["X", "REV__X"]
MUTATORS = {"append", "extend", "index", "merge", "clean", "unseen"}
CHECKED = {"group", "idx", "idxs", "groups"}  # carry an explicit check_idx_valid flag


def _err(e):
    if isinstance(e, KeyError):
        return {"err": "unknown_protein"}
    if isinstance(e, IndexError):
        return {"err": "index_error"}
    if type(e) is Exception and str(e).startswith("Trying to get group index while index is invalid"):
        return {"err": "invalid_index"}
    raise e


def _state(pg):
    return {
        "groups": [list(g) for g in pg.protein_groups],
        "valid": bool(pg.valid_idx),
        "index": sorted([k, v] for k, v in pg.protein_to_group_idx_map.items()),
    }


def _pos_groups(pg, res):
    out = []
    for g in res:
        pos = next((i for i, h in enumerate(pg.protein_groups) if h is g), None)
        out.append([pos, list(g)])
    return sorted(out, key=lambda x: (-1 if x[0] is None else x[0], x[1]))


def apply_op(pg, op):
    """one call on the real object -> JSON-able view of what the caller sees"""
    from picked_group_fdr import helpers
    from picked_group_fdr.protein_groups import ProteinGroups

    k = op[0]
    try:
        if k == "append":
            pg.append(list(op[1]))
            return None
        if k == "extend":
            pg.extend(ProteinGroups([list(g) for g in op[1]]))
            return None
        if k == "index":
            pg.create_index()
            return None
        if k == "merge":
            pg.merge_groups(op[1], op[2])
            return None
        if k == "clean":
            pg.remove_empty_groups()
            return None
        if k == "unseen":
            other = ProteinGroups([list(g) for g in op[1]])
            infos = list(range(len(op[1])))
            obs, obs_infos = pg.add_unseen_protein_groups(other, infos)
            return {"obsolete": [[i, list(g)] for i, g in zip(obs_infos, obs.protein_groups)]}
        if k == "group":
            return {"group": list(pg.get_protein_group(op[1], check_idx_valid=op[2]))}
        if k == "idx":
            return {"idx": pg._get_protein_group_idx(op[1], check_idx_valid=op[2])}
        if k == "idxs":
            return {"idxs": sorted(pg.get_protein_group_idxs(list(op[1]), check_idx_valid=op[2]))}
        if k == "groups":
            return {"groups": _pos_groups(pg, pg.get_protein_groups(list(op[1]), check_idx_valid=op[2]))}
        if k == "lead":
            return {"prots": sorted(pg.get_leading_proteins(list(op[1])))}
        if k == "missing":
            return {"bool": bool(helpers.is_missing_in_protein_groups(pg.get_protein_group_idxs(list(op[1]))))}
        if k == "shared":
            return {"bool": bool(helpers.is_shared_peptide(pg.get_protein_group_idxs(list(op[1]))))}
        if k == "missing_groups":  # the call pattern of pipeline/update_fragpipe_results.py:224-226
            return {"bool": bool(helpers.is_missing_in_protein_groups(pg.get_protein_groups(list(op[1]))))}
        if k == "shared_groups":  # update_fragpipe_results.py:234
            return {"bool": bool(helpers.is_shared_peptide(pg.get_protein_groups(list(op[1]))))}
        if k == "size":
            return {"nat": len(pg)}
        if k == "all":
            return {"prots": sorted(pg.get_all_proteins())}
    except Exception as e:
        return _err(e)
    raise ValueError("unknown op %r" % (op,))


def canon_out(o):
    """sort the set-valued answers of the model"""
    if not isinstance(o, dict):
        return o
    if "idxs" in o:
        return {"idxs": sorted(o["idxs"])}
    if "prots" in o:
        return {"prots": sorted(o["prots"])}
    if "groups" in o:
        return {"groups": sorted(o["groups"], key=lambda x: (x[0], x[1]))}
    if "obsolete" in o:
        return {"obsolete": [[i, list(g)] for i, g in o["obsolete"]]}
    return o


class P(Prop):
    id = "C20"
    quick_cases = 2000
    thorough_cases = 100000
    chunk = 500
    rule = (
        "operation histories of length 1-25 over append / extend / create_index / merge_groups / remove_empty_groups / "
        "add_unseen_protein_groups interleaved with get_protein_group, _get_protein_group_idx, get_protein_group_idxs, "
        "get_protein_groups, get_leading_proteins, is_missing / is_shared (on index sets and on group lists, as the callers "
        "do), size, get_all_proteins; 6 inside + 2 never-added proteins; empty groups, repeated proteins and merges on unknown "
        "or co-located proteins included; non-trivial = at least one mutator and one lookup that returned a value; "
        "distinct by sha1 of the history"
    )
    assumptions = [
        "groups handed to append/extend are fresh list objects (the harness never aliases one list into two positions)",
        "hash-order of Python sets is irrelevant: set-valued answers are compared sorted",
    ]

    # ---------------------------------------------------------------- generation
    def _prots(self, rng, lo, hi, present=()):
        n = rng.randint(lo, hi)
        out = []
        for _ in range(n):
            r = rng.random()
            if r < 0.2:
                out.append(rng.choice(OUTSIDE))
            elif r < 0.8 and present:
                out.append(rng.choice(present))
            else:
                out.append(rng.choice(INSIDE))
        return out

    def _gen_op(self, rng, present):
        r = rng.random()
        fresh = [p for p in INSIDE if p not in present]
        if r < 0.40:  # mutators
            k = rng.choice(["append", "append", "extend", "index", "index", "merge", "merge", "clean", "unseen"])
            if k == "append":
                pool = fresh if (fresh and rng.random() < 0.8) else INSIDE
                g = rng.sample(pool, min(len(pool), rng.choice([0, 1, 1, 2, 3])))
                return ["append", g]
            if k == "extend":
                pool = fresh if (fresh and rng.random() < 0.8) else INSIDE
                gs = []
                for _ in range(rng.choice([0, 1, 2, 2])):
                    gs.append(rng.sample(pool, min(len(pool), rng.choice([0, 1, 1, 2]))))
                return ["extend", gs]
            if k == "index":
                return ["index"]
            if k == "clean":
                return ["clean"]
            if k == "merge":
                pool = (present or INSIDE) if rng.random() < 0.85 else INSIDE + OUTSIDE
                return ["merge", rng.choice(pool), rng.choice(pool)]
            gs = [rng.sample(INSIDE, rng.choice([0, 1, 1, 2])) for _ in range(rng.choice([0, 1, 2, 3]))]
            return ["unseen", gs]
        chk = rng.random() < 0.85
        k = rng.choice(
            ["group", "group", "idx", "idxs", "idxs", "groups", "groups", "groups", "lead", "lead", "missing", "shared",
             "missing_groups", "missing_groups", "shared_groups", "size", "all"]
        )
        if k in ("group", "idx"):
            return [k, self._prots(rng, 1, 1, present)[0], chk]
        if k in ("idxs", "groups"):
            return [k, self._prots(rng, 0, 3, present), chk]
        if k in ("size", "all"):
            return [k]
        return [k, self._prots(rng, 0 if rng.random() < 0.1 else 1, 3, present)]

    def gen_case(self, rng, tier):
        n = rng.choice([1, 2, 3, 4, 6, 8, 10, 12, 16, 20, 25])
        init, from_list = None, False
        present = set()
        if rng.random() < 0.3:
            pool = INSIDE[:]
            rng.shuffle(pool)
            k = rng.randint(0, 3)
            init = [pool[i::k] for i in range(k)] if k else []
            from_list = rng.random() < 0.7
            present = {p for g in init for p in g}
        ops = []
        reindex = rng.choice([0.0, 0.3, 0.6, 0.9])  # how often a caller re-indexes right after a change
        for _ in range(n):
            op = self._gen_op(rng, sorted(present))
            ops.append(op)
            if op[0] in ("append", "extend", "merge") and rng.random() < reindex:
                ops.append(["index"] if rng.random() < 0.8 else ["clean"])
            if op[0] == "append":
                present |= set(op[1])
            elif op[0] in ("extend", "unseen"):
                present |= {p for g in op[1] for p in g}
        return {"init": init, "from_list": from_list, "ops": ops}

    def exhaustive_cases(self, tier):
        alpha = [
            ["append", ["A"]], ["append", ["B"]], ["append", []], ["index"], ["clean"],
            ["merge", "A", "B"], ["merge", "B", "A"], ["unseen", [["A"], ["B", "P4"]]],
            ["group", "A", True], ["group", "X", True], ["idxs", ["B", "X"], True],
            ["groups", ["A", "X"], True], ["groups", ["X"], True], ["missing_groups", ["X"]], ["lead", ["B"]],
        ]
        out = []
        for n in range(1, 5):
            for seq in itertools.product(alpha, repeat=n):
                out.append({"init": None, "from_list": False, "ops": [list(o) for o in seq]})
        return out

    # ---------------------------------------------------------------- implementation
    def run_impl(self, case):
        from picked_group_fdr.protein_groups import ProteinGroups

        if case.get("init") is None:
            pg = ProteinGroups()
        elif case.get("from_list"):
            pg = ProteinGroups.init_from_list([list(g) for g in case["init"]])
        else:
            pg = ProteinGroups([list(g) for g in case["init"]])
        steps = []
        for op in case["ops"]:
            before = [list(g) for g in pg.protein_groups]
            out = apply_op(pg, op)
            st = _state(pg)
            st["out"] = out
            st["_before"] = before
            steps.append(st)
        return {"steps": [{k: v for k, v in s.items() if k != "_before"} for s in steps],
                "_rec": {"before": [s["_before"] for s in steps]}}

    # ---------------------------------------------------------------- model
    def model_request(self, case, impl_out):
        req = {"op": "pg", "ops": case["ops"]}
        if case.get("init") is not None:
            req["init"] = case["init"]
            req["from_list"] = bool(case.get("from_list"))
        return req

    def model_view(self, case, resp, impl_out):
        if "steps" not in resp:
            return resp
        return {
            "steps": [
                {"groups": s["groups"], "valid": s["valid"], "index": sorted(s["index"]), "out": canon_out(s["out"])}
                for s in resp["steps"]
            ]
        }

    def impl_view(self, case, impl_out):
        if isinstance(impl_out, dict) and "steps" in impl_out:
            return {"steps": impl_out["steps"]}
        return impl_out

    # ---------------------------------------------------------------- the property, stated directly
    def oracle(self, case, impl_out):
        """Membership is recomputed from `.protein_groups` as it was when the call was made; `fresh` is the
        oracle's own record of "the index has been rebuilt since the last change"."""
        if not isinstance(impl_out, dict) or "steps" not in impl_out:
            return "no step record: %r" % (impl_out,)
        fresh = bool(case.get("init") is not None and case.get("from_list"))
        befores = impl_out["_rec"]["before"]
        for n, (op, st, groups) in enumerate(zip(case["ops"], impl_out["steps"], befores)):
            k, out = op[0], st["out"]
            where = {}
            for i, g in enumerate(groups):
                for p in g:
                    where.setdefault(p, []).append(i)
            unique = all(len(v) == 1 for v in where.values())
            tag = "step %d %r: " % (n, op)
            if k in MUTATORS:
                if k in ("append", "extend"):
                    fresh = False
                elif k == "merge":
                    if out is None:
                        fresh = False
                else:
                    fresh = True
                continue
            if k in ("size", "all"):
                continue
            check = op[2] if k in CHECKED else True
            if not check:
                continue  # deliberate read of the stale index (generate_protein_groups); outside the property
            prots = [op[1]] if k in ("group", "idx") else list(op[1])
            present = [p for p in prots if p in where]
            absent = [p for p in prots if p not in where]
            if isinstance(out, dict) and "err" in out:
                e = out["err"]
                if e == "invalid_index":
                    if fresh:
                        return tag + "failed with 'index is invalid' although the index was rebuilt after the last change"
                    continue
                if e == "unknown_protein" and k in ("group", "idx", "lead") and absent:
                    continue  # reported as missing
                return tag + "raised %s for proteins that are all contained in a group (%r)" % (e, present) if not absent else tag + "raised %s" % e
            # the call answered: the answer must be true of the current groups
            if k == "group":
                p = prots[0]
                if p not in where:
                    return tag + "protein in no group was mapped to the existing group %r" % (out["group"],)
                if not any(groups[i] == out["group"] for i in where[p]):
                    return tag + "returned %r which is not a current group containing %s" % (out["group"], p)
            elif k == "idx":
                p = prots[0]
                if p not in where:
                    return tag + "protein in no group was mapped to position %r" % (out["idx"],)
                if out["idx"] not in where[p]:
                    return tag + "returned position %r, but %s is in group(s) %r" % (out["idx"], p, where[p])
            elif k == "idxs":
                got = set(out["idxs"])
                for p in absent:
                    if -1 not in got:
                        return tag + "%s is in no group but was not reported as missing (-1)" % p
                if not absent and -1 in got:
                    return tag + "reported a missing protein although all are in groups"
                for i in got - {-1}:
                    if not any(i in where[p] for p in present):
                        return tag + "position %d holds none of the present proteins %r" % (i, present)
                for p in present:
                    if not got & set(where[p]):
                        return tag + "no position returned for %s (in %r)" % (p, where[p])
                if unique and got - {-1} != {where[p][0] for p in present}:
                    return tag + "positions %r != expected %r" % (sorted(got), sorted({where[p][0] for p in present}))
            elif k == "groups":
                poss = [x[0] for x in out["groups"]]
                if None in poss:
                    return tag + "returned a list object that is not one of the current groups"
                if len(set(poss)) != len(poss):
                    return tag + "returned the same group twice (positions %r)" % (poss,)
                for pos, g in out["groups"]:
                    if not any(pos in where[p] for p in present):
                        return tag + "returned the foreign group %r at position %d: it contains none of %r" % (g, pos, prots)
                for p in present:
                    if not set(poss) & set(where[p]):
                        return tag + "group of %s missing from the answer" % p
            elif k == "lead":
                want_ok = all(p in where for p in prots)
                if not want_ok:
                    return tag + "answered although %r is in no group" % (absent,)
                if unique and set(out["prots"]) != {groups[where[p][0]][0] for p in prots}:
                    return tag + "leading proteins %r != %r" % (out["prots"], sorted({groups[where[p][0]][0] for p in prots}))
            elif k in ("missing", "missing_groups"):
                want = not present
                if out["bool"] != want:
                    return tag + "is_missing=%r but present proteins are %r" % (out["bool"], present)
            elif k == "shared":
                if unique:
                    want = len({where[p][0] for p in present} | ({-1} if absent else set())) > 1
                    if out["bool"] != want:
                        return tag + "is_shared=%r expected %r" % (out["bool"], want)
            elif k == "shared_groups":
                if unique:
                    want = len({where[p][0] for p in present}) > 1
                    if out["bool"] != want:
                        return tag + "is_shared(groups)=%r expected %r (present %r)" % (out["bool"], want, present)
        return None

    # ---------------------------------------------------------------- bookkeeping
    def nontrivial(self, case, impl_out):
        if not isinstance(impl_out, dict) or "steps" not in impl_out:
            return False
        mut = any(op[0] in MUTATORS for op in case["ops"])
        ans = any(
            op[0] not in MUTATORS and op[0] not in ("size", "all") and isinstance(s["out"], dict) and "err" not in s["out"]
            for op, s in zip(case["ops"], impl_out["steps"])
        )
        return mut and ans

    def features(self, case, impl_out):
        f = ["len=%s" % (len(case["ops"]) if len(case["ops"]) < 10 else "10+")]
        if not isinstance(impl_out, dict) or "steps" not in impl_out:
            return f + ["no-steps"]
        for op, s in zip(case["ops"], impl_out["steps"]):
            o = s["out"]
            if isinstance(o, dict) and "err" in o:
                f.append("%s:%s" % (op[0], o["err"]))
            else:
                f.append("%s:ok" % op[0])
            if op[0] in ("groups", "idxs", "missing_groups", "missing", "group") and any(p in OUTSIDE for p in ([op[1]] if isinstance(op[1], str) else op[1])):
                f.append("outside-protein-queried")
        return sorted(set(f))

    def shrink(self, case):
        ops = case["ops"]
        for i in range(len(ops) - 1, -1, -1):
            yield {"init": case.get("init"), "from_list": case.get("from_list"), "ops": ops[:i] + ops[i + 1 :]}
        if case.get("init"):
            yield {"init": None, "from_list": False, "ops": ops}
        for i, op in enumerate(ops):
            for j in range(1, len(op)):
                if isinstance(op[j], list) and op[j]:
                    for t in range(len(op[j])):
                        op2 = list(op)
                        op2[j] = op[j][:t] + op[j][t + 1 :]
                        yield {"init": case.get("init"), "from_list": case.get("from_list"), "ops": ops[:i] + [op2] + ops[i + 1 :]}
