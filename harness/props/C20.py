"""C20 — protein-group lookups never return stale or foreign groups.

Correspondence: the real `picked_group_fdr.protein_groups.ProteinGroups` (and the two helpers
`helpers.is_missing_in_protein_groups` / `helpers.is_shared_peptide` applied to its lookups as the
callers do) vs the state machine `PgFdr.C20.step` (lean/PgFdr/Model/C20.lean).  A case is a whole
operation history; after EVERY call the harness records what the caller saw (return value or the kind
of exception) and the complete object state (`protein_groups`, `valid_idx`,
`protein_to_group_idx_map`) and diffs all of it against the model, step by step.

Python sets are canonicalised by sorting on both sides.  Groups returned by `get_protein_groups` are
identified by object identity with the entries of `.protein_groups` and reported as
`[position, members]`, sorted by position.

A history runs over ONE OR TWO live collections (`case["colls"]`, every operation is tagged with the
collection it acts on; the model runs independent states, one per collection) and contains, besides the
methods of the class, the package's other MUTATING CALLERS of a collection:
  * `rescue_update` / `rescue_update_last` — `grouping.RescuedGrouping.update_protein_groups(pg, infos)` with
    `obsolete_protein_groups` set to a generated collection / to what the last
    `merge_with_rescued_protein_groups` left in the grouping object (model: the `extend` step);
  * `unseen_from j` — `RescuedGrouping.merge_with_rescued_protein_groups(pil, colls[j], infos)` with the
    rescued grouping being collection k (model: `addUnseen` with the groups of collection j);
  * `connected comps decouple?` — `graphs.ConnectedProteinGraphs.get_connected_proteins(pg)` /
    `decouple_connected_proteins(pg)` over star-shaped components (model: `mergeComponents`).
and the package's READERS of a collection, which must leave it exactly as it is (model: the no-op step `Op.read`):
  * `rows keep_all v` — `results.ProteinGroupResults.from_protein_groups(pg, infos, scores, qvals, cutoff, keep_all)`;
  * `compete strategy v` — `competition.*Strategy().do_competition(pg, infos, score_type)` (the returned collection
    shares the group lists);
  * `collect v` — `ProteinScoringStrategy.collect_peptide_scores_per_protein(pg, peptide_info_list, …)`;
  * `report strategy keep_all v` — the three chained as in `picked_group_fdr.get_protein_group_results` (result rows of
    the collection the competition returned);
  * `quant v` — `quant.maxquant.add_precursor_quants` on a rendered evidence file;
  the evidence is generated from the CURRENT groups of the collection (`gen_evidence`), `v = 0` gives only the first
  member of each group a peptide of its own.
and the package's LOOKUP CALLERS — functions outside protein_groups.py that are handed a collection and a file of
external rows and look the proteins of every row up (model: `Op.rows caller rows`, answer `callerAnswer`); each call
renders its small input file(s) in a scratch directory of the history and runs the real function on the live collection:
  * `psm_update rows v` — `pipeline.update_fragpipe_results.update_fragpipe_psm_file` on a psm.tsv (v bit 0: in place /
    output folder); observed: which PSM rows are written and with which leading protein;
  * `fp_quant` / `fp_ion` — `quant.fragpipe.add_precursor_quants` (psm.tsv; v bit 1: through
    `add_precursor_quants_multiple`) and `update_precursor_quants_single` (combined_ion.tsv; v bit 1: through
    `update_precursor_quants`); `sage_quant` / `sage_lfq` — `quant.sage.add_precursor_quants` (results.sage.tsv) and
    `update_precursor_quants_single` (lfq.tsv; v bit 1: through `update_precursor_quants`); `mq_quant` —
    `quant.maxquant.add_precursor_quants` (evidence.txt; the parser first drops decoy proteins from rows with a target
    protein: the model and the oracle get the rows AFTER that filter, `_mq_effective`); `collect_rows` —
    `ProteinScoringStrategy("bestPEP").collect_peptide_scores_per_protein`; observed: the result row(s) / info list(s)
    each row's peptide was attached to;
  * `annot rows v` — `columns.FragpipeProteinAnnotationsColumns(pg, {}).append_columns` over result rows whose
    `proteinIds` are the rows; observed: the annotated leading protein of each row (the code takes the first of a list
    built from a Python set: the model lists the admissible leaders and `model_view` resolves the choice to the
    implementation's when it is one of them).
  The rows of all such calls of a history are drawn from one small pool, so the SAME protein sets are looked up again
  after the collection changed and was re-indexed, on the other collection, and while the index is stale.
After every call the state of EVERY collection is compared with the model, and the oracle judges every
lookup against a linear scan of the groups of the collection it was asked of.  Readers and lookup callers: a change of
the GROUPS of any collection is a failing input; a change of flag / index only when it leaves the flag up over an index
that is not the index of the current groups (a defensive re-index keeps the property: correspondence side only).  Rows of a
lookup caller: a row that IS mapped must be mapped to a current group / position holding a protein of the row; which rows
a caller drops, writes although shared, or attaches is the caller's policy (model + correspondence, never the oracle).
Cases in the old single-collection format `{"init","from_list","ops"}` (corpus) are still accepted.

The model implements the REPAIRED `get_protein_groups` (the −1 marker of an unknown protein is dropped
instead of being used as a Python position): on the unrepaired code the correspondence disagrees
exactly there and the oracle (`membership recomputed from .protein_groups`) confirms it.
"""
import itertools
import random

import lib
from lib import Prop

INSIDE = ["A", "B", "REV__A", "CON__B", "P4", "P5"]
OUTSIDE = ["X", "REV__X"]
MUTATORS = {"append", "extend", "index", "merge", "clean", "unseen", "rescue_update", "rescue_update_last", "unseen_from", "connected"}
CHECKED = {"group", "idx", "idxs", "groups"}  # carry an explicit check_idx_valid flag
# the package's READERS of a collection: must leave it exactly as it is (model: no-op step `Op.read`)
READERS = {"rows", "compete", "collect", "report", "quant"}
READERS_USING_INDEX = {"collect", "report", "quant"}  # look proteins up: fail loudly while the flag is down
# the package's LOOKUP CALLERS: look up the groups of external rows in the collection they are handed (model: `Op.rows`)
ROWCALLERS = {"psm_update", "fp_quant", "fp_ion", "sage_quant", "sage_lfq", "mq_quant", "collect_rows", "annot"}
QUANT_CALLERS = ROWCALLERS - {"psm_update", "annot"}
SCORE_CUTOFF = 0.01


def _err(e):
    if isinstance(e, KeyError):
        return {"err": "unknown_protein"}
    if isinstance(e, IndexError):
        return {"err": "index_error"}
    if type(e) is Exception and str(e).startswith("Trying to get group index while index is invalid"):
        return {"err": "invalid_index"}
    raise e


def _state(pg):
    return {
        "groups": [list(g) for g in pg.protein_groups],
        "valid": bool(pg.valid_idx),
        "index": sorted([k, v] for k, v in pg.protein_to_group_idx_map.items()),
    }


def _index_unsound(groups, index):
    """None when `index` (sorted [protein, position] pairs) is an index of `groups`: its keys are exactly the proteins of
    the groups and every key points to a position whose group holds it (which of two positions of a repeated protein is
    the indexer's choice); otherwise what is wrong"""
    members = {p for g in groups for p in g}
    keys = set()
    for p, i in index:
        keys.add(p)
        if not (isinstance(i, int) and 0 <= i < len(groups)) or p not in groups[i]:
            return "%r -> %r, but that position %s" % (p, i, "does not exist" if not (isinstance(i, int) and 0 <= i < len(groups)) else "holds %r" % (groups[i],))
    if keys != members:
        return "proteins %r are in a group but not in the index" % (sorted(members - keys),)
    return None


def _pos_groups(pg, res):
    out = []
    for g in res:
        pos = next((i for i, h in enumerate(pg.protein_groups) if h is g), None)
        out.append([pos, list(g)])
    return sorted(out, key=lambda x: (-1 if x[0] is None else x[0], x[1]))


def norm(case):
    """the multi-collection form of a case (old single-collection cases are lifted)"""
    if "colls" in case:
        return case
    return {"colls": [{"init": case.get("init"), "from_list": bool(case.get("from_list"))}],
            "ops": [[0] + list(op) for op in case["ops"]]}


def star_graphs(comps):
    """one connected component per entry: protein nodes joined by one pseudo-peptide node"""
    import collections

    import networkx as nx

    out = collections.deque()
    for comp in comps:
        G = nx.Graph()
        for p in comp:
            G.add_node(p, node_type="protein")
        if len(comp) > 1:
            for p in comp:
                G.add_edge(p, "peptide:" + ";".join(comp))
        out.append(G)
    return out


def apply_caller(colls, g, c, op):
    """the package's other mutating callers; `colls[c]` is rebound to what the caller returns"""
    from picked_group_fdr import graphs
    from picked_group_fdr.protein_groups import ProteinGroups

    pg, k = colls[c], op[0]
    try:
        if k in ("rescue_update", "rescue_update_last"):
            if k == "rescue_update":
                g.obsolete_protein_groups = ProteinGroups([list(x) for x in op[1]])
                g.obsolete_protein_group_peptide_infos = [None for _ in op[1]]
            elif not hasattr(g, "obsolete_protein_groups"):
                g.obsolete_protein_groups, g.obsolete_protein_group_peptide_infos = ProteinGroups(), []
            infos = [None for _ in pg.protein_groups]
            colls[c], infos = g.update_protein_groups(pg, infos)
            # consumed: the same list objects must not be put into a collection twice
            g.obsolete_protein_groups, g.obsolete_protein_group_peptide_infos = ProteinGroups(), []
            return None
        if k == "unseen_from":
            other = colls[op[1]]
            g.get_rescued_protein_groups = lambda pil: pg  # the rescued grouping IS collection c
            colls[c] = g.merge_with_rescued_protein_groups({}, other, list(range(len(other.protein_groups))))
            return {"obsolete": [[i, list(x)] for i, x in zip(g.obsolete_protein_group_peptide_infos, g.obsolete_protein_groups.protein_groups)]}
        if k == "connected":
            cpg = graphs.ConnectedProteinGraphs(star_graphs(op[1]))
            colls[c] = cpg.decouple_connected_proteins(pg) if op[2] else cpg.get_connected_proteins(pg)
            return None
    except Exception as e:
        return _err(e)
    raise ValueError("unknown op %r" % (op,))


def gen_evidence(groups, v, every_group=False):
    """Peptide evidence for the CURRENT groups of a collection, deterministic in (groups, v): one list of
    (PEP, peptide, proteins) per group.  v = 0: one peptide per non-empty group that lists only the group's FIRST
    protein (every other member has no peptide of its own).  Otherwise 0-3 peptides per non-empty group, each listing
    a non-empty subset of the members with a PEP below (0.001 .. 0.004) or above (0.5) the cutoff 0.01, so that groups
    with members WITHOUT a peptide below the cutoff next to members with one are frequent."""
    rng = random.Random(7919 * v + len(groups))
    infos = []
    for gi, g in enumerate(groups):
        distinct = list(dict.fromkeys(g))
        lst = []
        if distinct and v == 0:
            lst.append((0.001, "PEPTIDE%dK" % gi, [distinct[0]]))
        elif distinct:
            n = rng.choice([0, 1, 1, 2, 3])
            if every_group:
                n = max(1, n)
            for t in range(n):
                sub = rng.sample(distinct, rng.randint(1, len(distinct)))
                if len(distinct) > 1 and rng.random() < 0.5:
                    sub = sub[: len(sub) - 1] or sub
                lst.append((rng.choice([0.001, 0.002, 0.004, 0.004, 0.5]), "PEPTIDE%d_%dK" % (gi, t), sub))
        infos.append(lst)
    return infos


def evidence_pil(groups, v):
    """the same evidence as a peptide -> (PEP, proteins) dict, plus a peptide of a protein that is in no group and a
    peptide shared between two groups (both are left out by the readers)"""
    pil = {}
    for lst in gen_evidence(groups, v):
        for score, peptide, proteins in lst:
            pil[peptide] = (score, list(proteins))
    pil["PEPTIDEXK"] = (0.003, ["X"])
    heads = [g[0] for g in groups if g]
    if len(heads) >= 2:
        pil["PEPTIDESHAREDK"] = (0.001, [heads[0], heads[-1]])
    return pil


def _competition(name):
    from picked_group_fdr import competition

    return {"classic": competition.ClassicStrategy, "picked": competition.PickedStrategy,
            "picked_group": competition.PickedGroupStrategy}[name]()


def _can_compete(groups, infos):
    """do_competition unpacks zip(*survivors): it needs a group with peptides that is not a contaminant group"""
    from picked_group_fdr import helpers

    return any(len(i) > 0 and not helpers.is_contaminant(g) for g, i in zip(groups, infos))


def apply_reader(colls, c, op, scratch):
    """one of the package's readers, called for real with collection c (evidence generated from its current groups);
    returns None or the loud failure"""
    import numpy as np
    from picked_group_fdr import results
    from picked_group_fdr.scoring_strategy import ProteinScoringStrategy

    pg, k = colls[c], op[0]
    groups = [list(g) for g in pg.protein_groups]
    try:
        if k == "rows":  # ProteinGroupResults.from_protein_groups on the live collection
            keep_all, v = bool(op[1]), op[2]
            infos = gen_evidence(groups, v, every_group=keep_all)
            n = len(groups)
            results.ProteinGroupResults.from_protein_groups(pg, infos, [1.0] * n, [0.0] * n, SCORE_CUTOFF, keep_all)
            return None
        if k == "compete":  # do_competition: the returned collection shares the group lists
            infos = gen_evidence(groups, op[2])
            if _can_compete(groups, infos):
                np.random.seed(op[2])
                _competition(op[1]).do_competition(pg, infos, ProteinScoringStrategy("bestPEP"))
            return None
        if k == "collect":
            ProteinScoringStrategy("bestPEP").collect_peptide_scores_per_protein(
                pg, evidence_pil(groups, op[1]), 0.01, suppress_missing_protein_warning=True)
            return None
        if k == "report":  # the reporting sequence of picked_group_fdr.get_protein_group_results
            strategy, keep_all, v = op[1], bool(op[2]), op[3]
            score_type = ProteinScoringStrategy("bestPEP")
            infos = score_type.collect_peptide_scores_per_protein(
                pg, evidence_pil(groups, v), 0.01, suppress_missing_protein_warning=True)
            if _can_compete(groups, infos):
                np.random.seed(v)
                picked, picked_infos, scores = _competition(strategy).do_competition(pg, infos, score_type)
                results.ProteinGroupResults.from_protein_groups(
                    picked, picked_infos, scores, [0.0] * len(scores), score_type.peptide_score_cutoff, keep_all)
            return None
        if k == "quant":  # quant.maxquant.add_precursor_quants: one get_protein_group_idxs per evidence row
            import csv
            import os
            import tempfile

            if not scratch:
                scratch.append(tempfile.mkdtemp(prefix="c20_", dir=_scratch_base()))
            path = os.path.join(scratch[0], "evidence.txt")
            with open(path, "w", newline="") as f:
                w = csv.writer(f, delimiter="\t")
                w.writerow(["Modified sequence", "Leading proteins", "Leading razor protein", "PEP", "Score",
                            "Experiment", "Charge", "Intensity", "Raw file", "id"])
                for i, (peptide, (score, proteins)) in enumerate(evidence_pil(groups, op[1]).items()):
                    w.writerow(["_" + peptide + "_", ";".join(proteins), proteins[0], repr(score), "10", "E1", "2", "100", "raw1", i])
            score_type = ProteinScoringStrategy("no_remap bestPEP")
            pgrs = results.ProteinGroupResults(
                [results.ProteinGroupResult(proteinIds=";".join(g), majorityProteinIds=";".join(g), numberOfProteins=len(g))
                 for g in groups])
            score_type.get_quantification_parser()(
                [path], [path], pg, pgrs, [None], None, True, score_type=score_type, suppress_missing_peptide_warning=True)
            return None
    except Exception as e:
        return _err(e)
    raise ValueError("unknown op %r" % (op,))


def _scratch_base():
    """scratch files of a history (removed when the history ends): memory-backed when the machine offers it"""
    import os

    return "/dev/shm" if os.path.isdir("/dev/shm") and os.access("/dev/shm", os.W_OK) else None


def _mq_effective(row):
    """what `parsers.psm.get_peptide_to_protein_mapper` (no remapping) leaves of a row of evidence.txt: decoy proteins
    are dropped from a row that has a protein which is not a decoy (own statement of
    helpers.remove_decoy_proteins_from_target_peptides)"""
    all_decoy = all("REV__" in p for p in row) or all("rev_" in p for p in row)
    if all_decoy:
        return list(row)
    return [p for p in row if not (p.startswith("REV__") or p.startswith("rev_"))]


def effective_rows(op):
    """the protein lists the caller looks up, in file order"""
    if op[0] == "mq_quant":
        return [_mq_effective(r) for r in op[1]]
    return [list(r) for r in op[1]]


def _write_tsv(path, header, rows):
    import csv

    with open(path, "w", newline="") as f:
        w = csv.writer(f, delimiter="\t")
        w.writerow(header)
        for r in rows:
            w.writerow(r)


PSM_HEADER = ["Spectrum", "Peptide", "Modified Peptide", "Charge", "PeptideProphet Probability", "Assigned Modifications",
              "Observed Modifications", "Protein", "Protein ID", "Entry Name", "Gene", "Protein Description", "Mapped Genes",
              "Mapped Proteins"]


def _pep(t):
    return "PEPTIDE%dK" % t


def _attachments(n_rows, holders):
    """per row: where its peptide ended up; `holders` = per result position the peptides attached there"""
    out = []
    for t in range(n_rows):
        pos = [i for i, peps in enumerate(holders) if _pep(t) in peps]
        out.append("dropped" if not pos else ["attached", pos[0]] if len(pos) == 1 else ["attached_many", pos])
    return out


def apply_rows(colls, c, op, scratch, n):
    """one of the package's lookup callers, called for real with collection c and a rendered file of the rows"""
    import csv
    import os
    import tempfile

    from picked_group_fdr import columns, results
    from picked_group_fdr.scoring_strategy import ProteinScoringStrategy

    pg, k, rows, v = colls[c], op[0], [list(r) for r in op[1]], int(op[2])
    groups = [list(g) for g in pg.protein_groups]
    suppress = True

    def fresh_results():
        return results.ProteinGroupResults(
            [results.ProteinGroupResult(proteinIds=";".join(g), majorityProteinIds=";".join(g), numberOfProteins=len(g))
             for g in groups])

    def holders(pgrs):
        return [{q.peptide for q in pgr.precursorQuants} for pgr in pgrs]

    if not scratch:
        scratch.append(tempfile.mkdtemp(prefix="c20_", dir=_scratch_base()))
    d = scratch[0]  # the files of a step overwrite those of the step before (directory operations are the slow part)
    psm = os.path.join(d, "exp1", "psm.tsv")
    if k in ("psm_update", "fp_quant") and not os.path.isdir(os.path.join(d, "exp1")):
        os.mkdir(os.path.join(d, "exp1"))
    try:
        if k in ("psm_update", "fp_quant"):
            _write_tsv(psm, PSM_HEADER, [["s%d" % t, _pep(t), "", "2", "0.999", "", "", r[0], "", "", "", "", "", ", ".join(r[1:])]
                                         for t, r in enumerate(rows)])
        if k == "psm_update":
            from picked_group_fdr.pipeline import update_fragpipe_results as ufr

            out_folder = os.path.join(d, "out") if v & 1 else None
            out_file = ufr.update_fragpipe_psm_file(psm, pg, {}, output_folder=out_folder,
                                                    suppress_missing_peptide_warning=suppress)
            with open(out_file, newline="") as f:
                rd = csv.reader(f, delimiter="\t")
                header = next(rd)
                sc, pc = header.index("Spectrum"), header.index("Protein")
                written = {}
                for row in rd:
                    written.setdefault(row[sc], []).append(row[pc])
            ans = []
            for t in range(len(rows)):
                w = written.get("s%d" % t)
                ans.append("dropped" if w is None else ["written", w[0]] if len(w) == 1 else ["written_many", w])
            return {"rows": ans}
        if k == "fp_quant":
            from picked_group_fdr.quant import fragpipe as qf

            pgrs = fresh_results()
            if v & 2:
                qf.add_precursor_quants_multiple([psm], None, pg, pgrs, None, None, True,
                                                 ProteinScoringStrategy("no_remap bestPEP"), suppress)
            else:
                qf.add_precursor_quants(psm, pgrs, pg, "exp1", True, suppress)
            return {"rows": _attachments(len(rows), holders(pgrs))}
        if k == "fp_ion":
            from picked_group_fdr.quant import fragpipe as qf

            path = os.path.join(d, "combined_ion.tsv")
            _write_tsv(path, ["Peptide Sequence", "Modified Sequence", "Charge", "Protein", "Mapped Proteins",
                              "Assigned Modifications", "exp1 Intensity"],
                       [[_pep(t), "", "2", r[0], ", ".join(r[1:]), "", "100.0"] for t, r in enumerate(rows)])
            pgrs = fresh_results()
            if v & 2:
                qf.update_precursor_quants(pgrs, pg, [path], True, suppress)
            else:
                qf.update_precursor_quants_single(pgrs, pg, path, True, suppress)
            return {"rows": _attachments(len(rows), holders(pgrs))}
        if k == "sage_quant":
            from picked_group_fdr.quant import sage as qs

            path = os.path.join(d, "results.sage.tsv")
            _write_tsv(path, ["peptide", "proteins", "filename", "charge", "sage_discriminant_score", "posterior_error"],
                       [[_pep(t), ";".join(r), "run1.mzML", "2", "1.0", "-3.0"] for t, r in enumerate(rows)])
            pgrs = fresh_results()
            qs.add_precursor_quants(path, pgrs, pg, None, True, suppress)
            return {"rows": _attachments(len(rows), holders(pgrs))}
        if k == "sage_lfq":
            from picked_group_fdr.quant import sage as qs

            path = os.path.join(d, "lfq.tsv")
            _write_tsv(path, ["peptide", "charge", "proteins", "q_value", "score", "spectral_angle", "run1.mzML"],
                       [[_pep(t), "2", ";".join(r), "0.001", "1.0", "0.9", "100.0"] for t, r in enumerate(rows)])
            pgrs = fresh_results()
            if v & 2:
                qs.update_precursor_quants(pgrs, pg, [path], None, True, suppress)
            else:
                qs.update_precursor_quants_single(pgrs, pg, path, None, True, suppress)
            return {"rows": _attachments(len(rows), holders(pgrs))}
        if k == "mq_quant":
            path = os.path.join(d, "evidence.txt")
            _write_tsv(path, ["Modified sequence", "Leading proteins", "Leading razor protein", "PEP", "Score", "Experiment",
                              "Charge", "Intensity", "Raw file", "id"],
                       [["_" + _pep(t) + "_", ";".join(r), r[0], "0.001", "10", "E1", "2", "100", "raw1", t]
                        for t, r in enumerate(rows)])
            score_type = ProteinScoringStrategy("no_remap bestPEP")
            pgrs = fresh_results()
            score_type.get_quantification_parser()(
                [path], [path], pg, pgrs, [None], None, True, score_type=score_type, suppress_missing_peptide_warning=suppress)
            return {"rows": _attachments(len(rows), holders(pgrs))}
        if k == "collect_rows":
            infos = ProteinScoringStrategy("bestPEP").collect_peptide_scores_per_protein(
                pg, {_pep(t): (0.001, list(r)) for t, r in enumerate(rows)}, 0.01, suppress_missing_protein_warning=True)
            return {"rows": _attachments(len(rows), [{x[1] for x in lst} for lst in infos])}
        if k == "annot":
            pgrs = results.ProteinGroupResults([results.ProteinGroupResult(proteinIds=";".join(r)) for r in rows])
            columns.FragpipeProteinAnnotationsColumns(pg, {}).append_columns(pgrs, 0.01)
            return {"rows": [["leader", pgr.extraColumns[0]] for pgr in pgrs]}
    except Exception as e:
        return _err(e)
    raise ValueError("unknown op %r" % (op,))


# ---------------------------------------------------------------- one history = one process lifetime
_PKG_MODULES = [
    "picked_group_fdr.protein_groups", "picked_group_fdr.helpers", "picked_group_fdr.grouping", "picked_group_fdr.graphs",
    "picked_group_fdr.results", "picked_group_fdr.competition", "picked_group_fdr.scoring_strategy", "picked_group_fdr.columns",
    "picked_group_fdr.quant.maxquant", "picked_group_fdr.quant.fragpipe", "picked_group_fdr.quant.sage",
    "picked_group_fdr.parsers.fragpipe", "picked_group_fdr.parsers.sage", "picked_group_fdr.parsers.maxquant",
    "picked_group_fdr.parsers.psm", "picked_group_fdr.pipeline.update_fragpipe_results",
]
_SNAP = {}         # module name -> {"sig", "names", "entries"}: the IMPORT-TIME state of a package module
_PKG_SEEN = {}     # {"n": len(sys.modules) when last scanned, "mods": the package's modules found then}
_IMPORTED = []     # non-empty once every submodule of the package has been imported (or has failed to import)
_HISTORY_RAN = []  # non-empty once a history ran in this process: a module first seen after that may be tainted
RESET_NOTES = []   # what `fresh_process` could not record / put back (never an exception out of run_impl)
_IMMUTABLE = (type(None), bool, int, float, complex, str, bytes, frozenset, range, type(Ellipsis))


def _note(msg):
    if len(RESET_NOTES) < 50 and msg not in RESET_NOTES:
        RESET_NOTES.append(msg)


def _is_pkg(mname):
    return mname == "picked_group_fdr" or mname.startswith("picked_group_fdr.")


def _import_package():
    """import every submodule of the package ONCE, before any history runs, so that the state recorded for a module is its
    import-time state (a module that cannot be imported - absent optional dependency - is skipped)"""
    import importlib
    import pkgutil
    import sys
    import warnings

    _IMPORTED.append(True)
    with warnings.catch_warnings():
        warnings.simplefilter("ignore")
        names = list(_PKG_MODULES)
        try:
            import picked_group_fdr

            for mi in pkgutil.walk_packages(picked_group_fdr.__path__, "picked_group_fdr.", onerror=lambda n: None):
                if mi.name.rsplit(".", 1)[-1] not in ("__main__", "setup") and mi.name not in names:
                    names.append(mi.name)
        except BaseException as e:  # noqa: BLE001 - the reset never raises
            _note("walk_packages: %s" % type(e).__name__)
        for m in names:
            if m in sys.modules:
                continue
            try:
                importlib.import_module(m)
            except BaseException as e:  # noqa: BLE001
                if m in _PKG_MODULES:
                    _note("import %s: %s" % (m, type(e).__name__))


def _is_state(val):
    """a value that is STATE of a module / class: not a module, class, function, method, descriptor or other callable
    (memoising wrappers are handled on their own)"""
    import types

    if isinstance(val, (types.ModuleType, type, staticmethod, classmethod, property)):
        return False
    if callable(val) or hasattr(type(val), "__get__"):
        return False
    return True


def _restorable(val):
    """objects whose CONTENTS `_put_back` can put back in place"""
    import collections

    if isinstance(val, (dict, set, list, bytearray, collections.deque)):
        return True
    if type(val).__module__ == "numpy" and hasattr(val, "shape"):
        return True
    return _is_pkg(getattr(type(val), "__module__", "") or "") and isinstance(getattr(val, "__dict__", None), dict)


def _snapshot(val):
    """(kind, copy): "ref" = put the very object back under its name, nothing else (immutable values, objects that cannot
    be copied or whose contents cannot be put back in place); "deep" = additionally put its contents back from a copy"""
    import copy

    if isinstance(val, _IMMUTABLE) or not _restorable(val):
        return ("ref", None)
    try:
        return ("deep", copy.deepcopy(val))
    except BaseException:  # noqa: BLE001
        return ("ref", None)


def _record_module(mname, mod):
    """the import-time state of a package module: EVERY module-level name and every class-level name (classes defined in
    the module) bound to a state value - containers, scalars and None alike -, every container among the defaults and
    attributes of its functions, every memoising wrapper (`functools.lru_cache`)"""
    import enum
    import inspect
    import types

    ctypes = _container_types()
    classes = [v for v in list(vars(mod).values())
               if inspect.isclass(v) and getattr(v, "__module__", None) == mname and not issubclass(v, enum.Enum)]
    functions, entries, fn_names = [], [], {}  # entries: (owner, name, slot, kind, object, copy)
    names = {}                   # id(owner) -> (owner, names bound when the module was first seen)
    for owner in [mod] + classes:
        names[id(owner)] = (owner, set(vars(owner)))
        for name, val in list(vars(owner).items()):
            if name.startswith("__") and name.endswith("__"):
                continue
            if callable(getattr(val, "cache_clear", None)):
                entries.append((owner, name, "", "cache", val, None))
                continue
            if _is_state(val):
                kind, snap = _snapshot(val)
                entries.append((owner, name, "", kind, val, snap))
                continue
            fn = val.__func__ if isinstance(val, (staticmethod, classmethod)) else val
            if isinstance(fn, types.FunctionType) and getattr(fn, "__module__", None) == mname:
                functions.append(fn)
                slots = [("default%d" % i, dv) for i, dv in enumerate(fn.__defaults__ or ())]
                slots += [("kwdefault:" + kn, dv) for kn, dv in (fn.__kwdefaults__ or {}).items()]
                slots += [("attr:" + an, av) for an, av in list(vars(fn).items())]
                for slot, dv in slots:
                    if callable(getattr(dv, "cache_clear", None)):
                        entries.append((fn, name, slot, "cache", dv, None))
                    elif type(dv) in ctypes or (slot.startswith("attr:") and _is_state(dv)):
                        kind, snap = _snapshot(dv)
                        entries.append((fn, name, slot, kind, dv, snap))
                fn_names[id(fn)] = set(vars(fn))
    sig = (len(vars(mod)), [len(vars(c)) for c in classes], [len(vars(f)) for f in functions])
    return {"sig": sig, "classes": classes, "functions": functions, "names": names, "fn_names": fn_names, "entries": entries}


def _container_types():
    import collections

    return (dict, list, set, collections.OrderedDict, collections.defaultdict, collections.deque, collections.Counter)


def _same(a, b, depth=0):
    """structural equality of plain containers of plain scalars that cannot raise: no `==` on anything but scalars of
    the same type; whatever it does not know (arrays, frames, objects) counts as "changed" and is simply put back"""
    import collections

    try:
        if a is b:
            return True
        if type(a) is not type(b) or depth > 8:
            return False
        if isinstance(a, (bool, int, float, complex, str, bytes)):
            return bool(a == b)
        if isinstance(a, (list, tuple, collections.deque)):
            return len(a) == len(b) and all(_same(x, y, depth + 1) for x, y in zip(a, b))
        if isinstance(a, dict):
            ka, kb = list(a), list(b)
            return len(ka) == len(kb) and all(_same(x, y, depth + 1) and _same(a[x], b[y], depth + 1) for x, y in zip(ka, kb))
        if isinstance(a, (set, frozenset)):
            return all(isinstance(x, (bool, int, float, str, bytes)) for x in a | b) and a == b
        return False
    except BaseException:  # noqa: BLE001
        return False


def _put_back(owner, name, slot, kind, obj, snap):
    """put ONE recorded value back: the name is bound to the recorded object again and (kind "deep") the object gets its
    recorded contents again, in place, unless `_same` shows they are unchanged (no `==` on arrays / frames: what `_same`
    does not know is always put back)"""
    import collections
    import copy

    if kind == "cache":
        obj.cache_clear()
        if slot == "" and vars(owner).get(name) is not obj:
            setattr(owner, name, obj)
        return
    if slot == "":
        if vars(owner).get(name, _put_back) is not obj:
            setattr(owner, name, obj)
    elif slot.startswith("default"):
        d, i = owner.__defaults__ or (), int(slot[7:])
        if i < len(d) and d[i] is not obj:
            owner.__defaults__ = d[:i] + (obj,) + d[i + 1:]
    elif slot.startswith("kwdefault:"):
        if (owner.__kwdefaults__ or {}).get(slot[10:]) is not obj:
            owner.__kwdefaults__ = dict(owner.__kwdefaults__ or {}, **{slot[10:]: obj})
    elif vars(owner).get(slot[5:], _put_back) is not obj:
        setattr(owner, slot[5:], obj)
    if kind != "deep" or _same(obj, snap):
        return
    content = copy.deepcopy(snap)
    if isinstance(obj, dict):  # defaultdict / OrderedDict / Counter keep their own settings
        obj.clear()
        obj.update(content)
    elif isinstance(obj, set):
        obj.clear()
        obj.update(content)
    elif isinstance(obj, collections.deque):
        obj.clear()
        obj.extend(content)
    elif isinstance(obj, (list, bytearray)):
        obj[:] = content
    elif type(obj).__module__ == "numpy" and hasattr(obj, "shape") and getattr(content, "shape", None) == obj.shape:
        obj[...] = content
    elif _is_pkg(getattr(type(obj), "__module__", "") or "") and isinstance(getattr(obj, "__dict__", None), dict):
        obj.__dict__.clear()  # an instance of a class of the package kept at module / class level
        obj.__dict__.update(vars(content))


def fresh_process():
    """A history stands for ONE process lifetime: state the package keeps outside the objects of the history must not leak
    from one case into the next, or a failing history would not replay on its own.  The state put back is the IMPORT-TIME
    state of the package, WHOLE: every submodule is imported before the first history runs; the first time a module is seen
    every module-level and class-level name bound to a value that is not a module / class / function (containers, SCALARS
    and None alike), every container among function defaults / function attributes and every `lru_cache` wrapper is
    recorded; at the start of every case ALL of them are put back together (names re-bound to the recorded objects, the
    contents of containers restored in place from a copy, memoising wrappers cleared, module / class level names that did
    not exist at import time deleted) - never a part of them, so the package is in the state of a process that has just
    imported it, which a real process reaches.  Contents are compared only by `_same` (plain containers of plain scalars;
    `==` on arrays raises) and nothing here raises: what
    cannot be recorded or put back is listed in RESET_NOTES (handed on under `_rec`)."""
    import sys
    import types

    try:
        if not _IMPORTED:
            _import_package()
        if _PKG_SEEN.get("n") != len(sys.modules):  # the scan of sys.modules is repeated only when modules were imported
            _PKG_SEEN["n"] = len(sys.modules)
            _PKG_SEEN["mods"] = [(m, mod) for m, mod in list(sys.modules.items()) if mod is not None and _is_pkg(m)]
        for mname, mod in _PKG_SEEN["mods"]:
            try:
                rec = _SNAP.get(mname)
                if rec is None:
                    if _HISTORY_RAN:
                        _note("module %s first seen after a history ran: its recorded state may not be its import-time state" % mname)
                    _SNAP[mname] = _record_module(mname, mod)
                    continue
                for owner, name, slot, kind, obj, snap in rec["entries"]:
                    try:
                        _put_back(owner, name, slot, kind, obj, snap)
                    except BaseException as e:  # noqa: BLE001
                        _note("not reset: %s.%s%s (%s)" % (getattr(owner, "__name__", owner), name, slot and ":" + slot, type(e).__name__))
                sig = (len(vars(mod)), [len(vars(c)) for c in rec["classes"]], [len(vars(f)) for f in rec["functions"]])
                if sig != rec["sig"]:  # names were added since import: state created lazily (`global _X`) goes away again
                    for owner, had in rec["names"].values():
                        for name, val in list(vars(owner).items()):
                            if name in had or (name.startswith("__") and name.endswith("__")):
                                continue
                            if isinstance(val, types.ModuleType) or not (_is_state(val) or callable(getattr(val, "cache_clear", None))):
                                continue
                            try:
                                delattr(owner, name)
                            except BaseException as e:  # noqa: BLE001
                                _note("not removed: %s.%s (%s)" % (getattr(owner, "__name__", owner), name, type(e).__name__))
                    for fn in rec["functions"]:  # function attributes created after import
                        known = rec["fn_names"].get(id(fn), ())
                        for an in list(vars(fn)):
                            if an not in known and not (an.startswith("__") and an.endswith("__")):
                                try:
                                    delattr(fn, an)
                                except BaseException:  # noqa: BLE001
                                    _note("not removed: %s.%s" % (fn.__name__, an))
            except BaseException as e:  # noqa: BLE001
                _note("module %s: %s" % (mname, type(e).__name__))
    except BaseException as e:  # noqa: BLE001
        _note("fresh_process: %s" % type(e).__name__)
    if not _HISTORY_RAN:
        _HISTORY_RAN.append(True)


def apply_op(pg, op):
    """one call on the real object -> JSON-able view of what the caller sees"""
    from picked_group_fdr import helpers
    from picked_group_fdr.protein_groups import ProteinGroups

    k = op[0]
    try:
        if k == "append":
            pg.append(list(op[1]))
            return None
        if k == "extend":
            pg.extend(ProteinGroups([list(g) for g in op[1]]))
            return None
        if k == "index":
            pg.create_index()
            return None
        if k == "merge":
            pg.merge_groups(op[1], op[2])
            return None
        if k == "clean":
            pg.remove_empty_groups()
            return None
        if k == "unseen":
            other = ProteinGroups([list(g) for g in op[1]])
            infos = list(range(len(op[1])))
            obs, obs_infos = pg.add_unseen_protein_groups(other, infos)
            return {"obsolete": [[i, list(g)] for i, g in zip(obs_infos, obs.protein_groups)]}
        if k == "group":
            return {"group": list(pg.get_protein_group(op[1], check_idx_valid=op[2]))}
        if k == "idx":
            return {"idx": pg._get_protein_group_idx(op[1], check_idx_valid=op[2])}
        if k == "idxs":
            return {"idxs": sorted(pg.get_protein_group_idxs(list(op[1]), check_idx_valid=op[2]))}
        if k == "groups":
            return {"groups": _pos_groups(pg, pg.get_protein_groups(list(op[1]), check_idx_valid=op[2]))}
        if k == "lead":
            return {"prots": sorted(pg.get_leading_proteins(list(op[1])))}
        if k == "missing":
            return {"bool": bool(helpers.is_missing_in_protein_groups(pg.get_protein_group_idxs(list(op[1]))))}
        if k == "shared":
            return {"bool": bool(helpers.is_shared_peptide(pg.get_protein_group_idxs(list(op[1]))))}
        if k == "missing_groups":  # the call pattern of pipeline/update_fragpipe_results.py:224-226
            return {"bool": bool(helpers.is_missing_in_protein_groups(pg.get_protein_groups(list(op[1]))))}
        if k == "shared_groups":  # update_fragpipe_results.py:234
            return {"bool": bool(helpers.is_shared_peptide(pg.get_protein_groups(list(op[1]))))}
        if k == "size":
            return {"nat": len(pg)}
        if k == "all":
            return {"prots": sorted(pg.get_all_proteins())}
    except Exception as e:
        return _err(e)
    raise ValueError("unknown op %r" % (op,))


def canon_out(o):
    """sort the set-valued answers of the model"""
    if not isinstance(o, dict):
        return o
    if "idxs" in o:
        return {"idxs": sorted(o["idxs"])}
    if "prots" in o:
        return {"prots": sorted(o["prots"])}
    if "groups" in o:
        return {"groups": sorted(o["groups"], key=lambda x: (x[0], x[1]))}
    if "obsolete" in o:
        return {"obsolete": [[i, list(g)] for i, g in o["obsolete"]]}
    return o


def resolve_leaders(model_out, impl_o):
    """`append_columns` annotates a row with the first protein of the first group of a list built from a Python SET: the
    model answers with the leaders of all groups the row hits; the implementation's choice is accepted when it is one
    of them (then the model's entry is shown as that choice)"""
    if not (isinstance(model_out, dict) and "rows" in model_out):
        return model_out
    impl_rows = impl_o.get("rows") if isinstance(impl_o, dict) else None
    out = []
    for t, a in enumerate(model_out["rows"]):
        if isinstance(a, list) and a and a[0] == "leaders":
            b = impl_rows[t] if isinstance(impl_rows, list) and t < len(impl_rows) else None
            if isinstance(b, list) and len(b) == 2 and b[0] == "leader" and b[1] in a[1]:
                a = ["leader", b[1]]
        out.append(a)
    return {"rows": out}


class P(Prop):
    id = "C20"
    quick_cases = 2000
    thorough_cases = 100000
    chunk = 500
    rule = (
        "operation histories of length 1-25 over ONE OR TWO live collections (every call tagged with its collection): append / "
        "extend / create_index / merge_groups / remove_empty_groups / add_unseen_protein_groups and the package's other mutating "
        "callers (RescuedGrouping.update_protein_groups with generated or remembered obsolete groups, "
        "RescuedGrouping.merge_with_rescued_protein_groups with the other collection as the old grouping, "
        "ConnectedProteinGraphs.get_connected_proteins / decouple_connected_proteins over star components) and the package's "
        "READERS of a collection (ProteinGroupResults.from_protein_groups, do_competition of the three strategies, "
        "collect_peptide_scores_per_protein, the three chained as in get_protein_group_results, add_precursor_quants; evidence "
        "generated from the current groups, keep_all_proteins on/off) and the package's LOOKUP CALLERS on rendered files of "
        "0-6 external rows drawn from one pool of 3-6 protein sets per history (update_fragpipe_psm_file, quant.fragpipe / "
        "quant.sage / quant.maxquant add_precursor_quants and update_precursor_quants_single, "
        "collect_peptide_scores_per_protein, FragpipeProteinAnnotationsColumns.append_columns) interleaved with "
        "get_protein_group, _get_protein_group_idx, get_protein_group_idxs, get_protein_groups, get_leading_proteins, "
        "is_missing / is_shared (on index sets and on group lists, as the callers do), size, get_all_proteins; 6 inside + 2 "
        "never-added proteins (+ their OBSOLETE__ forms); empty groups, repeated proteins and merges on unknown or co-located "
        "proteins included; non-trivial = at least one mutator and one lookup that returned a value; distinct by sha1 of the history"
    )
    assumptions = [
        "groups handed to append/extend are fresh list objects (the harness never aliases one list into two positions)",
        "hash-order of Python sets is irrelevant: set-valued answers are compared sorted",
    ]

    # ---------------------------------------------------------------- generation
    def _prots(self, rng, lo, hi, present=()):
        n = rng.randint(lo, hi)
        out = []
        for _ in range(n):
            r = rng.random()
            if r < 0.2:
                out.append(rng.choice(OUTSIDE))
            elif r < 0.8 and present:
                out.append(rng.choice(present))
            else:
                out.append(rng.choice(INSIDE))
        return out

    def _gen_op(self, rng, present, ncoll=1, c=0, can_update_last=False, row_pool=None, fav=None):
        r = rng.random()
        fresh = [p for p in INSIDE if p not in present]
        if r < 0.40:  # mutators
            ks = ["append", "append", "extend", "index", "index", "merge", "merge", "clean", "unseen",
                  "rescue_update", "rescue_update", "connected"]
            if ncoll > 1:
                ks += ["unseen_from", "unseen_from"]
            if can_update_last:
                ks += ["rescue_update_last"] * 4
            k = rng.choice(ks)
            if k == "append":
                pool = fresh if (fresh and rng.random() < 0.8) else INSIDE
                g = rng.sample(pool, min(len(pool), rng.choice([0, 1, 1, 2, 3])))
                return ["append", g]
            if k == "extend":
                pool = fresh if (fresh and rng.random() < 0.8) else INSIDE
                gs = []
                for _ in range(rng.choice([0, 1, 2, 2])):
                    gs.append(rng.sample(pool, min(len(pool), rng.choice([0, 1, 1, 2]))))
                return ["extend", gs]
            if k == "rescue_update":
                # what add_unseen_protein_groups leaves behind: old groups with the OBSOLETE__ prefix
                pool = present if (present and rng.random() < 0.8) else INSIDE
                gs = []
                for _ in range(rng.choice([0, 1, 1, 2])):
                    gs.append(["OBSOLETE__" + x for x in rng.sample(pool, min(len(pool), rng.choice([1, 1, 2])))])
                return ["rescue_update", gs]
            if k == "rescue_update_last":
                return ["rescue_update_last"]
            if k == "unseen_from":
                return ["unseen_from", 1 - c]
            if k == "connected":
                pool = (present or INSIDE) if rng.random() < 0.9 else INSIDE + OUTSIDE
                comps = []
                for _ in range(rng.choice([1, 1, 2])):
                    comps.append(rng.sample(pool, min(len(pool), rng.choice([1, 2, 2, 3]))))
                return ["connected", comps, rng.random() < 0.5]
            if k == "index":
                return ["index"]
            if k == "clean":
                return ["clean"]
            if k == "merge":
                pool = (present or INSIDE) if rng.random() < 0.85 else INSIDE + OUTSIDE
                return ["merge", rng.choice(pool), rng.choice(pool)]
            gs = [rng.sample(INSIDE, rng.choice([0, 1, 1, 2])) for _ in range(rng.choice([0, 1, 2, 3]))]
            return ["unseen", gs]
        if r < 0.64 and r >= 0.50:  # the package's lookup callers: rows from the history's pool (+ now and then a new row)
            k = rng.choice(["psm_update", "psm_update", "psm_update", "fp_quant", "fp_ion", "sage_quant", "sage_lfq",
                            "mq_quant", "collect_rows", "annot"])
            if fav is not None and rng.random() < 0.6:
                k = fav  # a history calls ONE of the functions again and again (a tool looping over the files of a run)
            pool = row_pool or [[p] for p in INSIDE[:3]]
            rows = [list(rng.choice(pool)) for _ in range(rng.choice([0, 1, 2, 3, 3, 4, 6]))]
            if rows and rng.random() < 0.2:
                rows[rng.randrange(len(rows))] = self._prots(rng, 1, 3, present)
            if k == "annot" and rng.random() < 0.7:  # result rows usually name proteins of the collection
                rows = [r for r in rows if any(p in present for p in r)]
            return [k, rows, rng.choice([0, 1, 2, 3])]
        if r < 0.50:  # the package's readers of a collection
            k = rng.choice(["rows", "rows", "compete", "collect", "report", "report", "report", "quant"])
            v = rng.choice([0, 0, 1, 2, 3, 5, 8, 13, 21])
            strategy = rng.choice(["classic", "picked", "picked_group", "picked_group"])
            keep_all = rng.random() < 0.35
            if k == "rows":
                return ["rows", keep_all, v]
            if k == "compete":
                return ["compete", strategy, v]
            if k == "report":
                return ["report", strategy, keep_all, v]
            return [k, v]
        chk = rng.random() < 0.85
        k = rng.choice(
            ["group", "group", "idx", "idxs", "idxs", "groups", "groups", "groups", "lead", "lead", "missing", "shared",
             "missing_groups", "missing_groups", "shared_groups", "size", "all"]
        )
        if k in ("group", "idx"):
            return [k, self._prots(rng, 1, 1, present)[0], chk]
        if k in ("idxs", "groups"):
            return [k, self._prots(rng, 0, 3, present), chk]
        if k in ("size", "all"):
            return [k]
        return [k, self._prots(rng, 0 if rng.random() < 0.1 else 1, 3, present)]

    def _gen_coll(self, rng):
        pool = INSIDE[:]
        rng.shuffle(pool)
        k = rng.randint(0, 3)
        init = [pool[i::k] for i in range(k)] if k else []
        return {"init": init, "from_list": rng.random() < 0.7}

    def gen_case(self, rng, tier):
        n = rng.choice([1, 2, 3, 4, 6, 8, 10, 12, 16, 20, 25])
        ncoll = 2 if rng.random() < 0.5 else 1
        colls, present = [], []
        for c in range(ncoll):
            if rng.random() < (0.3 if ncoll == 1 else 0.6):
                colls.append(self._gen_coll(rng))
                present.append({p for g in colls[-1]["init"] for p in g})
            else:
                colls.append({"init": None, "from_list": False})
                present.append(set())
        ops = []
        reindex = rng.choice([0.0, 0.3, 0.6, 0.9])  # how often a caller re-indexes right after a change
        # the protein sets of the external rows of this history: the same sets are looked up again and again
        universe = INSIDE + OUTSIDE
        row_pool = []
        for _ in range(rng.randint(3, 6)):
            row = rng.sample(universe if rng.random() < 0.3 else INSIDE, rng.choice([1, 1, 1, 2, 2, 3]))
            if rng.random() < 0.1:
                row[0] = "OBSOLETE__" + row[0]
            row_pool.append(row)
        fav = rng.choice(sorted(ROWCALLERS))
        have_obs = False  # the grouping object remembers obsolete groups of the last merge_with_rescued_protein_groups
        for _ in range(n):
            c = rng.randrange(ncoll)
            op = self._gen_op(rng, sorted(present[c]), ncoll, c, have_obs, row_pool, fav)
            ops.append([c] + op)
            k = op[0]
            if k in ("append", "extend", "merge", "rescue_update", "rescue_update_last") and rng.random() < reindex:
                ops.append([c, "index"] if rng.random() < 0.8 else [c, "clean"])
            if k == "append":
                present[c] |= set(op[1])
            elif k in ("extend", "unseen", "rescue_update"):
                present[c] |= {p for g in op[1] for p in g}
            elif k == "unseen_from":
                present[c] |= present[op[1]]
                have_obs = True
            elif k == "rescue_update_last":
                present[c] |= {"OBSOLETE__" + p for p in INSIDE}
                have_obs = False
            elif k == "rescue_update":
                have_obs = False
        return {"colls": colls, "ops": ops}

    def exhaustive_cases(self, tier):
        alpha = [
            ["append", ["A"]], ["append", ["B"]], ["append", []], ["index"], ["clean"],
            ["merge", "A", "B"], ["merge", "B", "A"], ["unseen", [["A"], ["B", "P4"]]],
            ["group", "A", True], ["group", "X", True], ["idxs", ["B", "X"], True],
            ["groups", ["A", "X"], True], ["groups", ["X"], True], ["missing_groups", ["X"]], ["lead", ["B"]],
            ["rescue_update", [["OBSOLETE__A"]]], ["connected", [["B", "A"]], False], ["idxs", ["OBSOLETE__A"], True],
            ["report", "picked_group", False, 0],
            ["psm_update", [["A"], ["B"], ["A", "B"], ["B", "X"]], 1], ["sage_quant", [["A"], ["B", "A"], ["X"]], 0],
        ]
        out = []
        for n in range(1, 5):
            for seq in itertools.product(alpha, repeat=n):
                out.append({"colls": [{"init": None, "from_list": False}], "ops": [[0] + list(o) for o in seq]})
        # two collections, one call each per step: every history of length <= 3 over a small tagged alphabet
        beta = [[c] + o for c in (0, 1) for o in (["index"], ["append", ["A"]], ["group", "A", True], ["idxs", ["B"], True])] + [
            [0, "unseen_from", 1], [0, "rescue_update_last"], [0, "psm_update", [["A"], ["B"], ["A", "B"]], 0],
            [1, "psm_update", [["A"], ["B"], ["A", "B"]], 0], [1, "merge", "B", "A"]]
        for n in range(1, 4):
            for seq in itertools.product(beta, repeat=n):
                out.append({"colls": [{"init": [["A"], ["B"]], "from_list": True}, {"init": [["B"], ["A"]], "from_list": False}],
                            "ops": [list(o) for o in seq]})
        return out

    # ---------------------------------------------------------------- implementation
    def run_impl(self, case):
        from picked_group_fdr import grouping
        from picked_group_fdr.protein_groups import ProteinGroups

        case = norm(case)
        fresh_process()
        colls = []
        for spec in case["colls"]:
            if spec.get("init") is None:
                colls.append(ProteinGroups())
            elif spec.get("from_list"):
                colls.append(ProteinGroups.init_from_list([list(g) for g in spec["init"]]))
            else:
                colls.append(ProteinGroups([list(g) for g in spec["init"]]))
        g = grouping.RescuedSubsetGrouping()  # one grouping strategy object per history, as in a run
        steps, befores = [], []
        init_states = [_state(pg) for pg in colls]
        scratch = []
        try:
            for top in case["ops"]:
                c, op = top[0], top[1:]
                befores.append([[list(x) for x in pg.protein_groups] for pg in colls])
                if op[0] in ("rescue_update", "rescue_update_last", "unseen_from", "connected"):
                    out = apply_caller(colls, g, c, op)
                elif op[0] in READERS:
                    out = apply_reader(colls, c, op, scratch)
                elif op[0] in ROWCALLERS:
                    out = apply_rows(colls, c, op, scratch, len(steps))
                else:
                    out = apply_op(colls[c], op)
                steps.append({"out": out, "states": [_state(pg) for pg in colls]})
        finally:
            if scratch:
                import shutil

                shutil.rmtree(scratch[0], ignore_errors=True)
        rec = {"before": befores, "init_states": init_states}
        if RESET_NOTES:
            rec["reset_notes"] = list(RESET_NOTES)
        return {"steps": steps, "_rec": rec}

    # ---------------------------------------------------------------- model
    def model_request(self, case, impl_out):
        case = norm(case)
        ops = []
        for top in case["ops"]:
            if top[1] == "connected":  # the callers iterate over the SORTED protein nodes of a component
                top = [top[0], "connected", [sorted(comp) for comp in top[2]], bool(top[3])]
            elif top[1] in ROWCALLERS:  # the protein lists the caller looks up (evidence.txt: after the parser's decoy filter)
                top = [top[0], top[1], effective_rows(top[1:]), top[3]]
            ops.append(top)
        return {"op": "pg2", "colls": [{"init": s.get("init"), "from_list": bool(s.get("from_list"))} for s in case["colls"]],
                "ops": ops}

    def model_view(self, case, resp, impl_out):
        if "steps" not in resp:
            return resp
        impl_steps = impl_out.get("steps", []) if isinstance(impl_out, dict) else []
        return {
            "steps": [
                {"out": resolve_leaders(canon_out(s["out"]), impl_steps[n]["out"] if n < len(impl_steps) else None),
                 "states": [{"groups": t["groups"], "valid": t["valid"], "index": sorted(t["index"])} for t in s["states"]]}
                for n, s in enumerate(resp["steps"])
            ]
        }

    def impl_view(self, case, impl_out):
        if isinstance(impl_out, dict) and "steps" in impl_out:
            return {"steps": impl_out["steps"]}
        return impl_out

    # ---------------------------------------------------------------- the property, stated directly
    def oracle(self, case, impl_out):
        """Membership is recomputed by a linear scan of `.protein_groups` OF THE COLLECTION THE CALL WAS MADE ON, as it
        was when the call was made; `fresh[c]` is the oracle's own record of "the index of collection c has been rebuilt
        since its last change"."""
        if not isinstance(impl_out, dict) or "steps" not in impl_out:
            return "no step record: %r" % (impl_out,)
        case = norm(case)
        fresh = [bool(s.get("init") is not None and s.get("from_list")) for s in case["colls"]]
        befores = impl_out["_rec"]["before"]
        for n, (top, st, all_groups) in enumerate(zip(case["ops"], impl_out["steps"], befores)):
            c, op = top[0], top[1:]
            groups = all_groups[c]
            k, out = op[0], st["out"]
            # no call may touch another collection
            for d, gs in enumerate(all_groups):
                if d != c and st["states"][d]["groups"] != gs:
                    return "step %d %r: the groups of collection %d changed although the call was made on collection %d" % (n, top, d, c)
            where = {}
            for i, g in enumerate(groups):
                for p in g:
                    where.setdefault(p, []).append(i)
            unique = all(len(v) == 1 for v in where.values())
            tag = "step %d %r: " % (n, top)
            failed = isinstance(out, dict) and "err" in out
            if k in ROWCALLERS or k in READERS:
                # The property allows a lookup to "fail loudly OR return the true group": a caller / reader that re-indexes the
                # collection it was handed (`if not pg.valid_idx: pg.create_index()`) keeps the property.  So: a change of the
                # GROUPS of any live collection is a failing input; a change of flag / index only when it leaves a collection
                # whose flag is up although its index is not an index of its current groups (that state answers wrongly
                # without failing).  Every other change of flag / index is left to the correspondence (the model's step is a
                # no-op, the state comparison disagrees).
                who = "lookup caller" if k in ROWCALLERS else "reader"
                prev = impl_out["steps"][n - 1]["states"] if n > 0 else impl_out["_rec"].get("init_states")
                if prev is not None:
                    for d, before in enumerate(prev):
                        after = st["states"][d]
                        if after["groups"] != before["groups"]:
                            return tag + "the %s changed the groups of collection %d: %r before, %r after" % (
                                who, d, before["groups"], after["groups"])
                        if after["valid"] != before["valid"] or after["index"] != before["index"]:
                            bad = _index_unsound(after["groups"], after["index"]) if after["valid"] else None
                            if bad:
                                return tag + "the %s left collection %d with the flag up (flag %r, index %r before) although its index %r is not the index of its current groups %r: %s" % (
                                    who, d, before["valid"], before["index"], after["index"], after["groups"], bad)
                            if after["valid"]:
                                fresh[d] = True  # rebuilt by the caller: later calls need not fail
            if k in ROWCALLERS:
                # What the caller does with a row is its POLICY (which rows it drops, whether a shared row is written, what it
                # does with the -1 marker): the model states it, the correspondence compares it.  The property itself: a row
                # that IS mapped is mapped to a CURRENT group / position that holds a protein of the row (so a row whose
                # proteins are in no current group is never mapped), whether or not the index was stale when it was asked.
                rows = effective_rows(op)
                if failed:
                    e = out["err"]
                    if e == "invalid_index":
                        if fresh[c]:
                            return tag + "failed with 'index is invalid' although the index was rebuilt after the last change"
                        continue
                    if e == "index_error" and k == "annot" and any(not any(p in where for p in r) for r in rows):
                        continue  # `[][0]`: a result row none of whose proteins is in a group
                    return tag + "raised %s" % e
                if not (isinstance(out, dict) and isinstance(out.get("rows"), list) and len(out["rows"]) == len(rows)):
                    return tag + "answer %r does not have one entry per row" % (out,)
                for t, (r, a) in enumerate(zip(rows, out["rows"])):
                    rtag = tag + "row %d %r: " % (t, r)
                    hit = sorted({i for p in r if p in where for i in where[p]})
                    kind = a if isinstance(a, str) else a[0]
                    if kind == "dropped":
                        continue  # never judged: dropping a row is the caller's policy
                    if kind in ("written", "written_many", "leader"):
                        for lead in ([a[1]] if kind != "written_many" else list(a[1])):
                            if kind != "leader" and lead not in r:
                                return rtag + "written with the leading protein %r, which is not a protein of the row" % lead
                            if not any(groups[i] and groups[i][0] == lead for i in hit):
                                return rtag + "%s the leading protein %r, but the current group(s) of its proteins are %r" % (
                                    "annotated with" if kind == "leader" else "written with", lead, [groups[i] for i in hit])
                    elif kind in ("attached", "attached_many"):
                        for i in ([a[1]] if kind == "attached" else list(a[1])):
                            if not (isinstance(i, int) and 0 <= i < len(groups)):
                                return rtag + "attached to position %r outside the collection" % (i,)
                            if i not in hit:
                                return rtag + "attached to position %d (%r), which holds none of its proteins" % (i, groups[i])
                    else:
                        return rtag + "unknown answer %r" % (a,)
                continue
            if k in READERS:
                # a reader may fail only loudly with 'index is invalid', only when it uses the index, only while the index is stale
                if failed:
                    if out["err"] != "invalid_index" or k not in READERS_USING_INDEX:
                        return tag + "the reader raised %s" % out["err"]
                    if fresh[c]:
                        return tag + "failed with 'index is invalid' although the index was rebuilt after the last change"
                continue
            if k in MUTATORS:
                if k in ("append", "extend", "rescue_update", "rescue_update_last"):
                    fresh[c] = False
                elif k == "merge":
                    if out is None:
                        fresh[c] = False
                elif k == "connected":
                    if not failed:
                        fresh[c] = True  # the caller ended with remove_empty_groups
                    elif st["states"][c]["groups"] != groups:
                        fresh[c] = False
                elif not failed:
                    fresh[c] = True
                continue
            fresh_c = fresh[c]
            if k in ("size", "all"):
                continue
            check = op[2] if k in CHECKED else True
            if not check:
                continue  # deliberate read of the stale index (generate_protein_groups); outside the property
            prots = [op[1]] if k in ("group", "idx") else list(op[1])
            present = [p for p in prots if p in where]
            absent = [p for p in prots if p not in where]
            if isinstance(out, dict) and "err" in out:
                e = out["err"]
                if e == "invalid_index":
                    if fresh_c:
                        return tag + "failed with 'index is invalid' although the index was rebuilt after the last change"
                    continue
                if e == "unknown_protein" and k in ("group", "idx", "lead") and absent:
                    continue  # reported as missing
                return tag + "raised %s for proteins that are all contained in a group (%r)" % (e, present) if not absent else tag + "raised %s" % e
            # the call answered: the answer must be true of the current groups
            if k == "group":
                p = prots[0]
                if p not in where:
                    return tag + "protein in no group was mapped to the existing group %r" % (out["group"],)
                if not any(groups[i] == out["group"] for i in where[p]):
                    return tag + "returned %r which is not a current group containing %s" % (out["group"], p)
            elif k == "idx":
                p = prots[0]
                if p not in where:
                    return tag + "protein in no group was mapped to position %r" % (out["idx"],)
                if out["idx"] not in where[p]:
                    return tag + "returned position %r, but %s is in group(s) %r" % (out["idx"], p, where[p])
            elif k == "idxs":
                got = set(out["idxs"])
                for p in absent:
                    if -1 not in got:
                        return tag + "%s is in no group but was not reported as missing (-1)" % p
                if not absent and -1 in got:
                    return tag + "reported a missing protein although all are in groups"
                for i in got - {-1}:
                    if not any(i in where[p] for p in present):
                        return tag + "position %d holds none of the present proteins %r" % (i, present)
                for p in present:
                    if not got & set(where[p]):
                        return tag + "no position returned for %s (in %r)" % (p, where[p])
                if unique and got - {-1} != {where[p][0] for p in present}:
                    return tag + "positions %r != expected %r" % (sorted(got), sorted({where[p][0] for p in present}))
            elif k == "groups":
                poss = [x[0] for x in out["groups"]]
                if None in poss:
                    return tag + "returned a list object that is not one of the current groups"
                if len(set(poss)) != len(poss):
                    return tag + "returned the same group twice (positions %r)" % (poss,)
                for pos, g in out["groups"]:
                    if not any(pos in where[p] for p in present):
                        return tag + "returned the foreign group %r at position %d: it contains none of %r" % (g, pos, prots)
                for p in present:
                    if not set(poss) & set(where[p]):
                        return tag + "group of %s missing from the answer" % p
            elif k == "lead":
                want_ok = all(p in where for p in prots)
                if not want_ok:
                    return tag + "answered although %r is in no group" % (absent,)
                if unique and set(out["prots"]) != {groups[where[p][0]][0] for p in prots}:
                    return tag + "leading proteins %r != %r" % (out["prots"], sorted({groups[where[p][0]][0] for p in prots}))
            elif k in ("missing", "missing_groups"):
                want = not present
                if out["bool"] != want:
                    return tag + "is_missing=%r but present proteins are %r" % (out["bool"], present)
            elif k == "shared":
                if unique:
                    want = len({where[p][0] for p in present} | ({-1} if absent else set())) > 1
                    if out["bool"] != want:
                        return tag + "is_shared=%r expected %r" % (out["bool"], want)
            elif k == "shared_groups":
                if unique:
                    want = len({where[p][0] for p in present}) > 1
                    if out["bool"] != want:
                        return tag + "is_shared(groups)=%r expected %r (present %r)" % (out["bool"], want, present)
        return None

    # ---------------------------------------------------------------- bookkeeping
    def nontrivial(self, case, impl_out):
        if not isinstance(impl_out, dict) or "steps" not in impl_out:
            return False
        ops = [t[1:] for t in norm(case)["ops"]]
        mut = any(op[0] in MUTATORS for op in ops)
        ans = any(
            op[0] not in MUTATORS and op[0] not in READERS and op[0] not in ("size", "all") and isinstance(s["out"], dict) and "err" not in s["out"]
            for op, s in zip(ops, impl_out["steps"])
        )
        return mut and ans

    def features(self, case, impl_out):
        case = norm(case)
        f = ["len=%s" % (len(case["ops"]) if len(case["ops"]) < 10 else "10+"), "collections=%d" % len(case["colls"])]
        if not isinstance(impl_out, dict) or "steps" not in impl_out:
            return f + ["no-steps"]
        touched = set()
        seen_rows, nmut = {}, 0  # protein set -> number of mutator calls when a lookup caller last looked it up
        for top, s in zip(case["ops"], impl_out["steps"]):
            op = top[1:]
            o = s["out"]
            if op[0] in MUTATORS:
                touched.add(top[0])
                nmut += 1
            if op[0] in ROWCALLERS:
                answered = isinstance(o, dict) and "rows" in o
                for r in effective_rows(op):
                    key = tuple(r)
                    if key in seen_rows and answered:
                        f.append("rowcall:protein-set-looked-up-again")
                        if seen_rows[key][0] < nmut:
                            f.append("rowcall:protein-set-looked-up-again-after-a-change")
                        if seen_rows[key][1] != top[0]:
                            f.append("rowcall:protein-set-looked-up-on-another-collection")
                    if answered:
                        seen_rows[key] = (nmut, top[0])
                if answered:
                    for a in o["rows"]:
                        f.append("rowcall:%s" % (a if isinstance(a, str) else a[0]))
            if isinstance(o, dict) and "err" in o:
                f.append("%s:%s" % (op[0], o["err"]))
            else:
                f.append("%s:ok" % op[0])
                if op[0] not in MUTATORS and op[0] not in READERS and op[0] not in ("size", "all") and len(touched - {top[0]}) > 0:
                    f.append("lookup-answered-after-other-collection-changed")
            if op[0] in ("groups", "idxs", "missing_groups", "missing", "group") and any(p in OUTSIDE for p in ([op[1]] if isinstance(op[1], str) else op[1])):
                f.append("outside-protein-queried")
        return sorted(set(f))

    def shrink(self, case):
        case = norm(case)
        ops, colls = case["ops"], case["colls"]
        for i in range(len(ops) - 1, -1, -1):
            yield {"colls": colls, "ops": ops[:i] + ops[i + 1 :]}
        for c, spec in enumerate(colls):
            if spec.get("init"):
                yield {"colls": colls[:c] + [{"init": None, "from_list": False}] + colls[c + 1 :], "ops": ops}
        if len(colls) == 2 and not any(t[0] == 1 or t[1] == "unseen_from" for t in ops):
            yield {"colls": colls[:1], "ops": ops}
        for i, op in enumerate(ops):
            for j in range(2, len(op)):
                if isinstance(op[j], list) and op[j]:
                    for t in range(len(op[j])):
                        op2 = list(op)
                        op2[j] = op[j][:t] + op[j][t + 1 :]
                        yield {"colls": colls, "ops": ops[:i] + [op2] + ops[i + 1 :]}
