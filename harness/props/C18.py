"""C18 — every shipped method configuration is usable from the command line.

Two correspondence legs against the Lean model `PgFdr.C18` (driver op "method"):

* kind "cfg" (in-process, thousands of cases): a generated TOML file (score descriptions built
  from the substrings the code tests, valid / invalid / missing strategy names) goes through the
  real `methods.parse_method_toml`; the parsed configuration (score class, origin class, razor /
  shared flags, grouping, competition, rescue ability, remapping, evidence flag, score column)
  is compared with the model's; then a small fixed data set, rendered in the input format the
  configuration reads, goes through the REAL evidence parser of that type with the configuration's
  score type (every origin x score combination, `MQ_protein` included; a MaxQuant proteinGroups
  file is supplied in a share of the cases) and the real `get_protein_group_results` runs on what
  the parser returned; the verdict (table / skipped / which refusal) is compared with the model's.
* kind "cli" (subprocesses, `extra` stage, 16-way parallel): `python -m picked_group_fdr` for
  EVERY shipped method (the list is read from the methods directory of the tree under test) on a
  generated consistent data set rendered in the input format the method reads (MaxQuant
  evidence.txt, Percolator target + decoy, FragPipe psm.tsv, Sage results, DIA-NN tsv) with a
  matching FASTA, several methods at once, runs without FASTA, and deliberately unsupported
  combinations (missing input file, custom TOML with a rescue step and a score that cannot
  rescue, unknown names).  Exit status, error class and the set of tables written are compared
  with the model's verdict; every written table is checked directly for the ranking / q-value /
  row-consistency guarantees.

The oracle never consults the model: the expected behaviour of a case is fixed by how the case
was constructed (shipped method + matching valid input => a table; listed unsupported
combination => the tool's own refusal).
"""
import csv
import json
import math
import os
import random
import re
import shutil
import subprocess
import sys
import tempfile
import traceback
from concurrent.futures import ThreadPoolExecutor
from pathlib import Path

import lib
from lib import Prop

INPUTS = ["mq", "perc", "fragpipe", "sage", "diann"]
FLAG = {
    "mq": "--mq_evidence",
    "perc": "--perc_evidence",
    "fragpipe": "--fragpipe_psm",
    "sage": "--sage_results",
    "diann": "--diann_reports",
}
TOML_KEYS = ["pickedStrategy", "scoreType", "grouping", "sharedPeptides", "label"]

# the tool's own refusals: (exception type, regex on the message) -> error enum of the model
OWN_ERRORS = [
    ("FileNotFoundError", r"Could not find method", "unknown_method"),
    ("NotImplementedError", r"Cannot do rescue step", "rescue_unsupported"),
    ("ValueError", r"No fasta or peptide to protein mapping file detected", "missing_fasta"),
    ("ValueError", r"Missing MQ protein groups file input", "missing_mq_protein_groups"),
    ("ValueError", r"Column None is missing", "no_score_column"),
    # fixes/C18-mq-protein-score-without-file: the shipped code ends in FileNotFoundError '' here (internal error)
    ("ValueError", r"MQ_protein score type reads its protein scores from a MaxQuant\s+proteinGroups.txt file, but no such file was given", "no_protein_score_file"),
    ("ValueError", r"Unknown pickedStrategy .*'picked', 'picked_group' or 'classic'", "unknown_picked"),
    ("ValueError", r"Unknown (pickedStrategy|grouping) .*'no', 'subset' or 'rescued_subset'", "unknown_grouping"),
    ("NotImplementedError", r"^$", "unknown_score"),
    ("KeyError", r"^'(pickedStrategy|scoreType|grouping|sharedPeptides|label)'$", "missing_key"),
]


def classify_exception(etype, msg):
    for t, rx, tag in OWN_ERRORS:
        if etype == t and re.search(rx, msg, flags=re.S):
            return tag
    return "internal:" + etype


# --------------------------------------------------------------------------------------
# independent reading of a TOML file's fields (what the oracle / generator know)
# --------------------------------------------------------------------------------------
def shipped_methods():
    """name -> dict of the TOML files of the tree under test (measured, never hard-coded)"""
    import toml

    out = {}
    for f in sorted((lib.REPO / "picked_group_fdr" / "methods").glob("*.toml")):
        try:
            out[f.stem] = toml.load(f)
        except Exception:
            out[f.stem] = {}
    return out


def input_of_score_type(st):
    """the input type a score description reads — the documented convention of the TOML files"""
    if "Perc" in st:
        return "perc"
    if "FragPipe" in st:
        return "fragpipe"
    if "Sage" in st:
        return "sage"
    if "DIA-NN" in st:
        return "diann"
    return "mq"


def remaps_of_score_type(st):
    if "Perc" in st:
        return "remap" in st
    if any(k in st for k in ("FragPipe", "Sage", "DIA-NN")):
        return False
    return "no_remap" not in st


# --------------------------------------------------------------------------------------
# data sets: proteins built from tryptic peptides, PSMs with consistent protein lists
# --------------------------------------------------------------------------------------
AA = "ACDEFGHILNQSTVWY"  # no K/R/P/M inside a peptide
GRID = ["0.00001", "0.00002", "0.00005", "0.0001", "0.0002", "0.0005", "0.001", "0.002", "0.005", "0.01", "0.02", "0.05", "0.1", "0.2", "0.5"]


def decoy_seq(seq):
    s = list(seq[::-1])
    for i in range(1, len(s)):
        if s[i] in "KR":
            s[i], s[i - 1] = s[i - 1], s[i]
    return "".join(s)


def tryptic(seq):
    return [p for p in re.findall(r"[^KR]*[KR]|[^KR]+$", seq) if p]


def gen_data(rng, big=False):
    npep = rng.randint(5, 12 if big else 8)
    pool = []
    while len(pool) < npep:
        p = "".join(rng.choice(AA) for _ in range(rng.randint(7, 10))) + rng.choice("KR")
        if p not in pool:
            pool.append(p)
    nprot = rng.randint(2, 7 if big else 5)
    names = ["P%d" % (i + 1) for i in range(nprot)]
    members = []
    for i in range(nprot):
        r = rng.random()
        if i > 0 and r < 0.2:  # subset of an earlier protein
            base = members[rng.randrange(i)]
            k = rng.randint(1, len(base))
            m = rng.sample(base, k)
        elif i > 0 and r < 0.3:  # same peptide set as an earlier protein
            m = list(members[rng.randrange(i)])
            rng.shuffle(m)
        else:
            m = rng.sample(pool, rng.randint(1, min(4, npep)))
        members.append(m)
    # the first protein always owns a peptide of its own so that some group has evidence
    own = "".join(rng.choice(AA) for _ in range(9)) + "K"
    members[0] = [own] + [p for p in members[0] if p != own]
    proteins = [[n, "M" + "".join(m)] for n, m in zip(names, members)]
    target_peps = {}
    for n, s in proteins:
        for p in tryptic(s[1:]):
            target_peps.setdefault(p, []).append(n)
    psms = []
    observed = [p for p in target_peps if rng.random() < 0.8 or p == own]
    for p in observed:
        pep = rng.choice(GRID[:10]) if p != own else rng.choice(GRID[:4])
        psms.append([p, sorted(set(target_peps[p]), key=names.index), pep])
        if rng.random() < 0.25:  # a second, worse PSM of the same peptide
            psms.append([p, sorted(set(target_peps[p]), key=names.index), rng.choice(GRID[6:])])
    decoy_peps = {}
    for n, s in proteins:
        for p in tryptic(decoy_seq(s)):
            if len(p) >= 7 and p not in target_peps:
                decoy_peps.setdefault(p, []).append("REV__" + n)
    dl = sorted(decoy_peps)
    rng.shuffle(dl)
    for p in dl[: rng.randint(1, 4 if big else 3)]:
        psms.append([p, decoy_peps[p], rng.choice(GRID[5:])])
    rng.shuffle(psms)
    return {"proteins": proteins, "psms": psms}


TINY = {
    "proteins": [["P1", "MAAAAAAKCCCCCCRGGGGGGK"], ["P2", "MCCCCCCREEEEEEKHHHHHHR"], ["P3", "MLLLLLLKNNNNNNR"]],
    "psms": [
        ["AAAAAAK", ["P1"], "0.0001"],
        ["CCCCCCR", ["P1", "P2"], "0.0002"],
        ["GGGGGGK", ["P1"], "0.001"],
        ["EEEEEEK", ["P2"], "0.002"],
        ["NNNNNNR", ["P3"], "0.003"],
        ["NNNNNKLLLLLLM", ["REV__P3"], "0.004"],
    ],
}


def _tsv(rows):
    import io

    buf = io.StringIO()
    w = csv.writer(buf, delimiter="\t", lineterminator="\n")
    w.writerows(rows)
    return buf.getvalue()


def render_inputs(data, supply, perc_split=False):
    """file name -> content, and the command-line words per input type"""
    files, words = {}, {}
    psms = data["psms"]
    if "mq" in supply:
        hdr = ["Modified sequence", "Leading proteins", "Leading razor protein", "PEP", "Score", "Experiment", "Charge", "Intensity", "Raw file", "id"]
        files["evidence.txt"] = _tsv([hdr] + [["_" + m + "_", ";".join(p), p[0], s, "10", "E1", "2", "1000.0", "r1", str(i)] for i, (m, p, s) in enumerate(psms)])
        words["mq"] = ["evidence.txt"]
    if "perc" in supply:
        hdr = ["PSMId", "score", "q-value", "posterior_error_prob", "peptide", "proteinIds"]
        rows = [["raw_%d_2_1" % i, "1.0", "0.01", s, "-." + m + ".-"] + list(p) for i, (m, p, s) in enumerate(psms)]
        t = [r for r, x in zip(rows, psms) if not x[1][0].startswith("REV__")]
        d = [r for r, x in zip(rows, psms) if x[1][0].startswith("REV__")]
        if perc_split and t and d:
            files["pout.target.txt"] = _tsv([hdr] + t)
            files["pout.decoy.txt"] = _tsv([hdr] + d)
            words["perc"] = ["pout.target.txt", "pout.decoy.txt"]
        else:
            files["pout.txt"] = _tsv([hdr] + rows)
            words["perc"] = ["pout.txt"]
    if "fragpipe" in supply:
        hdr = ["Spectrum", "Peptide", "Modified Peptide", "SpectralSim", "PeptideProphet Probability", "Protein", "Mapped Proteins"]
        files["psm.tsv"] = _tsv([hdr] + [[str(i), m, "", "0.9", repr(1 - float(s)), p[0], ", ".join(p[1:])] for i, (m, p, s) in enumerate(psms)])
        words["fragpipe"] = ["psm.tsv"]
    if "sage" in supply:
        hdr = ["peptide", "proteins", "charge", "sage_discriminant_score", "filename", "posterior_error"]
        files["results.sage.tsv"] = _tsv([hdr] + [[m, ";".join(p), "2", "1.0", "f.mzML", repr(math.log10(float(s)))] for m, p, s in psms])
        words["sage"] = ["results.sage.tsv"]
    if "diann" in supply:
        hdr = ["Run", "Modified.Sequence", "Precursor.Charge", "Protein.Ids", "Decoy", "PEP", "Ms1.Normalised"]
        files["report.tsv"] = _tsv(
            [hdr] + [["r1", m, "2", ";".join(x.replace("REV__", "") for x in p), str(int(p[0].startswith("REV__"))), s, "100.0"] for m, p, s in psms]
        )
        words["diann"] = ["report.tsv"]
    return files, words


def render_fasta(data):
    return "".join(">%s\n%s\n" % (n, s) for n, s in data["proteins"])


def toml_text(d):
    import toml

    return toml.dumps(d)


# --------------------------------------------------------------------------------------
# the written table, checked directly (C01 / C06-style guarantees)
# --------------------------------------------------------------------------------------
def check_table(text):
    rows = list(csv.reader(text.splitlines(), delimiter="\t"))
    if not rows:
        return "empty output file"
    hdr = rows[0]
    need = ["Protein IDs", "Majority protein IDs", "Peptide counts (unique)", "Number of proteins", "Q-value", "Score", "Reverse"]
    for h in need:
        if h not in hdr:
            return "column %r missing from the written table" % h
    if len(set(hdr)) != len(hdr):
        return "duplicate column header"
    ix = {h: hdr.index(h) for h in need}
    seen = set()
    prev_q, prev_s = None, None
    for k, r in enumerate(rows[1:], 1):
        if len(r) != len(hdr):
            return "row %d has %d fields, header has %d" % (k, len(r), len(hdr))
        ids = r[ix["Protein IDs"]].split(";")
        q, s = float(r[ix["Q-value"]]), float(r[ix["Score"]])
        if math.isnan(q) or q < 0:
            return "row %d: q-value %r" % (k, q)
        if prev_q is not None and q < prev_q:
            return "q-values not monotone: row %d has %r after %r" % (k, q, prev_q)
        if prev_s is not None and s > prev_s:
            return "rows not sorted by score: row %d has %r after %r" % (k, s, prev_s)
        prev_q, prev_s = q, s
        for p in ids:
            if p in seen:
                return "protein %s reported twice" % p
            seen.add(p)
        if int(r[ix["Number of proteins"]]) != len(ids):
            return "row %d: Number of proteins %s but %d identifiers" % (k, r[ix["Number of proteins"]], len(ids))
        maj = r[ix["Majority protein IDs"]].split(";")
        if not set(maj) <= set(ids) or not maj[0]:
            return "row %d: majority proteins %r not among %r" % (k, maj, ids)
        if len(r[ix["Peptide counts (unique)"]].split(";")) != len(ids):
            return "row %d: %d peptide counts for %d proteins" % (k, len(r[ix["Peptide counts (unique)"]].split(";")), len(ids))
        is_decoy = all("REV__" in p for p in ids)
        if (r[ix["Reverse"]] == "+") != is_decoy:
            return "row %d: Reverse flag %r for %r" % (k, r[ix["Reverse"]], ids)
    return None


# --------------------------------------------------------------------------------------
# fixed data set for the in-process verdict: rendered in the input format the configuration reads, parsed by the
# real evidence parser with the configuration's score type, then handed to the real get_protein_group_results
# --------------------------------------------------------------------------------------
FIXED = {
    "proteins": TINY["proteins"],
    "psms": TINY["psms"] + [["DDDDDDK", ["REV__P1"], "0.05"]],
}
MQ_GROUPS_TXT = _tsv([["Protein IDs", "Score"], ["P1", "30"], ["P2", "20"], ["P3", "10"], ["REV__P1", "3"], ["REV__P2", "2"], ["REV__P3", "1"]])


class _Args:
    pass


class P(Prop):
    id = "C18"
    quick_cases = 2000
    thorough_cases = 60000
    chunk = 500
    rule = (
        "kind=cfg: generated TOML files (score descriptions composed of the tested substrings, valid/invalid/missing "
        "strategy names, pseudo-gene override, random supplied-input sets, 20% with a proteinGroups file) through the real "
        "parse_method_toml, the real evidence parser of the configuration's input type on a fixed rendered data set and "
        "get_protein_group_results in-process; kind=cli (extra stage): the real command line for every shipped method "
        "on a generated consistent data set of its input type with FASTA, several methods at once, runs without FASTA and "
        "deliberately unsupported combinations. Non-trivial = a configuration that parses (cfg) / a run that reaches the "
        "method loop (cli); distinct by sha1 of the case"
    )
    assumptions = [
        "generated data sets are valid input: peptides are fully tryptic peptides of the FASTA proteins, at least one protein owns a unique identified peptide",
        "labels of the shipped TOML files are ASCII (output file naming lower-cases them)",
    ]
    trusted_extra = [
        "harness/props/C18.py:classify_exception (maps the tool's own refusal messages to the model's error enum; anything else is an internal error)",
    ]

    # ------------------------------------------------------------------ generation
    SCORE_TOKENS = ["multPEP", "bestPEP", "Andromeda", "MQ_protein", "Perc", "remap", "no_remap", "FragPipe", "Sage", "DIA-NN", "razor", "with_shared"]
    NOISE = ["", "perc", "bestpep", "DIANN", "Percolator", "remapped", "best", "PEP", "mult", "MQ", "xx", "Sage2", "no", "_"]
    GROUPINGS = ["no", "subset", "rescued_subset", "mq_native", "rescued_mq_native", "pseudo_gene"]
    PICKED = ["picked", "picked_group", "classic"]

    def gen_case(self, rng, tier):
        r = rng.random()
        if r < 0.25:
            # a shipped file's fields, possibly with one field perturbed
            sm = self._shipped()
            name = rng.choice(sorted(sm))
            t = dict(sm[name])
            t = {k: t[k] for k in TOML_KEYS if k in t and isinstance(t[k], str)}
            if rng.random() < 0.5:
                k = rng.choice(TOML_KEYS)
                t[k] = self._field(rng, k)
        else:
            t = {k: self._field(rng, k) for k in TOML_KEYS}
        for k in TOML_KEYS:
            if rng.random() < 0.03:
                t.pop(k, None)
        sup = {k: rng.random() < 0.6 for k in INPUTS}
        sup["map"] = rng.random() < 0.7
        # a MaxQuant proteinGroups.txt listing every protein of the fixed data set, for a share of the cases
        sup["mq_groups"] = rng.random() < 0.2
        return {"kind": "cfg", "toml": t, "use_genes": rng.random() < 0.12, "supplied": sup}

    def _field(self, rng, k):
        if k == "scoreType":
            toks = []
            if rng.random() < 0.88:
                toks.append(rng.choice(["multPEP", "bestPEP", "bestPEP", "Andromeda", "MQ_protein"]))
            if rng.random() < 0.7:
                toks += rng.choice([["Perc"], ["Perc", "remap"], ["Perc", "no_remap"], ["no_remap"], ["remap"], ["FragPipe"], ["Sage"], ["DIA-NN"], ["Sage", "Perc"], ["DIA-NN", "FragPipe"]])
            for extra in ("razor", "with_shared"):
                if rng.random() < 0.12:
                    toks.append(extra)
            for _ in range(rng.choice([0, 0, 0, 1, 2])):
                toks.append(rng.choice(self.SCORE_TOKENS) if rng.random() < 0.5 else rng.choice(self.NOISE))
            rng.shuffle(toks)
            return rng.choice([" ", " ", " ", " ", "", "_"]).join(toks)
        if k == "grouping":
            return rng.choice(self.GROUPINGS) if rng.random() < 0.88 else rng.choice(["", "rescued", "subset ", "No", "none", "pseudo"])
        if k == "pickedStrategy":
            return rng.choice(self.PICKED) if rng.random() < 0.9 else rng.choice(["", "Picked", "picked_groups", "pickedgroup", "none"])
        if k == "sharedPeptides":
            return rng.choice(["discard", "discard", "razor", "razor", "Razor", "", "shared"])
        return rng.choice(["Label", "My method 1", "A + B", "x"])

    _sm = None

    def _shipped(self):
        if P._sm is None:
            P._sm = shipped_methods()
        return P._sm

    def exhaustive_cases(self, tier):
        # every shipped file x {fasta, no fasta} x {own input only, all inputs, none} x pseudo-gene override
        out = []
        for name, t in sorted(self._shipped().items()):
            tt = {k: t[k] for k in TOML_KEYS if k in t and isinstance(t[k], str)}
            own = input_of_score_type(tt.get("scoreType", ""))
            for has_map in (True, False):
                for which in ("own", "all", "none"):
                    for genes in (False, True):
                        sup = {k: (which == "all" or (which == "own" and k == own)) for k in INPUTS}
                        sup["map"] = has_map
                        sup["mq_groups"] = False
                        out.append({"kind": "cfg", "toml": tt, "use_genes": genes, "supplied": sup})
        return out

    # ------------------------------------------------------------------ the implementation, in-process
    def _cfg_view(self, mc):
        from picked_group_fdr import scoring, score_origin, grouping, competition

        sc = {scoring.MultPEPScore: "multPEP", scoring.BestPEPScore: "bestPEP", scoring.BestAndromedaScore: "Andromeda", scoring.MQProteinScore: "MQ_protein"}[type(mc.score_type.protein_score)]
        org = {
            score_origin.PercolatorInput: "perc",
            score_origin.PercolatorInputRemapped: "perc_remap",
            score_origin.FragPipeInput: "fragpipe",
            score_origin.SageInput: "sage",
            score_origin.DiannInput: "diann",
            score_origin.MaxQuantInput: "mq",
            score_origin.MaxQuantInputNoRemap: "mq_no_remap",
        }[type(mc.score_type.score_origin)]
        grp = {
            grouping.NoGrouping: "no",
            grouping.SubsetGrouping: "subset",
            grouping.RescuedSubsetGrouping: "rescued_subset",
            grouping.MQNativeGrouping: "mq_native",
            grouping.RescuedMQNativeGrouping: "rescued_mq_native",
            grouping.PseudoGeneGrouping: "pseudo_gene",
        }[type(mc.grouping_strategy)]
        pk = {competition.PickedStrategy: "picked", competition.PickedGroupStrategy: "picked_group", competition.ClassicStrategy: "classic"}[type(mc.picked_strategy)]
        a = _Args()
        a.mq_evidence, a.perc_evidence, a.fragpipe_psm, a.sage_results, a.diann_reports = ["mq"], ["perc"], ["fragpipe"], ["sage"], ["diann"]
        from picked_group_fdr import methods

        return {
            "score": sc,
            "origin": org,
            "razor": bool(mc.score_type.use_razor),
            "with_shared": bool(mc.score_type.use_shared_peptides),
            "grouping": grp,
            "picked": pk,
            "label": mc.label,
            "can_rescue": bool(mc.score_type.can_do_protein_group_rescue()),
            "rescues": list(mc.grouping_strategy.get_rescue_steps()) == [False, True],
            "remaps": bool(mc.score_type.remaps_peptides_to_proteins()),
            "can_quantify": bool(mc.score_type.can_do_quantification()),
            "input": mc.score_type.get_evidence_file(a)[0],
            "score_column": mc.score_type.get_score_column(),
            "needs_map": bool(methods.requires_peptide_to_protein_map([mc])),
        }

    _maps = {}

    def _fixed_maps(self, d, use_genes):
        """the peptide -> protein maps of the FIXED proteins, through the real digest with the command line's defaults"""
        if use_genes not in P._maps:
            from picked_group_fdr import peptide_protein_map
            from picked_group_fdr import picked_group_fdr as pgf

            fa = os.path.join(d, "db.fasta")
            Path(fa).write_text(render_fasta(FIXED))
            args = pgf.parse_args(["--fasta", fa, "--mq_evidence", "x"] + (["--gene_level"] if use_genes else []))
            P._maps[use_genes] = peptide_protein_map.get_peptide_to_protein_maps_from_args(args, use_genes)
        return P._maps[use_genes]

    def _run_cfg(self, case):
        from picked_group_fdr import methods, peptide_protein_map
        from picked_group_fdr.parsers import evidence
        from picked_group_fdr import picked_group_fdr as pgf
        import numpy as np

        d = tempfile.mkdtemp(prefix="c18cfg")
        try:
            path = os.path.join(d, "m.toml")
            Path(path).write_text(toml_text(case["toml"]))
            try:
                mc = methods.parse_method_toml(path, case["use_genes"])
            except Exception as e:
                return self._err_of(e)
            view = self._cfg_view(mc)
            sup = case["supplied"]
            # run_picked_group_fdr: the map is demanded before any method runs
            if methods.requires_peptide_to_protein_map([mc]) and not sup["map"]:
                try:
                    peptide_protein_map.get_peptide_to_protein_maps(None, None, [], None)
                    return {"err": "internal:no-refusal-without-fasta"}
                except Exception as e:
                    out = self._err_of(e)
                    return out
            files, words = render_inputs(FIXED, [k for k in INPUTS if sup[k]])
            for fn, content in files.items():
                Path(d, fn).write_text(content)
            a = _Args()
            for k, attr in (("mq", "mq_evidence"), ("perc", "perc_evidence"), ("fragpipe", "fragpipe_psm"), ("sage", "sage_results"), ("diann", "diann_reports")):
                setattr(a, attr, [os.path.join(d, w) for w in words[k]] if sup[k] else None)
            # run_method: the evidence files of the method's type; none -> warning, method skipped
            evidence_files = mc.score_type.get_evidence_file(a)
            if not evidence_files:
                return {"cfgs": [view], "outcomes": ["skipped"]}
            np.random.seed(1)
            try:
                maps = [None]
                if methods.requires_peptide_to_protein_map([mc]):
                    maps = self._fixed_maps(d, case["use_genes"])
                # the REAL evidence parser of the method's input type with the method's score type (every
                # origin x score combination goes through it: MQ_protein, column None, is refused by the MaxQuant
                # parser only), then the real inference on what it returned
                pil = evidence.parse_evidence_files(evidence_files, maps, mc.score_type, True)
                mqg = ""
                if sup["mq_groups"]:
                    mqg = os.path.join(d, "proteinGroups.txt")
                    Path(mqg).write_text(MQ_GROUPS_TXT)
                res = pgf.get_protein_group_results(pil, mqg, mc, None, False, 0.01, 0.01)
                n = len(res)
                if n == 0:
                    return {"cfgs": [view], "outcomes": [{"abort": "internal:empty-result"}]}
                return {"cfgs": [view], "outcomes": ["table"]}
            except Exception as e:
                tb = traceback.extract_tb(e.__traceback__)
                return {
                    "cfgs": [view],
                    "outcomes": [{"abort": self._err_of(e)["err"]}],
                    "_rec": {"msg": str(e)[:200], "where": ["%s:%d %s" % (os.path.basename(f.filename), f.lineno, f.name) for f in tb[-5:]]},
                }
        finally:
            shutil.rmtree(d, ignore_errors=True)

    def _err_of(self, e):
        tag = classify_exception(type(e).__name__, str(e))
        out = {"err": tag}
        if tag == "missing_key":
            out["key"] = e.args[0]
        if tag.startswith("internal:"):
            tb = traceback.extract_tb(e.__traceback__)
            out["_rec"] = {"msg": str(e)[:300], "where": ["%s:%d %s" % (os.path.basename(f.filename), f.lineno, f.name) for f in tb[-3:]]}
        return out

    # ------------------------------------------------------------------ the implementation, command line
    def _cli_files(self, case):
        data = case["data"]
        files, words = render_inputs(data, case["supply"], case.get("perc_split", False))
        if case.get("fasta", True):
            files["db.fasta"] = render_fasta(data)
        names = []
        for i, m in enumerate(case["methods"]):
            if "toml" in m:
                fn = "custom_%d.toml" % i
                files[fn] = toml_text(m["toml"])
                names.append(fn)
            else:
                names.append(m["name"])
        cmd = ["-m", "picked_group_fdr", "--methods", ",".join(names), "--protein_groups_out", "out.txt"]
        if case.get("fasta", True):
            cmd += ["--fasta", "db.fasta"]
        for k in INPUTS:
            if k in words:
                cmd += [FLAG[k]] + words[k]
        cmd += case.get("flags", [])
        return files, cmd

    def _run_cli(self, case):
        files, cmd = self._cli_files(case)
        d = tempfile.mkdtemp(prefix="c18cli")
        try:
            for fn, content in files.items():
                Path(d, fn).write_text(content)
            before = set(os.listdir(d))
            p = subprocess.run([lib.PY] + cmd, cwd=d, env=lib.impl_env(), capture_output=True, text=True, timeout=600)
            out = p.stdout + "\n" + p.stderr
            written = sorted(f for f in set(os.listdir(d)) - before if f.startswith("out"))
            tables = {f: Path(d, f).read_text() for f in written}
            err = None
            lines = [l for l in p.stderr.splitlines() if l.strip()]
            if "Traceback (most recent call last)" in p.stderr:
                last = lines[-1]
                m = re.match(r"^([A-Za-z_][\w.]*)(?:: (.*))?$", last)
                etype, msg = (m.group(1), m.group(2) or "") if m else ("Unknown", last)
                etype = etype.split(".")[-1]
                err = classify_exception(etype, msg)
            elif p.returncode != 0:
                err = "internal:exit-%d" % p.returncode
            res = {
                "err": err,
                "rc": 0 if p.returncode == 0 else 1,
                "written": written,
                "skipped": len(re.findall(r"No evidence input file found, skipping method", out)),
                "_rec": {
                    "cmd": "cd <dir with the files below> && PYTHONPATH=%s:%s %s %s" % (lib.REPO, lib.STUBS, lib.PY, " ".join(cmd)),
                    "files": files,
                    "tables": tables,
                    "stderr_tail": "\n".join(lines[-6:])[-1500:],
                },
            }
            return res
        finally:
            shutil.rmtree(d, ignore_errors=True)

    def _all_subcases(self, case):
        """kind cli_all: one run per shipped method of the tree under test, all on the case's data set"""
        sm = self._shipped()
        subs = []
        for n in sorted(sm):
            t = sm[n]
            st = t.get("scoreType", "") if isinstance(t.get("scoreType", ""), str) else ""
            if t.get("sharedPeptides") == "razor":
                st += " razor"
            subs.append(
                {"kind": "cli", "what": "shipped", "methods": [{"name": n}], "supply": [input_of_score_type(st)], "fasta": True,
                 "perc_split": bool(case.get("perc_split", False)), "data": case["data"], "expect": "tables", "expect_tables": 1}
            )
        return subs

    def run_impl(self, case):
        if case["kind"] == "cfg":
            return self._run_cfg(case)
        if case["kind"] == "cli_all":
            subs = self._all_subcases(case)
            with ThreadPoolExecutor(max_workers=16) as ex:
                outs = list(ex.map(lambda c: lib._safe(self._run_cli, c), subs))
            runs, rec = {}, {}
            for c, o in zip(subs, outs):
                n = c["methods"][0]["name"]
                runs[n] = {k: v for k, v in o.items() if k != "_rec"} if isinstance(o, dict) else o
                why = self._oracle_cli(c, o) if isinstance(o, dict) and "exc" not in o else "harness could not run it: %r" % (o,)
                if why is not None:
                    r = (o.get("_rec") or {}) if isinstance(o, dict) else {}
                    rec[n] = {"why": why, "cmd": r.get("cmd"), "stderr_tail": r.get("stderr_tail")}
            files, _ = render_inputs(case["data"], INPUTS, bool(case.get("perc_split", False)))
            files["db.fasta"] = render_fasta(case["data"])
            return {"runs": runs, "_rec": {"failing": rec, "files": files}}
        return self._run_cli(case)

    # ------------------------------------------------------------------ the model
    def model_request(self, case, impl_out):
        if case["kind"] == "cfg":
            return {"op": "method", "methods": [{"toml": case["toml"]}], "use_genes": case["use_genes"], "supplied": case["supplied"]}
        if case["kind"] == "cli_all":
            return [self.model_request(c, None) for c in self._all_subcases(case)]
        sup = {k: (k in case["supply"]) for k in INPUTS}
        sup["map"] = bool(case.get("fasta", True))
        sup["mq_groups"] = False
        return {"op": "method", "methods": case["methods"], "use_genes": bool(case.get("use_genes", False)), "supplied": sup, "stem": "out", "suffix": ".txt"}

    def model_view(self, case, resp, impl_out):
        if case["kind"] == "cfg":
            if "err" in resp:
                return resp
            return {"cfgs": resp["cfgs"], "outcomes": resp["outcomes"]}
        if case["kind"] == "cli_all":
            subs = self._all_subcases(case)
            return {"runs": {c["methods"][0]["name"]: self.model_view(c, r, None) for c, r in zip(subs, resp)}}
        if "proto_err" in resp:
            return resp
        if "err" in resp:
            return {"err": resp["err"], "rc": 1, "written": [], "skipped": 0}
        err = None
        written = set()
        skipped = 0
        for o, f in zip(resp["outcomes"], resp["files"]):
            if o == "table":
                written.add(f)
            elif o == "skipped":
                skipped += 1
            else:
                err = o["abort"]
        return {"err": err, "rc": 1 if err else 0, "written": sorted(written), "skipped": skipped}

    # ------------------------------------------------------------------ the property, stated directly
    def oracle(self, case, impl_out):
        if not isinstance(impl_out, dict):
            return "no result"
        if "exc" in impl_out:
            return "harness could not run the case: %s %s" % (impl_out["exc"], impl_out.get("msg"))
        if case["kind"] == "cfg":
            return self._oracle_cfg(case, impl_out)
        if case["kind"] == "cli_all":
            bad = (impl_out.get("_rec") or {}).get("failing") or {}
            if not bad:
                return None
            first = sorted(bad)[0]
            return "%d of the %d shipped methods fail on this data set (%s); e.g. %s" % (len(bad), len(impl_out["runs"]), ", ".join(sorted(bad)), bad[first]["why"][:400])
        return self._oracle_cli(case, impl_out)

    def _internal(self, tag):
        return isinstance(tag, str) and tag.startswith("internal:")

    def _oracle_cfg(self, case, out):
        t = case["toml"]
        if self._internal(out.get("err")):
            return "configuration %r is refused with an internal error (%s: %s) instead of the tool's own message" % (t, out["err"][9:], (out.get("_rec") or {}).get("msg"))
        if "err" in out:
            return None
        o = out["outcomes"][0]
        if isinstance(o, dict) and self._internal(o["abort"]):
            return "configuration %r dies with an internal error (%s: %s)" % (t, o["abort"][9:], (out.get("_rec") or {}).get("msg"))
        # a well-typed, supported configuration with its input supplied must produce results
        ok_names = t.get("pickedStrategy") in self.PICKED and (case["use_genes"] or t.get("grouping") in ("no", "subset", "rescued_subset", "pseudo_gene"))
        st = t.get("scoreType", "")
        if t.get("sharedPeptides") == "razor":
            st += " razor"
        ok_score = "multPEP" in st or "bestPEP" in st
        if all(k in t for k in TOML_KEYS) and ok_names and ok_score:
            inp = input_of_score_type(st)
            if case["supplied"][inp] and (case["supplied"]["map"] or not (remaps_of_score_type(st) or case["use_genes"] or t.get("grouping") == "pseudo_gene")):
                if o != "table":
                    return "supported configuration %r with its %s input did not produce protein groups: %r" % (t, inp, o)
        return None

    def _oracle_cli(self, case, out):
        rec = out.get("_rec") or {}
        if self._internal(out.get("err")):
            return "%s ends with an internal error (%s) instead of a table or the tool's own refusal: %s" % (
                self._describe(case),
                out["err"][9:],
                (rec.get("stderr_tail", "").splitlines() or [""])[-1][:300],
            )
        exp = case.get("expect")
        if exp == "tables":
            if out.get("err") or out.get("rc") != 0:
                return "%s was refused (%s) although every method is shipped and its input is valid" % (self._describe(case), out.get("err"))
            want = case.get("expect_tables")
            if want is not None and len(out["written"]) != want:
                return "%s wrote %d table(s) %r, expected %d" % (self._describe(case), len(out["written"]), out["written"], want)
            if not out["written"]:
                return "%s wrote no protein-group table" % self._describe(case)
        elif exp == "refused":
            if out["written"]:
                return "%s is an unsupported combination but a table %r was written" % (self._describe(case), out["written"])
            if out.get("rc") == 0 and not out.get("skipped"):
                return "%s is an unsupported combination but the tool neither refused nor warned" % self._describe(case)
        for f, text in (rec.get("tables") or {}).items():
            why = check_table(text)
            if why:
                return "%s: table %s: %s" % (self._describe(case), f, why)
        return None

    def _describe(self, case):
        ms = ",".join(m.get("name", "<custom toml %s>" % json.dumps(m.get("toml"), sort_keys=True)) for m in case["methods"])
        return "--methods %s with inputs %s%s" % (ms, "+".join(case["supply"]) or "none", "" if case.get("fasta", True) else " (no FASTA)")

    # ------------------------------------------------------------------ bookkeeping
    def impl_view(self, case, impl_out):
        if isinstance(impl_out, dict):
            return {k: v for k, v in impl_out.items() if k != "_rec"}
        return impl_out

    def nontrivial(self, case, impl_out):
        if not isinstance(impl_out, dict):
            return False
        if case["kind"] == "cfg":
            return "cfgs" in impl_out
        if case["kind"] == "cli_all":
            return True
        return bool(impl_out.get("written")) or bool(impl_out.get("skipped")) or impl_out.get("err") in ("rescue_unsupported", "missing_mq_protein_groups", "no_score_column", "no_protein_score_file")

    def features(self, case, impl_out):
        f = ["kind=" + case["kind"]]
        if not isinstance(impl_out, dict):
            return f
        if case["kind"] == "cfg":
            if "err" in impl_out:
                f.append("cfg:err=" + str(impl_out["err"]))
            elif "cfgs" in impl_out:
                c = impl_out["cfgs"][0]
                o = impl_out["outcomes"][0]
                f.append("cfg:outcome=" + (o if isinstance(o, str) else "abort:" + o["abort"]))
                f.append("cfg:score=" + c["score"])
                f.append("cfg:origin=" + c["origin"])
                f.append("cfg:grouping=" + c["grouping"])
                if o != "skipped":
                    f.append("cfg:parsed:%s:%s" % (c["input"], c["score"]))
                if case["supplied"].get("mq_groups"):
                    f.append("cfg:mq_groups_supplied")
                if c["razor"]:
                    f.append("cfg:razor")
                if case["use_genes"]:
                    f.append("cfg:pseudo_gene_override")
        elif case["kind"] == "cli_all":
            f.append("cli_all:methods=%d" % len(impl_out.get("runs", {})))
        else:
            f.append("cli:" + case.get("what", "?"))
            f.append("cli:err=%s" % impl_out.get("err"))
            f.append("cli:tables=%d" % len(impl_out.get("written", [])))
            for m in case["methods"]:
                if "name" in m:
                    f.append("cli:method=" + m["name"])
        return f

    def shrink(self, case):
        if case["kind"] == "cfg":
            t = case["toml"]
            if case["use_genes"]:
                yield dict(case, use_genes=False)
            for k, simple in (("label", "x"), ("sharedPeptides", "discard"), ("pickedStrategy", "classic"), ("grouping", "no"), ("scoreType", "bestPEP")):
                if t.get(k) != simple:
                    yield dict(case, toml=dict(t, **{k: simple}))
            st = t.get("scoreType", "")
            toks = st.split(" ")
            if len(toks) > 1:
                for i in range(len(toks)):
                    yield dict(case, toml=dict(t, scoreType=" ".join(toks[:i] + toks[i + 1 :])))
            sup = case["supplied"]
            for k in INPUTS:
                if sup[k] and sum(sup[x] for x in INPUTS) > 1:
                    yield dict(case, supplied=dict(sup, **{k: False}))
        elif case["kind"] == "cli_all":
            return
        else:
            if case["data"] != TINY:
                yield dict(case, data=TINY)
            if len(case["methods"]) > 1:
                for i in range(len(case["methods"])):
                    c = dict(case, methods=case["methods"][:i] + case["methods"][i + 1 :])
                    c.pop("expect_tables", None)
                    yield c

    # ------------------------------------------------------------------ the command-line stage
    def cli_cases(self, tier, seed):
        rng = random.Random(1000003 * seed + 18)
        sm = self._shipped()
        names = sorted(sm)
        reps = 1 if tier == "quick" else 12
        cases = []

        def st_of(n):
            t = sm[n]
            s = t.get("scoreType", "") if isinstance(t.get("scoreType", ""), str) else ""
            return s + (" razor" if t.get("sharedPeptides") == "razor" else "")

        # A. every shipped method, input of its type, with FASTA
        for rep in range(reps):
            for n in names:
                data = gen_data(rng, big=rep % 2 == 1)
                cases.append(
                    {
                        "kind": "cli",
                        "what": "shipped",
                        "methods": [{"name": n}],
                        "supply": [input_of_score_type(st_of(n))],
                        "fasta": True,
                        "perc_split": rng.random() < 0.5,
                        "data": data,
                        "expect": "tables",
                        "expect_tables": 1,
                    }
                )
        # B. shipped methods that do not remap, without FASTA
        noremap = [n for n in names if not remaps_of_score_type(st_of(n))]
        # a method NAMED no_remap must run without a FASTA file whatever its score type spells (the substring test
        # "remap" in "no_remap" makes a Percolator score type written `Perc no_remap …` a remapping one)
        named = [n for n in names if "no_remap" in n]
        picks = noremap if tier != "quick" else rng.sample(noremap, min(4, len(noremap)))
        for n in list(dict.fromkeys(list(picks) + named)):
            cases.append(
                {
                    "kind": "cli",
                    "what": "shipped-no-fasta",
                    "methods": [{"name": n}],
                    "supply": [input_of_score_type(st_of(n))],
                    "fasta": False,
                    "perc_split": False,
                    "data": gen_data(rng),
                    "expect": "tables",
                    "expect_tables": 1,
                }
            )
        # C. several methods at once (all inputs supplied, or only some: the others are skipped with a warning)
        for _ in range(5 if tier == "quick" else 40):
            k = rng.randint(2, 4)
            ms = rng.sample(names, k)
            if rng.random() < 0.5:
                supply = list(INPUTS)
            else:
                supply = sorted({input_of_score_type(st_of(ms[0]))} | {x for x in INPUTS if rng.random() < 0.3}, key=INPUTS.index)
            labels = {}
            for n in ms:
                if input_of_score_type(st_of(n)) in supply:
                    labels[str(sm[n].get("label")).lower().replace(" ", "_")] = 1
            cases.append(
                {
                    "kind": "cli",
                    "what": "several",
                    "methods": [{"name": n} for n in ms],
                    "supply": supply,
                    "fasta": True,
                    "perc_split": rng.random() < 0.5,
                    "data": gen_data(rng),
                    "expect": "tables",
                    "expect_tables": len(labels),
                }
            )
        # C2. ordered pairs mixing a method that reads the proteins from the file with one that remaps through the
        #     digest, in both orders: what one method needs (FASTA digest, input file) must not depend on its neighbours
        remap = [n for n in names if remaps_of_score_type(st_of(n))]
        for _ in range(3 if tier == "quick" else 20):
            a, b = rng.choice(noremap), rng.choice(remap)
            for ms in ([a, b], [b, a]):
                labels = {str(sm[n].get("label")).lower().replace(" ", "_"): 1 for n in ms}
                cases.append(
                    {
                        "kind": "cli",
                        "what": "several-mixed-remap",
                        "methods": [{"name": n} for n in ms],
                        "supply": list(INPUTS),
                        "fasta": True,
                        "perc_split": rng.random() < 0.5,
                        "data": gen_data(rng),
                        "expect": "tables",
                        "expect_tables": len(labels),
                    }
                )
        # D. deliberately unsupported combinations
        for n in rng.sample(names, 3 if tier == "quick" else 10):
            own = input_of_score_type(st_of(n))
            other = rng.choice([x for x in INPUTS if x != own])
            cases.append({"kind": "cli", "what": "missing-input", "methods": [{"name": n}], "supply": [other], "fasta": True, "data": gen_data(rng), "expect": "refused"})
        for n in rng.sample(remap, min(len(remap), 2 if tier == "quick" else 6)):
            cases.append(
                {"kind": "cli", "what": "missing-fasta", "methods": [{"name": n}], "supply": [input_of_score_type(st_of(n))], "fasta": False, "data": gen_data(rng), "expect": "refused"}
            )
        customs = [
            ("rescue-unsupported", {"pickedStrategy": "picked_group", "scoreType": "Andromeda", "grouping": "rescued_subset", "sharedPeptides": "discard", "label": "custom"}, "mq"),
            ("rescue-unsupported", {"pickedStrategy": "classic", "scoreType": "Perc Andromeda", "grouping": "rescued_subset", "sharedPeptides": "discard", "label": "custom"}, "perc"),
            ("unknown-picked", {"pickedStrategy": "pickedgroup", "scoreType": "bestPEP", "grouping": "no", "sharedPeptides": "discard", "label": "custom"}, "mq"),
            ("unknown-grouping", {"pickedStrategy": "picked", "scoreType": "bestPEP", "grouping": "rescued", "sharedPeptides": "discard", "label": "custom"}, "mq"),
            ("unknown-score", {"pickedStrategy": "picked", "scoreType": "bestpep", "grouping": "no", "sharedPeptides": "discard", "label": "custom"}, "mq"),
            ("mq-native-without-groups", {"pickedStrategy": "picked", "scoreType": "bestPEP", "grouping": "mq_native", "sharedPeptides": "discard", "label": "custom"}, "mq"),
            ("no-score-column", {"pickedStrategy": "picked", "scoreType": "MQ_protein", "grouping": "no", "sharedPeptides": "discard", "label": "custom"}, "mq"),
            ("no-score-column", {"pickedStrategy": "classic", "scoreType": "no_remap MQ_protein", "grouping": "mq_native", "sharedPeptides": "razor", "label": "custom"}, "mq"),
            # MQ_protein outside MaxQuant input: only the MaxQuant parser demands the score column; the others parse and the
            # first pass asks the score object for a proteinGroups file nobody gave it (repaired: the tool's own ValueError;
            # shipped code: FileNotFoundError '' -- the C18 finding).  The grouping's own refusal comes first, the rescue
            # refusal later.
            ("mq-protein-score-other-input", {"pickedStrategy": "picked", "scoreType": "Perc MQ_protein", "grouping": "subset", "sharedPeptides": "discard", "label": "custom"}, "perc"),
            ("mq-protein-score-other-input", {"pickedStrategy": "picked_group", "scoreType": "Perc remap MQ_protein", "grouping": "no", "sharedPeptides": "discard", "label": "custom"}, "perc"),
            ("mq-protein-score-other-input", {"pickedStrategy": "classic", "scoreType": "FragPipe MQ_protein", "grouping": "subset", "sharedPeptides": "discard", "label": "custom"}, "fragpipe"),
            ("mq-protein-score-other-input", {"pickedStrategy": "picked", "scoreType": "Sage MQ_protein", "grouping": "rescued_subset", "sharedPeptides": "discard", "label": "custom"}, "sage"),
            ("mq-protein-score-other-input", {"pickedStrategy": "picked", "scoreType": "DIA-NN MQ_protein", "grouping": "subset", "sharedPeptides": "discard", "label": "custom"}, "diann"),
            ("mq-protein-score-mq-native", {"pickedStrategy": "picked", "scoreType": "Perc MQ_protein", "grouping": "mq_native", "sharedPeptides": "discard", "label": "custom"}, "perc"),
        ]
        for what, t, inp in customs:
            cases.append({"kind": "cli", "what": what, "methods": [{"toml": t}], "supply": [inp], "fasta": True, "data": gen_data(rng), "expect": "refused"})
        cases.append({"kind": "cli", "what": "unknown-method", "methods": [{"name": "no_such_method"}], "supply": ["mq"], "fasta": True, "data": gen_data(rng), "expect": "refused"})
        # a custom file that IS supported (a shipped combination given by path; Andromeda without rescue)
        cases.append(
            {
                "kind": "cli",
                "what": "custom-supported",
                "methods": [{"toml": {"pickedStrategy": "picked", "scoreType": "Andromeda", "grouping": "subset", "sharedPeptides": "discard", "label": "custom andromeda"}}],
                "supply": ["mq"],
                "fasta": True,
                "data": gen_data(rng),
                "expect": "tables",
                "expect_tables": 1,
            }
        )
        # the Andromeda score (column "score") is read from every input type: the non-MaxQuant parsers fall back to their
        # search-engine score column
        andro = [("Perc Andromeda", "perc"), ("FragPipe Andromeda", "fragpipe"), ("Sage Andromeda", "sage"), ("DIA-NN Andromeda", "diann")]
        for st, inp in (rng.sample(andro, 2) if tier == "quick" else andro):
            cases.append(
                {
                    "kind": "cli",
                    "what": "custom-supported",
                    "methods": [{"toml": {"pickedStrategy": "picked", "scoreType": st, "grouping": "subset", "sharedPeptides": "discard", "label": "custom andromeda"}}],
                    "supply": [inp],
                    "fasta": True,
                    "data": gen_data(rng),
                    "expect": "tables",
                    "expect_tables": 1,
                }
            )
        # gene-level run on a FASTA without gene names: every method falls back to pseudo-gene grouping
        for n in rng.sample(names, 2 if tier == "quick" else 8):
            cases.append(
                {
                    "kind": "cli",
                    "what": "gene-level-pseudo-genes",
                    "methods": [{"name": n}],
                    "supply": [input_of_score_type(st_of(n))],
                    "fasta": True,
                    "flags": ["--gene_level"],
                    "use_genes": True,
                    "data": gen_data(rng),
                    "expect": "tables",
                    "expect_tables": 1,
                }
            )
        # a refused method after a completed one: the first table stays, the run ends with the tool's message
        cases.append(
            {
                "kind": "cli",
                "what": "several-then-refused",
                "methods": [{"name": "picked_protein_group_mq_input"}, {"toml": customs[0][1]}] if "picked_protein_group_mq_input" in sm else [{"toml": customs[0][1]}],
                "supply": ["mq"],
                "fasta": True,
                "data": gen_data(rng),
                "expect": None,
            }
        )
        return cases

    def extra(self, ctx):
        if ctx.get("replay"):
            return None
        cases = self.cli_cases(ctx["tier"], ctx["seed"])
        with ThreadPoolExecutor(max_workers=16) as ex:
            outs = list(ex.map(lambda c: lib._safe(self.run_impl, c), cases))
        reqs = [self.model_request(c, o) for c, o in zip(cases, outs)]
        answers = ctx["model"].ask(reqs)
        failures = {}
        hist = {}
        for c, o, a in zip(cases, outs, answers):
            hist[c["what"]] = hist.get(c["what"], 0) + 1
            why = self.oracle(c, o)
            mv = lib._safe(self.model_view, c, a, o)
            iv = self.impl_view(c, o)
            dis = None if iv == mv else {"impl": iv, "model": mv}
            if why is None and dis is None:
                continue
            err = o.get("err") if isinstance(o, dict) else None
            tail = ((o.get("_rec") or {}).get("stderr_tail", "") if isinstance(o, dict) else "").splitlines()
            sig = (c["what"] if why is None or not self._internal(err) else "", str(err), tail[-1][:120] if tail and self._internal(err) else (why or "disagree")[:60])
            failures.setdefault(sig, []).append((c, o, why, dis))
        out_f = []
        for sig, lst in failures.items():
            c, o, why, dis = lst[0]
            # smallest data set that still fails the same way
            if c["data"] != TINY:
                c2 = dict(c, data=TINY)
                o2 = lib._safe(self.run_impl, c2)
                why2 = self.oracle(c2, o2)
                if (why2 is None) == (why is None) and isinstance(o2, dict) and o2.get("err") == o.get("err"):
                    a2 = ctx["model"].ask([self.model_request(c2, o2)])[0]
                    mv2 = lib._safe(self.model_view, c2, a2, o2)
                    iv2 = self.impl_view(c2, o2)
                    dis2 = None if iv2 == mv2 else {"impl": iv2, "model": mv2}
                    if (dis2 is None) == (dis is None):
                        c, o, why, dis = c2, o2, why2, dis2
            others = sorted({",".join(m.get("name", "<custom>") for m in x[0]["methods"]) for x in lst})
            if why is not None and len(others) > 1:
                why += "  [same failure for %d runs of this check, --methods: %s]" % (len(lst), "; ".join(others))
            if isinstance(o, dict) and len(lst) > 1:
                o = dict(o)
                o["_rec"] = dict(o.get("_rec") or {}, same_failure_cmds=[(x[1].get("_rec") or {}).get("cmd") for x in lst if isinstance(x[1], dict)][:40])
            out_f.append({"case": c, "impl": o, "why": why, "disagree": dis, "kind": "cli"})
        info = {
            "cli_runs": len(cases),
            "cli_histogram": hist,
            "shipped_methods_measured": len(self._shipped()),
            "tables_checked": sum(len(o.get("written", [])) for o in outs if isinstance(o, dict)),
            "failing_runs": sum(len(v) for v in failures.values()),
            "failing_signatures": [
                {"error": sig[1], "detail": sig[2], "runs": len(lst), "methods": sorted({",".join(m.get("name", "<custom>") for m in x[0]["methods"]) for x in lst})}
                for sig, lst in failures.items()
            ],
        }
        return {"evaluations": len(cases), "failures": out_f, "info": info}

    # ------------------------------------------------------------------ known-finding predicates (offered to known_findings.json)
    def razor_filter_before_counts(self, case, impl_out, rec):
        """§9 item 6: a razor method dies with AttributeError peptide_counts_per_protein while parsing evidence"""
        if case.get("kind") == "cli_all" and isinstance(impl_out, dict):
            bad = (impl_out.get("_rec") or {}).get("failing") or {}
            return bool(bad) and all("peptide_counts_per_protein" in (b.get("stderr_tail") or "") for b in bad.values())
        return (
            case.get("kind") == "cli"
            and isinstance(impl_out, dict)
            and impl_out.get("err") == "internal:AttributeError"
            and "peptide_counts_per_protein" in ((impl_out.get("_rec") or {}).get("stderr_tail", ""))
        )

    def mq_protein_score_without_file(self, case, impl_out, rec):
        """score MQ_protein on Percolator / FragPipe / Sage / DIA-NN input: MQProteinScore.get_protein_scores_from_file opens
        the file name '' (parse_method_toml never passes one) -> FileNotFoundError instead of the tool's own refusal"""
        if not isinstance(impl_out, dict):
            return False
        r = impl_out.get("_rec") or {}
        if case.get("kind") == "cfg":
            o = (impl_out.get("outcomes") or [None])[0]
            return (
                isinstance(o, dict)
                and o.get("abort") == "internal:FileNotFoundError"
                and "No such file or directory: ''" in (r.get("msg") or "")
                and any("get_protein_scores_from_file" in w or "get_tsv_reader" in w or "parse_protein_groups_file_single" in w for w in r.get("where", []))
            )
        if case.get("kind") == "cli":
            tail = r.get("stderr_tail") or ""
            mqp = any("MQ_protein" in str((m.get("toml") or {}).get("scoreType", "")) for m in case.get("methods", []))
            return impl_out.get("err") == "internal:FileNotFoundError" and "No such file or directory: ''" in tail and mqp and ("get_tsv_reader" in tail or "parse_protein_groups_file_single" in tail or "get_protein_scores_from_file" in tail)
        return False

    def factory_message_typeerror(self, case, impl_out, rec):
        """an unknown pickedStrategy / grouping name dies with TypeError while the factory formats its own message"""
        if not isinstance(impl_out, dict):
            return False
        if case.get("kind") == "cfg":
            return impl_out.get("err") == "internal:TypeError" and any("StrategyFactory" in w for w in (impl_out.get("_rec") or {}).get("where", []))
        return impl_out.get("err") == "internal:TypeError" and "string indices must be integers" in ((impl_out.get("_rec") or {}).get("stderr_tail", ""))


# ---- command-line glue cases: the real `picked_group_fdr.main(argv)` in-process (recorders around every method's
# inference call) against the composed Lean model PgFdr.Cli.cliOutcome (driver op "cli"); the oracle checks the written
# tables, the ingested lists and the arguments of every call directly (harness/cli_model.py, notes/cli-model.md)
import cli_model as _cm  # noqa: E402

_BaseP = P


class P(_cm.CliMixin, _BaseP):
    cli_model_share = 0.04
